"""dev tool: dump VCs of one contract (first kind combination matching the filters)
usage: python3-vt devtools/vcdump.py <contract module> <source modules> <contract name> <clause> [combo substrings..]"""
import sys, time, json
sys.path[:0]=['/verif','/repo']
from pyvc.driver import *
from pyvc.propcheck import load_contracts
from pyvc.verify import make_run
from pyvc.explore import explore
import z3
cms, contracts, uses = load_contracts([sys.argv[1]])
w = build_world([sys.argv[1]], sys.argv[2].split(','))
c=[c for c in contracts if c.name==sys.argv[3]][0]
use={k.key:k for k in contracts if k.name in uses.get(c.name,[])}
for combo in c.kind_combinations():
    lab=', '.join(f"{k}:{v!r}" for k,v in combo.items())
    if not all(x in lab for x in sys.argv[5:]): continue
    res=explore(make_run(w,c,combo,use,{}))
    for st,out in res:
        print('OUTCOME', out, 'events', st.events[:10], st.notes.get('clause_exceptions'))
        for vc in st.vcs:
            if vc.name==sys.argv[4]:
                if isinstance(vc.goal,bool): print('GOAL', vc.goal, vc.info); continue
                s=z3.Solver(); s.set('timeout',5000); s.add(*vc.pc); s.add(z3.Not(vc.goal))
                r=s.check(); print(r); print('PC', vc.pc); print('GOAL', vc.goal)
                if r==z3.sat: print('MODEL', s.model())
    break
