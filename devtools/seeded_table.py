#!/usr/bin/env python3
"""markdown table of the kept seeded changes (ids given as suffix list, e.g. 5 6) from seeded/*/meta.json"""
import json, os, re, sys
suff = sys.argv[1:] or ['1', '2']
rows = []
for d in sorted(os.listdir('/verif/seeded')):
    pid, i = d.split('-')
    if i not in suff:
        continue
    m = json.load(open(f'/verif/seeded/{d}/meta.json'))
    lines = (m.get('check_result') or {}).get('lines') or []
    obs = sorted({re.sub(r'\.\d+$', '', re.search(r'replay=/verif/replays/\w+/(.+?)\.json', l).group(1)) for l in lines if l.startswith('VIOLATION')})
    summ = (m.get('summary') or m.get('change') or '').replace('|', '/').replace('\n', ' ')[:170]
    det = m.get('detected_by_quick_check')
    rows.append(f"| {d} | {summ} | {', '.join(obs)[:140] if det else '**not detected** - ' + m.get('judgement', '')} |")
print("| id | change | obligations that fire (quick) |\n|----|--------|-------------------------------|")
print('\n'.join(rows))
