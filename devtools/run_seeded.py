#!/usr/bin/env python3
"""Confirm a seeded property-breaking change and run the property's check against it.

usage: devtools/run_seeded.py <ID> <i> [--keep]      (reads /tmp/mut/out/<ID>/patch<i>.diff, demo<i>.py, meta<i>.json)
       devtools/run_seeded.py --all                   re-run every change kept under /verif/seeded/

Steps (scratch worktree /tmp/mut/<ID>, never /repo): patch applies to HEAD; the 208 tests pass with it;
the demo fails with it and passes without it; ./check <ID> (AK_PY_VERIF_REPO=<scratch>) exits 1 with a VIOLATION.
With --keep the change is stored as /verif/seeded/<ID>-<i>/ (patch.diff, demo.py, meta.json)."""
import json, os, shutil, subprocess, sys, time

VERIF = '/verif'


def sh(cmd, cwd=None, env=None, timeout=3600):
    e = dict(os.environ)
    if env:
        e.update(env)
    p = subprocess.run(cmd, shell=True, cwd=cwd, env=e, capture_output=True, text=True, timeout=timeout)
    return p.returncode, p.stdout + p.stderr


def confirm(pid, patch, demo, wt):
    out = {}
    sh("git checkout -q -- . && git clean -fdq", cwd=wt)
    head = sh("git -C /repo rev-parse HEAD")[1].strip()
    sh(f"git checkout -q --detach {head}", cwd=wt)
    rc, o = sh(f"git apply --check {patch}", cwd=wt)
    out['applies'] = rc == 0
    if rc:
        out['apply_error'] = o[-500:]
        return out
    rc, o = sh(f"PYTHONPATH={wt} /venv/bin/python {demo}", cwd='/tmp')
    out['demo_clean_rc'] = rc
    sh(f"git apply {patch}", cwd=wt)
    rc, o = sh("/venv/bin/python -m pytest -q -p no:cacheprovider -x tests 2>&1 | tail -3", cwd=wt)
    out['tests'] = o.strip().splitlines()[-1] if o.strip() else ''
    out['tests_pass'] = ' passed' in out['tests'] and 'failed' not in out['tests']
    rc, o = sh(f"PYTHONPATH={wt} timeout 300 /venv/bin/python {demo}", cwd='/tmp')
    out['demo_mutant_rc'] = rc
    out['demo_mutant_tail'] = o.strip()[-300:]
    return out


def run_check(pid, wt, tier='quick'):
    t0 = time.time()
    rc, o = sh(f"./check {pid} --tier {tier}", cwd=VERIF, env={'AK_PY_VERIF_REPO': wt}, timeout=7200)
    lines = [l for l in o.splitlines() if l.startswith(('VIOLATION', 'KNOWN-FINDING', 'UNDECIDED', 'CHECKER-ERROR')) or ': exit ' in l]
    return rc, lines, round(time.time() - t0, 1)


def one(pid, i, keep=False, src=None, store_as=None):
    src = src or f"/tmp/mut/out/{pid}"
    patch, demo, meta = f"{src}/patch{i}.diff", f"{src}/demo{i}.py", f"{src}/meta{i}.json"
    if not os.path.exists(patch):
        patch, demo, meta = f"{src}/patch.diff", f"{src}/demo.py", f"{src}/meta.json"
    wt = f"/tmp/mutrun/{pid}"
    os.makedirs('/tmp/mutrun', exist_ok=True)
    if not os.path.isdir(wt):
        sh("git -C /repo worktree prune")
        sh(f"git -C /repo worktree add -q --detach {wt} HEAD")
    res = confirm(pid, patch, demo, wt)
    ok = res.get('applies') and res.get('tests_pass') and res.get('demo_clean_rc') == 0 and res.get('demo_mutant_rc') not in (0, None)
    res['confirmed'] = bool(ok)
    if ok:
        rc, lines, dt = run_check(pid, wt)
        res.update(check_exit=rc, check_lines=lines[:12], check_s=dt, detected=(rc == 1))
    sh("git checkout -q -- . && git clean -fdq", cwd=wt)
    print(json.dumps({'id': f"{pid}-{store_as or i}", **res}, indent=1))
    if keep and ok:
        d = f"{VERIF}/seeded/{pid}-{store_as or i}"
        os.makedirs(d, exist_ok=True)
        if os.path.abspath(patch) != os.path.abspath(f"{d}/patch.diff"):
            shutil.copy(patch, f"{d}/patch.diff")
            shutil.copy(demo, f"{d}/demo.py")
        m = json.load(open(meta)) if os.path.exists(meta) else {}
        m.pop('confirmed', None)
        m.update({'property': pid, 'confirmed': {k: res[k] for k in ('tests', 'demo_clean_rc', 'demo_mutant_rc')},
                  'ran': f"git apply in a scratch worktree of /repo HEAD; pytest tests (all pass); demo passes clean, fails changed; "
                         f"AK_PY_VERIF_REPO=<scratch> ./check {pid} --tier quick",
                  'check_result': {'exit': res.get('check_exit'), 'lines': res.get('check_lines'), 'wall_s': res.get('check_s')},
                  'detected_by_quick_check': res.get('detected')})
        json.dump(m, open(f"{d}/meta.json", 'w'), indent=1)
    return res


if __name__ == '__main__':
    if sys.argv[1] == '--all':
        for d in sorted(os.listdir(f"{VERIF}/seeded")):
            pid, i = d.split('-')
            one(pid, i, keep=True, src=f"{VERIF}/seeded/{d}")
    else:
        src = sys.argv[sys.argv.index('--src') + 1] if '--src' in sys.argv else None
        store = sys.argv[sys.argv.index('--as') + 1] if '--as' in sys.argv else None
        one(sys.argv[1], sys.argv[2], keep='--keep' in sys.argv, src=src, store_as=store)
