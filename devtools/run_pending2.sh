#!/bin/bash
# run every round-2 seeded change under /tmp/mut/out2 that has no result yet (stored as <ID>-3 / <ID>-4)
cd /verif
for d in /tmp/mut/out2/C*; do
  id=$(basename $d)
  for i in 1 2; do
    if [ -f $d/patch$i.diff ] && [ -f $d/meta$i.json ] && [ ! -f $d/result$i.json ]; then
      python3 devtools/run_seeded.py $id $i --keep --src $d --as $((i+2)) > $d/result$i.json 2>&1
      python3 - "$d" "$i" <<'PY'
import json,sys
d,i=sys.argv[1:3]
try:
    t=open(f'{d}/result{i}.json').read(); r=json.loads(t[t.index('{'):])
    print(r['id'],'confirmed' if r.get('confirmed') else 'NOT-CONFIRMED', 'detected' if r.get('detected') else 'MISSED', r.get('check_exit'), r.get('check_s'), (r.get('check_lines') or [''])[0][:100])
except Exception as e: print(d,i,'ERR',e)
PY
    fi
  done
done
