"""dev tool: run one canary of a contract module with a watchdog
usage: python3-vt devtools/canary1.py <contract module> <source modules> <index> [seconds]"""
import sys, time, os
sys.path[:0]=['/verif','/repo']
os.environ['PYVC_SERIAL']='1'
from pyvc import propcheck, driver
cms, contracts, uses = propcheck.load_contracts([sys.argv[1]])
w = driver.build_world([sys.argv[1]], sys.argv[2].split(','))
allc=[cn for cm in cms for cn in getattr(cm,'CANARIES',[])]
propcheck._CG.update(world=w, contracts=contracts, uses=uses, canaries=allc)
i=int(sys.argv[3]); t=time.time()
import faulthandler; faulthandler.dump_traceback_later(int(sys.argv[4]) if len(sys.argv)>4 else 100, exit=True)
print(allc[i]['name'], propcheck._canary_task(i), time.time()-t)
