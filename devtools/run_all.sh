#!/bin/bash
# run every registered quick check against /repo, validate MANIFEST and evidence files
cd "$(dirname "$(dirname "$(readlink -f "$0")")")"
for id in $(python3 -c "import json; print(' '.join(c['property_id'] for c in json.load(open('MANIFEST.json'))['checks']))"); do
  s=$(date +%s)
  out=$(./check $id --tier ${1:-quick} 2>&1 | grep -E ": exit |^VIOLATION|^UNDECIDED|^CHECKER" | head -5)
  echo "$out" | tail -1 | sed "s/$/  [$(( $(date +%s) - s )) s wall]/"
  echo "$out" | grep -E "^VIOLATION|^UNDECIDED|^CHECKER" | head -3
done
python3-vt - <<'PY'
import json,jsonschema,glob
jsonschema.validate(json.load(open('MANIFEST.json')), json.load(open('/root/.vp/MANIFEST.schema.json')))
sch=json.load(open('/root/.vp/EVIDENCE.schema.json'))
m=json.load(open('MANIFEST.json'))
for c in m['checks']:
    e=json.load(open(c['evidence_file'])); jsonschema.validate(e, sch)
    assert e['level']==c['level_claimed']['category'], (c['property_id'], e['level'], c['level_claimed']['category'])
print('manifest + evidence valid; levels agree')
PY
