#!/bin/bash
# run every seeded change under /tmp/mut/out that has no result yet
cd /verif
for d in /tmp/mut/out/C*; do
  id=$(basename $d)
  for i in 1 2; do
    if [ -f $d/patch$i.diff ] && [ ! -f /tmp/mut/out/$id/result$i.json ]; then
      python3 devtools/run_seeded.py $id $i --keep > /tmp/mut/out/$id/result$i.json 2>&1
      python3 - "$id" "$i" <<'PY'
import json,sys
id,i=sys.argv[1:3]
try:
    t=open(f'/tmp/mut/out/{id}/result{i}.json').read(); r=json.loads(t[t.index('{'):])
    print(id,i,'confirmed' if r.get('confirmed') else 'NOT-CONFIRMED', 'detected' if r.get('detected') else 'MISSED', r.get('check_exit'), r.get('check_s'), (r.get('check_lines') or [''])[0][:110])
except Exception as e: print(id,i,'ERR',e)
PY
    fi
  done
done
