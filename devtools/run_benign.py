#!/usr/bin/env python3
"""Run the checks against the kept behaviour-preserving changes (false-alarm measurement).
usage: devtools/run_benign.py [--redo] [<ID> ...]     every /verif/benign/<ID>-b<i>/patch.diff (without a result yet)
Each patch is applied to the scratch worktree /tmp/mutrun/<ID> (never /repo; created on demand, remove it afterwards with
`git -C /repo worktree remove --force /tmp/mutrun/<ID>`); the 208 tests must pass with it; ./check <ID> with
AK_PY_VERIF_REPO=<scratch> must exit 0 without a VIOLATION line.  Overwrites evidence/ and replays/ of the property:
re-run devtools/run_all.sh afterwards."""
import glob, json, os, subprocess, sys, time
sys.path.insert(0, os.path.dirname(__file__))
from run_seeded import sh, run_check

ROOT = os.path.join(os.path.dirname(os.path.dirname(os.path.abspath(__file__))), 'benign')
only = [a for a in sys.argv[1:] if not a.startswith('--')]
for d in sorted(glob.glob(ROOT + '/C*-b*')):
    name = os.path.basename(d)
    pid = name.split('-')[0]
    if only and pid not in only:
        continue
    patch = d + '/patch.diff'
    res_file = d + '/result.json'
    if os.path.exists(res_file) and '--redo' not in sys.argv:
        continue
    wt = f"/tmp/mutrun/{pid}"
    if not os.path.isdir(wt):
        sh("git -C /repo worktree prune")
        sh(f"git -C /repo worktree add -q --detach {wt} HEAD")
    head = sh("git -C /repo rev-parse HEAD")[1].strip()
    sh(f"git checkout -q -- . && git clean -fdq && git checkout -q --detach {head}", cwd=wt)
    rc, o = sh(f"git apply {patch}", cwd=wt)
    res = {'id': name, 'applies': rc == 0}
    if rc == 0:
        rc, o = sh("/venv/bin/python -m pytest -q -p no:cacheprovider -x tests 2>&1 | tail -2", cwd=wt)
        res['tests'] = o.strip().splitlines()[-1] if o.strip() else ''
        if ' passed' in res['tests'] and 'failed' not in res['tests']:
            code, lines, dt = run_check(pid, wt)
            res.update(check_exit=code, lines=lines[:8], wall_s=dt, quiet=(code == 0))
    sh("git checkout -q -- . && git clean -fdq", cwd=wt)
    json.dump(res, open(res_file, 'w'), indent=1)
    print(res['id'], 'applies' if res['applies'] else 'NO-APPLY', res.get('tests', '')[:20], 'exit', res.get('check_exit'),
          'QUIET' if res.get('quiet') else 'ALARM/OTHER', (res.get('lines') or [''])[0][:120])
