"""dev tool: per kind-combination solver time per clause
usage: python3-vt devtools/slow.py <contract module> <source modules> <function>"""
import sys, time, json, collections
sys.path[:0]=['/verif','/repo']
from pyvc.driver import *
from pyvc.propcheck import load_contracts
cms, contracts, uses = load_contracts([sys.argv[1]])
w = build_world([sys.argv[1]], sys.argv[2].split(','))
res = run_contracts(w, contracts, uses, only=sys.argv[3:4])
for r in res:
    by=collections.defaultdict(lambda:[0,0.0,0.0])
    for i in r['instances']:
        b=by[i['clause']]; b[0]+=1; b[1]+=i['time_s']; b[2]=max(b[2],i['time_s'])
    print(r['label'][40:], r.get('time_s'), {k:(v[0],round(v[1],1),round(v[2],2)) for k,v in by.items() if v[1]>1})
