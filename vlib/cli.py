import argparse
import importlib
import json
import os
import sys
import traceback

from .common import EXIT_ERROR


def main():
    ap = argparse.ArgumentParser()
    ap.add_argument('prop', nargs='?')
    ap.add_argument('--tier', choices=['quick', 'thorough'])
    ap.add_argument('--replay')
    ap.add_argument('--update-baseline', action='store_true')
    a = ap.parse_args()
    if a.tier:
        os.environ['VERIF_TIER'] = a.tier
    if a.replay:
        from . import replay
        sys.exit(replay.main(a.replay))
    if not a.prop:
        ap.error("property id required")
    try:
        mod = importlib.import_module(f"checks.{a.prop.lower()}")
    except ModuleNotFoundError as e:
        print(f"no check for {a.prop}: {e}")
        sys.exit(EXIT_ERROR)
    try:
        if a.update_baseline:
            os.environ['VERIF_UPDATE_BASELINE'] = '1'
        code = mod.run()
    except Exception:
        traceback.print_exc()
        print(f"CHECKER-ERROR property={a.prop} uncaught exception in the checker")
        code = EXIT_ERROR
    sys.exit(code)


if __name__ == '__main__':
    main()
