"""Shared plumbing of all checks: tiers/seeds, evidence files, known findings, replay files,
VIOLATION / KNOWN-FINDING reporting, exit codes.  No solver import (runs under any python)."""
import json
import os
import subprocess
import sys
import time

VERIF = os.path.dirname(os.path.dirname(os.path.abspath(__file__)))
REPO = os.environ.get('AK_PY_VERIF_REPO', '/repo')
VENV_PY = '/venv/bin/python'

EXIT_OK, EXIT_VIOLATION, EXIT_UNDECIDED, EXIT_ERROR = 0, 1, 2, 3


def tier():
    return os.environ.get('VERIF_TIER', 'quick') if os.environ.get('VERIF_TIER') in ('quick', 'thorough') else 'quick'


def seed():
    try:
        return int(os.environ.get('VERIF_SEED', '0'))
    except ValueError:
        return 0


def repo_head():
    try:
        h = subprocess.run(['git', '-C', REPO, 'rev-parse', 'HEAD'], capture_output=True, text=True).stdout.strip()
        d = subprocess.run(['git', '-C', REPO, 'status', '--porcelain', '--untracked-files=no'],
                           capture_output=True, text=True).stdout.strip()
        return h, bool(d)
    except Exception:
        return None, None


class Violation:
    def __init__(self, prop, obligation, key, text, replay, confirmed=True):
        self.prop = prop
        self.obligation = obligation     # e.g. C20.uuid_from_short_str.raises_only_ValueError
        self.key = key                   # identity of the failing input class (matched against known findings)
        self.text = text
        self.replay = replay             # JSON-able dict written to the replay file
        self.confirmed = confirmed       # reproduced natively on the real code


def load_findings():
    p = os.path.join(VERIF, 'known_findings.json')
    if not os.path.exists(p):
        return []
    with open(p) as f:
        return json.load(f).get('findings', [])


def finish(prop, level, violations, undecided, errors, coverage, assumptions, t0, extra=None):
    """write replay files + evidence, print the verdict lines, return the exit code"""
    findings = [f for f in load_findings() if f.get('property') == prop and f.get('status') == 'known']
    head, dirty = repo_head()
    new_viol = []
    known_hit = {}
    for v in violations:
        hit = None
        for f in findings:
            if f.get('obligation') == v.obligation and f.get('key') == v.key:
                hit = f
                break
        if hit is not None:
            known_hit.setdefault((hit['obligation'], hit['key']), (hit, v))
        else:
            new_viol.append(v)
    for (ob, key), (f, v) in known_hit.items():
        print(f"KNOWN-FINDING: property={prop} {f.get('text', v.text)}")
    out_dir = os.path.join(VERIF, 'replays', prop)
    seen_files = set()
    for v in new_viol:
        os.makedirs(out_dir, exist_ok=True)
        base = v.obligation.replace('/', '_').replace(' ', '_')
        fn = os.path.join(out_dir, base + '.json')
        i = 1
        while fn in seen_files:
            i += 1
            fn = os.path.join(out_dir, f"{base}.{i}.json")
        seen_files.add(fn)
        rec = dict(v.replay)
        rec.update({'property': prop, 'obligation': v.obligation, 'key': v.key, 'text': v.text,
                    'confirmed_on_real_code': v.confirmed, 'repo_head': head, 'repo_dirty': dirty})
        with open(fn, 'w') as f:
            json.dump(rec, f, indent=1, default=repr)
        tail = '' if v.confirmed else ' no-failing-input-found'
        print(f"VIOLATION property={prop} replay={fn}{tail}")
        print(f"  {v.obligation}: {v.text}")
    for u in undecided:
        print(f"UNDECIDED property={prop} {u}")
    for e in errors:
        print(f"CHECKER-ERROR property={prop} {e}")
    ev = {
        'property_id': prop, 'tier': tier(), 'seed': seed(), 'level': level,
        'coverage': coverage, 'assumptions': assumptions, 'wall_s': round(time.time() - t0, 2),
        'violations': len(new_viol),
        'known_findings_reported': [f"{ob} [{key}]" for (ob, key) in known_hit],
        'undecided': undecided, 'checker_errors': errors,
        'repo_head': head, 'repo_dirty': dirty,
    }
    if extra:
        ev.update(extra)
    os.makedirs(os.path.join(VERIF, 'evidence'), exist_ok=True)
    with open(os.path.join(VERIF, 'evidence', f'{prop}.json'), 'w') as f:
        json.dump(ev, f, indent=1, default=repr)
    # exit code.  An obligation the verifier could not decide on this tree (code outside the modelled subset,
    # a renamed function, a slice marker that is gone) is NOT a violation.  When the property's bounded tier ran on
    # this tree and found nothing, the run still "held on everything explored": exit 0, with the UNDECIDED lines
    # printed and recorded in the evidence.  Without a bounded tier to fall back on it is exit 2.
    bounded_ran = bool(coverage.get('evaluations') or (coverage.get('bounded_complement') or {}).get('evaluations')
                       or (coverage.get('bounded_validation') or {}).get('evaluations'))
    if new_viol:
        code = EXIT_VIOLATION
    elif errors:
        code = EXIT_ERROR
    elif undecided and not bounded_ran:
        code = EXIT_UNDECIDED
    else:
        code = EXIT_OK
    print(f"{prop}: exit {code} ({len(new_viol)} violation(s), {len(known_hit)} known finding(s), "
          f"{len(undecided)} undecided, {len(errors)} checker error(s)) in {ev['wall_s']} s")
    return code
