"""Bounded tier: bookkeeping for drivers that enforce the property's contracts at run time on the
real functions over an enumerated / seeded input space.  Everything recorded here is labelled
bounded and is never counted as proved.

A driver module (harness/cNN.py) provides
    run(b)                    -- explores; calls b.case(...), b.fail(...), b.hit(...)
    replay_case(case) -> (holds: bool, observed)   -- re-executes one recorded case natively
"""
import hashlib
import json
import time
from collections import Counter

from .common import Violation, tier, seed, finish


def canon(x):
    return json.dumps(x, sort_keys=True, default=repr, ensure_ascii=True)


class Bounded:
    def __init__(self, prop, driver_module):
        self.prop = prop
        self.driver = driver_module          # dotted module name, for replay files
        self.tier = tier()
        self.seed = seed()
        self.evaluations = 0
        self._distinct = set()
        self._nontrivial = set()
        self.samples = []
        self.max_samples = 5
        self.fails = {}                      # key -> dict(obligation, text, case, size)
        self.reach = Counter()
        self.diagnostics = []                # failed *supporting* clauses: reported, never a violation
        self.errors = []
        self.t0 = time.time()
        self.notes = {}

    # ---- recording ----
    def case(self, case, nontrivial=True, sample=True):
        """one explored case (JSON-able description of the input)"""
        self.evaluations += 1
        h = hashlib.sha1(canon(case).encode()).digest()[:12]
        self._distinct.add(h)
        if nontrivial:
            self._nontrivial.add(h)
            if sample and len(self.samples) < self.max_samples:
                self.samples.append(case)

    def count(self, n=1):
        self.evaluations += n

    def hit(self, event, n=1):
        self.reach[event] += n

    def fail(self, obligation, key, text, case):
        """a top-level clause failed on `case` (must be re-executable by driver.replay_case).
        The smallest case per key is kept."""
        size = len(canon(case))
        cur = self.fails.get(key)
        if cur is None or size < cur['size']:
            self.fails[key] = {'obligation': obligation, 'text': text, 'case': case, 'size': size}

    def diag(self, text):
        if len(self.diagnostics) < 50 and text not in self.diagnostics:
            self.diagnostics.append(text)

    def error(self, text):
        self.errors.append(text)

    def require_reach(self, events):
        for e in events:
            if self.reach[e] == 0:
                self.errors.append(f"driver did not reach '{e}' (the run proves nothing about it)")

    def budget_left(self, total_s):
        return total_s - (time.time() - self.t0)

    # ---- results ----
    def violations(self):
        out = []
        for key, f in sorted(self.fails.items()):
            out.append(Violation(self.prop, f['obligation'], key, f['text'],
                                 {'kind': 'driver-case', 'driver': self.driver, 'case': f['case']}, True))
        return out

    def coverage(self, rule, exhaustive=False, extra=None):
        cov = {
            'evaluations': self.evaluations,
            'distinct_nontrivial': len(self._nontrivial),
            'distinct': len(self._distinct),
            'rule': rule,
            'samples': self.samples or [],
            'exhaustive': bool(exhaustive),
            'reach_events': dict(self.reach),
            'supporting_clause_diagnostics': self.diagnostics,
            'label': 'bounded (run-time contracts on the real functions; not counted as proved)',
        }
        if extra:
            cov.update(extra)
        return cov
