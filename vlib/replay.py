"""./check --replay <file>: re-execute one recorded violation against the current tree."""
import importlib
import json

from .common import EXIT_OK, EXIT_VIOLATION, EXIT_ERROR


def main(path):
    with open(path) as f:
        rec = json.load(f)
    kind = rec.get('kind')
    if kind == 'proof-counterexample':
        from pyvc import propcheck, runtime
        cm = importlib.import_module(rec['contract_module'])
        c = [k for k in cm.CONTRACTS if k.name == rec.get('name', rec['qualname']) and k.module == rec['module']][0]
        r = propcheck.native_replay(rec['contract_module'], c, rec['clause'], rec['inputs'])
        print(json.dumps(r, indent=1))
        if r.get('pre') and r.get('failed'):
            print(f"VIOLATION property={rec['property']} replay={path}")
            return EXIT_VIOLATION
        print("not reproduced on the current tree")
        return EXIT_OK
    if kind == 'driver-case':
        mod = importlib.import_module(rec['driver'])
        ok, observed = mod.replay_case(rec['case'])
        print(json.dumps({'holds': ok, 'observed': observed}, indent=1, default=repr))
        if not ok:
            print(f"VIOLATION property={rec['property']} replay={path}")
            return EXIT_VIOLATION
        print("not reproduced on the current tree")
        return EXIT_OK
    print(f"replay kind {kind!r} carries the solver output only; nothing to execute")
    return EXIT_OK
