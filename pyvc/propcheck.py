"""Proof tier of one property: modular verification of all its contracts, inlining fall-back
for failed supporting contracts, native replay of counterexamples, canaries, CPython
cross-check, baseline comparison.  Produces violations / undecided / errors / evidence."""
import ast
import copy
import importlib
import json
import os
import subprocess
import sys
import tempfile
import textwrap
import time

from vlib.common import Violation, VERIF, REPO, VENV_PY, tier
from . import driver
from .world import World


def load_contracts(mod_names):
    """contracts of the named modules (to be verified) + contracts of other modules they use at call sites
    (flagged external: used, not verified here - they are verified by their own property's check)"""
    import copy as _copy
    contracts, uses, mods = [], {}, []
    for m in mod_names:
        cm = importlib.import_module(m)
        mods.append(cm)
        contracts.extend(cm.CONTRACTS)
        uses.update(getattr(cm, 'USES', {}))
    for cm in list(mods):
        for em, names in getattr(cm, 'EXTERNAL_CONTRACTS', {}).items():
            if em in mod_names:
                continue
            ecm = importlib.import_module(em)
            for c in ecm.CONTRACTS:
                if c.name in names and not any(k.name == c.name for k in contracts):
                    c2 = _copy.copy(c)
                    c2.external = em
                    contracts.append(c2)
    return mods, contracts, uses


def native_replay(contract_module, c, clause, inputs):
    rec = {'contract_module': contract_module, 'module': c.module, 'qualname': c.qualname, 'name': c.name,
           'clause': clause, 'inputs': inputs}
    with tempfile.NamedTemporaryFile('w', suffix='.json', delete=False, dir=tempfile.gettempdir()) as f:
        json.dump(rec, f)
        path = f.name
    try:
        env = dict(os.environ)
        env['PYTHONPATH'] = f"{VERIF}:{REPO}"
        p = subprocess.run([VENV_PY, '-m', 'pyvc.native_replay', path], capture_output=True, text=True,
                           timeout=120, env=env, cwd=VERIF)
        line = p.stdout.strip().splitlines()[-1] if p.stdout.strip() else ''
        try:
            return json.loads(line)
        except Exception:
            return {'error': (p.stdout + p.stderr)[-2000:]}
    except subprocess.TimeoutExpired:
        return {'error': 'native replay timed out (120 s)', 'timeout': True}
    finally:
        os.unlink(path)


def native_sampling(contract_module, names, n, seed):
    req = {'contract_module': contract_module, 'names': names, 'n': n, 'seed': seed}
    with tempfile.NamedTemporaryFile('w', suffix='.json', delete=False, dir=tempfile.gettempdir()) as f:
        json.dump(req, f)
        path = f.name
    try:
        env = dict(os.environ)
        env['PYTHONPATH'] = f"{VERIF}:{REPO}"
        p = subprocess.run([VENV_PY, '-m', 'pyvc.sampling', path], capture_output=True, text=True, timeout=600, env=env,
                           cwd=VERIF)
        line = p.stdout.strip().splitlines()[-1] if p.stdout.strip() else ''
        try:
            return json.loads(line)
        except Exception:
            return {'error': (p.stdout + p.stderr)[-1500:]}
    except subprocess.TimeoutExpired:
        return {'error': 'native sampling timed out'}
    finally:
        os.unlink(path)


def patch_world_function(world, module, qualname, old, new):
    """in-memory source mutation of one function (canaries); returns undo() or None"""
    sm = world.sources[module]
    node = sm.index[qualname]
    seg = sm.segment(node)
    if seg.count(old) < 1:
        return None
    new_seg = seg.replace(old, new, 1)
    tree = ast.parse(textwrap.dedent(new_seg))
    new_node = tree.body[0]
    ast.increment_lineno(new_node, node.lineno - 1)
    sm.index[qualname] = new_node

    def undo():
        sm.index[qualname] = node
    return undo


def to_interp(v):
    """concretize-JSON form -> interpreter value"""
    from .values import SList, SDict, SObj, SSet
    from . import runtime
    if isinstance(v, list):
        return SList([to_interp(x) for x in v])
    if isinstance(v, dict):
        if '__tuple__' in v:
            return tuple(to_interp(x) for x in v['__tuple__'])
        if '__set__' in v:
            return SSet([to_interp(x) for x in v['__set__']])
        if '__dict__' in v:
            return SDict({to_interp(k): to_interp(x) for k, x in v['__dict__']})
        if '__bytes__' in v:
            return v['__bytes__'].encode('latin1')
        if '__class__' in v:
            return SObj(runtime.resolve(v['__class__']), {k: to_interp(x) for k, x in v['fields'].items()})
        if '__type__' in v:
            return runtime.resolve(v['__type__'])
    return v


def same_value(sym_json, native):
    """does the interpreter's (concretized) result agree with the native result"""
    if isinstance(sym_json, dict):
        if '__class__' in sym_json:
            cls = f"{type(native).__module__}:{type(native).__qualname__}"
            if cls != sym_json['__class__']:
                return False
            return all(same_value(x, getattr(native, k, None)) for k, x in sym_json['fields'].items())
        if '__tuple__' in sym_json:
            return isinstance(native, tuple) and len(native) == len(sym_json['__tuple__']) and \
                all(same_value(a, b) for a, b in zip(sym_json['__tuple__'], native))
        if '__dict__' in sym_json:
            return isinstance(native, dict) and len(native) == len(sym_json['__dict__']) and \
                all(same_value(a[0], b[0]) and same_value(a[1], b[1])
                    for a, b in zip(sym_json['__dict__'], native.items()))
        if '__set__' in sym_json:
            return isinstance(native, (set, frozenset)) and len(native) == len(sym_json['__set__'])
        if '__bytes__' in sym_json:
            return native == sym_json['__bytes__'].encode('latin1')
        if '__bytes_of__' in sym_json:
            return native == sym_json['__bytes_of__'].encode('utf-8')
        return True      # opaque / repr: not compared
    if isinstance(sym_json, list):
        return isinstance(native, list) and len(native) == len(sym_json) and \
            all(same_value(a, b) for a, b in zip(sym_json, native))
    return type(sym_json) == type(native) and sym_json == native


def crosscheck(world, contracts, cms, limit=None):
    """engine validation: concrete inputs run natively and through the interpreter must agree"""
    from .contract import ConstT, CustomT
    from .verify import verify_combo, make_run, concretize, target_funcref, call_with_params
    from .explore import PathState
    from .interp import Interp, Env
    from .ops import PyRaise
    from . import runtime
    import z3
    n, bad = 0, []
    for cm in cms:
        samples = getattr(cm, 'SAMPLES', {})
        recipes = getattr(cm, 'RECIPES', {})
        for c in cm.CONTRACTS:
            for s in (samples.get(c.name, []) if c.name == c.qualname else [])[:limit]:
                n += 1
                try:
                    refs = {}
                    nat_args = {k: runtime.from_json(copy.deepcopy(v), recipes, refs) for k, v in s.items()}
                    func = runtime.target(c)
                    try:
                        r = runtime.call_native(func, nat_args)
                        nat = ('return', r)
                    except Exception as e:      # noqa
                        nat = ('raise', type(e).__name__)
                    st = PathState([])
                    I = Interp(world, st, use_contracts={}, unwind={(c.qualname, k): 10 ** 6 for k in range(20)},
                               top=c.key, config={'spec_builtins': {}})
                    I.DEFAULT_UNWIND = 10 ** 6
                    args = {k: to_interp(copy.deepcopy(v)) for k, v in s.items()}
                    f = target_funcref(world, c)
                    try:
                        res = call_with_params(I, f, args)
                        m = z3.Solver()
                        m.check()
                        sym = ('return', concretize(res, m.model()))
                    except PyRaise as e:
                        sym = ('raise', e.exc_type.__name__)
                    if st.alts:
                        bad.append(f"{c.qualname}{s}: interpreter forked on concrete input")
                    elif sym[0] != nat[0]:
                        bad.append(f"{c.qualname}{s}: native {nat[0]} {nat[1]!r:.80}, interpreter {sym[0]} {sym[1]!r:.80}")
                    elif sym[0] == 'raise' and sym[1] != nat[1]:
                        bad.append(f"{c.qualname}{s}: native raises {nat[1]}, interpreter {sym[1]}")
                    elif sym[0] == 'return' and not same_value(sym[1], nat[1]):
                        bad.append(f"{c.qualname}{s}: native returns {nat[1]!r:.80}, interpreter {sym[1]!r:.80}")
                except Exception as e:      # noqa
                    if type(e).__name__ in ('Unsupported', 'CutPath'):
                        continue        # the sample leaves the modelled subset on this tree: nothing to compare
                    bad.append(f"{c.qualname}{s}: cross-check crashed: {e!r}")
    return n, bad


def run_proof_tier(prop, contract_modules, source_modules, classify=None):
    """returns dict(violations, undecided, errors, obligations, functions, ...)"""
    t0 = time.time()
    try:
        cms, contracts, uses = load_contracts(contract_modules)
        world = driver.build_world(contract_modules, source_modules)
    except Exception as e:      # noqa
        # a contract module reads names of the code under verification while it is imported (tables, patterns); on a
        # tree where such a name is gone the contracts cannot even be stated: undecided, never a crash of the check
        import traceback as _tb
        why = _tb.format_exc().strip().splitlines()[-1]
        return {'external_contracts_used': [], 'static': {}, 'violations': [], 'errors': [], 'diagnostics': [],
                'undecided': [f"{prop}: the contracts cannot be loaded on this tree ({why}); proof tier skipped"],
                'obligations': {}, 'functions': [], 'assumed': [], 'canaries': [], 'native_sampling': [],
                'crosscheck': {'samples': 0, 'disagreements': 0}, 'dropped': [], 'timing': {}, 'cms': [], 'time_s': 0.0}
    by_q = {c.name: c for c in contracts}
    cm_of = {}
    for cm in cms:
        for c in cm.CONTRACTS:
            cm_of[c.name] = cm.__name__
    external_used = sorted({f"{c.name} (from {c.external})" for c in contracts if getattr(c, 'external', None)})

    results = driver.run_contracts(world, contracts, uses, mode='modular')
    obs, funcs = driver.aggregate(contracts, results)

    # fall-back: a supporting contract that is not discharged is not used at call sites;
    # its callers are re-verified with the callee inlined from its real source
    failed_helpers = sorted({o['function'] for o in obs.values()
                             if o['level'] == 'sup' and o['status'] != 'discharged'})
    # a call site that does not establish the callee's pre-condition cannot use the contract either
    bad_sites = {}
    for o in obs.values():
        if o['kind'] == 'pre' and o['status'] != 'discharged':
            callee = o['clause'][o['clause'].index('[') + 1:o['clause'].index(']')]
            bad_sites.setdefault(o['function'], set()).add(callee)
    inlined = {}
    timing = {'modular_s': round(time.time() - t0, 2)}
    if failed_helpers or bad_sites:
        redo = [c.name for c in contracts
                if set(uses.get(c.name, [])) & set(failed_helpers) or c.name in bad_sites]
        # a function described by several contracts is inlined as a whole: applying only those of its contracts that are
        # left would be a weaker description of the callee, and a `sat` obtained under it says nothing about the code
        def _fn(x):
            return (by_q[x].module, by_q[x].qualname) if x in by_q else x
        uses2 = {}
        for k, v in uses.items():
            gone = {_fn(x) for x in v if x in failed_helpers or x in bad_sites.get(k, ())}
            uses2[k] = [x for x in v if _fn(x) not in gone]
        failed_helpers = sorted(set(failed_helpers) | {x for v in bad_sites.values() for x in v})
        if redo:
            res2 = driver.run_contracts(world, contracts, uses2, mode='modular', only=redo)
            obs2, funcs2 = driver.aggregate(contracts, res2)
            for q in redo:
                for k in [k for k, o in obs.items() if o['function'] == q]:
                    del obs[k]
                funcs[q] = funcs2[q]
                inlined[q] = [h for h in uses.get(q, []) if h not in uses2.get(q, [])]
            obs.update(obs2)
    timing['inline_fallback_s'] = round(time.time() - t0 - timing['modular_s'], 2)

    violations, undecided, errors, diagnostics = [], [], [], []
    # syntactic obligations over the real source (decided by the contract module's own AST scan)
    static_results = {}
    for cm in cms:
        for oid, (fn, lvl) in getattr(cm, 'STATIC_OBLIGATIONS', {}).items():
            t1 = time.time()
            try:
                ok, detail = fn(world)
            except Exception as e:      # noqa
                ok, detail = None, {'error': repr(e)}
            static_results[oid] = {'id': oid, 'level': lvl, 'kind': 'syntactic', 'instances': 1,
                                   'status': 'discharged' if ok else ('undecided' if ok is None else 'refuted'),
                                   'backends': {'ast-scan': 1}, 'solver_time_s': round(time.time() - t1, 4),
                                   'detail': detail, 'contract_module': cm.__name__}
            if ok is None:
                undecided.append(f"{oid}: {detail}")
    for oid, o in sorted(obs.items()):
        c = by_q[o['function']]
        if o['status'] == 'refuted':
            if o['level'] == 'sup':
                diagnostics.append(f"supporting obligation {oid} refuted (callers re-verified with the body inlined)")
                continue
            confirmed = None
            tried = []
            for w in o['witnesses']:
                if w.get('inputs') is None:
                    continue
                clause = o['clause']
                if o['kind'] in ('pre', 'unwind'):
                    clause = None
                r = native_replay(cm_of[o['function']], c, clause, w['inputs'])
                tried.append({'inputs': w['inputs'], 'native': r, 'info': w['info']})
                if r.get('timeout') or (r.get('pre') and (r.get('failed') or (clause is None and False))):
                    confirmed = tried[-1]
                    break
            key = classify(oid, confirmed or (tried[0] if tried else None)) if classify else oid
            if confirmed is not None:
                nat = confirmed['native']
                text = (f"{c.module}.{c.qualname}({_short(confirmed['inputs'])}) -> "
                        f"{nat.get('outcome')}; clause '{o['clause']}' fails on the real code")
                violations.append(Violation(prop, oid, key, text, {
                    'kind': 'proof-counterexample', 'contract_module': cm_of[o['function']],
                    'module': c.module, 'qualname': c.qualname, 'name': c.name, 'clause': o['clause'],
                    'inputs': confirmed['inputs'], 'native_result': nat,
                    'solver': {'backends': o['backends'], 'witness_info': confirmed['info']}}, True))
            else:
                o['_unconfirmed'] = tried
        elif o['status'] in ('undecided', 'vacuous') and o['level'] != 'sup':
            fr = funcs[o['function']]
            why = fr['unsupported'] or fr['errors'] or fr['budget'] or o['unknowns'] or o['status']
            undecided.append(f"{oid}: {str(why)[:300]}")

    # vacuity of whole functions
    for q, fr in funcs.items():
        if fr['paths'] == 0 and not fr['errors']:
            errors.append(f"{q}: no feasible path satisfies the pre-condition (vacuous contract)")
        for e in fr['errors']:
            errors.append(f"{q}: engine exception: {e.strip().splitlines()[-1]}")

    # baseline: obligations that were discharged on the pinned tree must still exist
    base_path = os.path.join(VERIF, 'baseline_obligations.json')
    baseline = {}
    if os.path.exists(base_path):
        with open(base_path) as f:
            baseline = json.load(f).get(prop, {})
    for oid, o in obs.items():
        if '_unconfirmed' in o:
            tried = o.pop('_unconfirmed')
            if baseline.get(oid) == 'discharged':
                c = by_q[o['function']]
                key = classify(oid, tried[0] if tried else None) if classify else oid
                violations.append(Violation(prop, oid, key,
                    f"obligation discharged on the pinned tree is now refuted by the solver; the model did not "
                    f"reproduce natively ({len(tried)} model(s) tried)",
                    {'kind': 'proof-obligation-failed', 'module': c.module, 'qualname': c.qualname,
                     'clause': o['clause'], 'solver': {'backends': o['backends'], 'witnesses': o['witnesses']},
                     'native_attempts': tried}, False))
            else:
                undecided.append(f"{oid}: refuted by the solver but the model does not reproduce natively and the "
                                 f"obligation is not in the baseline")
    if os.environ.get('VERIF_UPDATE_BASELINE'):
        allb = {}
        if os.path.exists(base_path):
            with open(base_path) as f:
                allb = json.load(f)
        allb[prop] = {oid: o['status'] for oid, o in sorted(obs.items())}
        with open(base_path, 'w') as f:
            json.dump(allb, f, indent=1, sort_keys=True)
    else:
        for oid, stt in baseline.items():
            if stt == 'discharged' and oid not in obs and not _is_call_site_ob(oid):
                undecided.append(f"{oid}: obligation of the baseline was not generated on this tree "
                                 f"(function missing, renamed or no longer reachable)")

    # canaries: deliberately broken bodies must be refuted (each in its own forked process)
    canary_log = []
    all_canaries = [cn for cm in cms for cn in getattr(cm, 'CANARIES', [])]
    _CG.update(world=world, contracts=contracts, uses=uses, canaries=all_canaries)
    if all_canaries:
        import multiprocessing as mp
        with mp.get_context('fork').Pool(min(16, len(all_canaries))) as pool:
            outs = pool.map(_canary_task, range(len(all_canaries)), chunksize=1)
        for cn, st in zip(all_canaries, outs):
            if st == 'n/a':
                canary_log.append({'canary': cn['name'], 'result': 'not applicable (text not found)'})
                continue
            canary_log.append({'canary': cn['name'], 'expect_refuted': cn['expect'], 'result': st})
            if st != 'refuted':
                # a canary guards against a VACUOUS success: it says something only where the contract it mutates
                # is itself discharged on this tree (on a changed tree the function may have left the modelled subset)
                target = cn.get('verify', cn['function'])
                own = [o for oid, o in obs.items() if o['function'] == target]
                if own and all(o['status'] == 'discharged' for o in own):
                    errors.append(f"canary {cn['name']}: mutated body not refuted ({cn['expect']} is {st})")
                else:
                    canary_log[-1]['result'] = f"{st} (not applicable: the contract is not discharged on this tree)"

    timing['canaries_s'] = round(time.time() - t0 - sum(timing.values()), 2)
    n_cc, bad_cc = crosscheck(world, contracts, cms)
    timing['crosscheck_s'] = round(time.time() - t0 - sum(timing.values()), 2)
    for b in bad_cc:
        errors.append("engine/CPython disagreement: " + b)

    # native sampling of the contracts themselves: the real function is called on random concrete inputs and every
    # clause is evaluated natively.  A failing clause of a DISCHARGED obligation is a disagreement between the
    # verifier and CPython (checker error); a failing clause of an obligation that is not discharged is a failing
    # input for it (a confirmed violation with a replayable input).
    sampling_log = []
    for cm in cms:
        cfg = getattr(cm, 'NATIVE_SAMPLING', None)
        if not cfg:
            continue
        sel = cfg['select'] if isinstance(cfg['select'], (tuple, list)) else (cfg['select'],)
        names = [c.name for c in cm.CONTRACTS if any(x in c.name for x in sel) and not getattr(c, 'external', None)]
        res = native_sampling(cm.__name__, names, cfg.get('n', 150), 1)
        if 'error' in res:
            errors.append(f"native sampling of {cm.__name__} failed: {str(res['error'])[-300:]}")
            continue
        for cname, r in sorted(res.items()):
            sampling_log.append({'contract': cname, 'tried': r['tried'], 'pre_ok': r['pre_ok'], 'failing_inputs': len(r['failed']),
                                 'skipped': r['skipped'], 'evaluation_errors': r['errors']})
            c = by_q[cname]
            for f in r['failed']:
                for clause in f['clauses']:
                    oid = f"{prop}.{cname}.{clause}"
                    o = obs.get(oid)
                    if o is not None and o['status'] == 'discharged':
                        errors.append(f"engine/CPython disagreement: {oid} is discharged but fails natively on {_short(f['inputs'])}")
                    elif not any(v.obligation == oid and v.confirmed for v in violations):
                        violations[:] = [v for v in violations if v.obligation != oid]      # the unconfirmed report is superseded
                        key = classify(oid, {'inputs': f['inputs']}) if classify else oid
                        violations.append(Violation(prop, oid, key,
                            f"{c.module}.{c.qualname}({_short(f['inputs'])}) -> {f['outcome']}; clause '{clause}' fails on the "
                            f"real code (input found by native sampling of the contract)",
                            {'kind': 'proof-counterexample', 'contract_module': cm.__name__, 'module': c.module,
                             'qualname': c.qualname, 'name': c.name, 'clause': clause, 'inputs': f['inputs'],
                             'found_by': 'native sampling'}, True))
    timing['native_sampling_s'] = round(time.time() - t0 - sum(timing.values()), 2)

    functions = []
    for c in contracts:
        if getattr(c, 'external', None):
            continue
        d = world.sources[c.module].describe(c.qualname)
        fr = funcs.get(c.name, {})
        d['contract'] = c.name
        d.update({'kind': c.kind, 'level': c.level, 'paths': fr.get('paths'), 'kind_combinations': fr.get('combos'),
                  'returns': fr.get('returns'), 'raises': fr.get('raises'),
                  'loops': {f"loop{k}": f"unwinding {n} with unwinding assertion" for k, n in c.unwind.items()},
                  'callees_by_contract': [x for x in uses.get(c.name, []) if x not in inlined.get(c.name, [])],
                  'callees_inlined_after_contract_failure': inlined.get(c.name, []),
                  'paths_cut_outside_model': fr.get('cut'), 'note': c.note})
        functions.append(d)
    assumed = []
    for fr in funcs.values():
        for a in fr['assumed']:
            if a not in assumed:
                assumed.append(a)
    for cm in cms:
        for a in getattr(cm, 'ASSUMED_LIBRARY', []):
            assumed.append("library contract (assumed): " + a)
    return {'external_contracts_used': external_used, 'static': static_results, 'violations': violations, 'undecided': undecided, 'errors': errors, 'diagnostics': diagnostics,
            'obligations': obs, 'functions': functions, 'assumed': assumed, 'canaries': canary_log,
            'native_sampling': sampling_log,
            'crosscheck': {'samples': n_cc, 'disagreements': len(bad_cc)}, 'dropped': list(world.dropped),
            'time_s': round(time.time() - t0, 2), 'timing': timing, 'world': world, 'contracts': contracts, 'cms': cms}


_CG = {}


def _canary_task(i):
    world, contracts, uses, cn = _CG['world'], _CG['contracts'], _CG['uses'], _CG['canaries'][i]
    undo = patch_world_function(world, cn['module'], cn['function'], cn['old'], cn['new'])
    if undo is None:
        return 'n/a'
    os.environ['PYVC_SERIAL'] = '1'
    os.environ['PYVC_CANARY'] = '1'
    if cn.get('unproved_is_enough'):
        os.environ['PYVC_CANARY_FIRST'] = '1'      # stop at the first obligation that is not proved
    else:
        os.environ.pop('PYVC_CANARY_FIRST', None)
    try:
        uses_c = {k: [x for x in v if x not in cn.get('inline', [])] for k, v in uses.items()}
        r = driver.run_contracts(world, contracts, uses_c, only=[cn.get('verify', cn['function'])],
                                 combo_filter=cn.get('combos'))
        r_all = r
        o2, _ = driver.aggregate(contracts, r)
        st = o2.get(cn['expect'], {}).get('status')
        if st != 'refuted' and cn.get('unproved_is_enough'):
            # obligations over quantified / string-heavy facts: a counter-model may be out of the solvers' reach;
            # the mutated body is rejected as soon as a generated obligation is no longer proved
            for oid, o in sorted(o2.items()):
                if o.get('sat', 0) + o.get('unknown', 0) > 0:
                    return 'refuted'
            # ... or the mutated body leaves the subset the proof rules cover (e.g. iterates a list it mutates)
            if any(r.get('unsupported') for r in r_all):
                return 'refuted'
        if st != 'refuted':
            # the mutated body must be rejected; the obligation that rejects it may be another one of the same
            # contract (e.g. an assertion of the code itself now fails first)
            for oid, o in sorted(o2.items()):
                if o.get('status') == 'refuted':
                    return 'refuted'
        return st
    except Exception as e:      # noqa
        return f"error: {e!r}"


def _is_call_site_ob(oid):
    return '.pre[' in oid


def _short(inputs):
    s = json.dumps(inputs, ensure_ascii=True, default=repr)
    return s if len(s) < 300 else s[:300] + '...'


def obligations_table(obs):
    out = []
    for oid, o in sorted(obs.items()):
        out.append({'id': oid, 'level': o['level'], 'kind': o['kind'], 'status': o['status'],
                    'instances': o['instances'], 'backends': o['backends'], 'solver_time_s': o['time_s']})
    return out
