"""Discharging verification conditions: z3 (python API) first, /usr/bin/cvc5 on the SMT-LIB
dump for everything z3 leaves unknown."""
import os
import subprocess
import tempfile
import time

import z3

CVC5 = '/usr/bin/cvc5'
QUICK_Z3_MS = 3000


SHORT = [False]      # set by verify_combo once a kind combination has used up its budget on undecided obligations


def timeouts():
    if SHORT[0]:
        return (1500, 0)        # budget of this kind combination used up: one short z3 attempt per remaining obligation
    if os.environ.get('PYVC_CANARY'):
        return (6000, 6)        # a deliberately broken body only has to be NOT proved: short budgets
    tier = os.environ.get('VERIF_TIER', 'quick')
    return (60000, 120) if tier == 'thorough' else (20000, 30)


def discharge(pc, goal, want_model=True):
    """returns dict(result='unsat'|'sat'|'unknown', backend, time_s, model)"""
    t0 = time.time()
    if isinstance(goal, bool):
        if goal:
            return {'result': 'unsat', 'backend': 'structural', 'time_s': 0.0, 'model': None}
        s = z3.Solver()
        s.set('timeout', timeouts()[0])
        s.add(*pc)
        r = s.check()
        if r == z3.sat:
            return {'result': 'sat', 'backend': 'z3', 'time_s': time.time() - t0, 'model': s.model()}
        if r == z3.unsat:
            return {'result': 'unsat', 'backend': 'z3(path infeasible)', 'time_s': time.time() - t0, 'model': None}
        return {'result': 'unknown', 'backend': 'z3', 'time_s': time.time() - t0, 'model': None}
    # stage 1: z3 with a short budget (decides almost everything in milliseconds);
    # stage 2: cvc5 on the SMT-LIB dump (much better on substr/concat string VCs);
    # stage 3: z3 again with the full budget
    def z3_try(ms):
        s = z3.Solver()
        s.set('timeout', ms)
        s.set('random_seed', 0)
        s.add(*pc)
        s.add(z3.Not(goal))
        return s, s.check()
    # substring / prefix reasoning over uninterpreted string functions: cvc5 decides these in a fraction of a second
    # where z3 regularly spends its whole first budget, so it goes first there
    if timeouts()[1] > 0 and cvc5_first(pc, goal):
        s0 = z3.Solver()
        s0.add(*pc)
        s0.add(z3.Not(goal))
        r0 = run_cvc5(s0.to_smt2(), min(10, timeouts()[1]))
        if r0 == 'unsat':
            return {'result': 'unsat', 'backend': 'cvc5', 'time_s': time.time() - t0, 'model': None}
    s, r = z3_try(min(QUICK_Z3_MS, timeouts()[0]))
    if r == z3.unknown and timeouts()[1] == 0:
        return {'result': 'unknown', 'backend': 'z3 (budget of the kind combination used up)', 'time_s': time.time() - t0,
                'model': None, 'reason': 'budget'}
    if r == z3.unknown:
        r2 = run_cvc5(s.to_smt2(), timeouts()[1])
        dt = time.time() - t0
        if r2 == 'unsat':
            return {'result': 'unsat', 'backend': 'cvc5', 'time_s': dt, 'model': None}
        if r2 == 'sat':
            # a model is wanted for the replay: ask z3 once more with the full budget
            s, r = z3_try(timeouts()[0])
            if r == z3.sat:
                return {'result': 'sat', 'backend': 'cvc5+z3', 'time_s': time.time() - t0, 'model': s.model()}
            return {'result': 'sat', 'backend': 'cvc5', 'time_s': time.time() - t0, 'model': None}
        s, r = z3_try(timeouts()[0])
    dt = time.time() - t0
    if r == z3.unsat:
        return {'result': 'unsat', 'backend': 'z3', 'time_s': dt, 'model': None}
    if r == z3.sat:
        return {'result': 'sat', 'backend': 'z3', 'time_s': dt, 'model': s.model()}
    return {'result': 'unknown', 'backend': 'z3+cvc5', 'time_s': dt, 'model': None,
            'reason': s.reason_unknown()}


def cvc5_first(pc, goal):
    if not os.path.exists(CVC5):
        return False
    seen = set()
    todo = [goal] + list(pc)
    fold_apps = False
    substr = False
    n = 0
    while todo and n < 20000:
        x = todo.pop()
        k = x.get_id()
        if k in seen:
            continue
        seen.add(k)
        n += 1
        if z3.is_app(x):
            kind = x.decl().kind()
            if kind in (z3.Z3_OP_SEQ_PREFIX, z3.Z3_OP_SEQ_EXTRACT):
                substr = True
            elif kind == z3.Z3_OP_UNINTERPRETED and x.num_args() == 1 and z3.is_string(x):
                fold_apps = True
            if substr and fold_apps:
                return True
            todo.extend(x.children())
        elif z3.is_quantifier(x):
            todo.append(x.body())
    return False


def run_cvc5(smt2, tlimit_s):
    if not os.path.exists(CVC5):
        return 'unknown'
    text = "(set-logic ALL)\n" + smt2
    with tempfile.NamedTemporaryFile('w', suffix='.smt2', delete=False) as f:
        f.write(text)
        path = f.name
    try:
        p = subprocess.run([CVC5, '--strings-exp', f'--tlimit={tlimit_s * 1000}', path],
                           capture_output=True, text=True, timeout=tlimit_s + 10)
        out = p.stdout.strip().splitlines()
        if out and out[0] in ('sat', 'unsat'):
            return out[0]
        return 'unknown'
    except Exception:
        return 'unknown'
    finally:
        os.unlink(path)
