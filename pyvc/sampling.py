"""Native cross-check of discharged contracts on random concrete inputs (no solver import: runs under the repository's
own interpreter).  For every selected contract N argument tuples are generated from the parameter kinds, the REAL
function is called and every clause of the contract is evaluated natively (pyvc.runtime.check_call).  A clause that
fails on an input satisfying the pre-condition contradicts a discharged obligation: either the verifier is unsound
there or the clause means something else natively than symbolically - both are checker errors, reported as such.

Run as:  /venv/bin/python -m pyvc.sampling <json: {contract_module, names, n, seed}>   -> one JSON line"""
import importlib
import json
import random
import sys

ALPHA = ['', 'a', 'b', 'ab', ' ', 'x y', 'é', 'abc', '\x1b[31m', '0']
COLOURS = ['', '\x1b[31m', '\x1b[1;32m', '\x1b[38;5;12m']


class NoSample(Exception):
    pass


def sample(spec, rng, name, ctx):
    """JSON-able value (pyvc.runtime.from_json format) of a parameter kind"""
    k = type(spec).__name__
    if hasattr(spec, 'sampler'):
        return spec.sampler(rng, ctx)
    if k == 'IntT':
        lo = -6 if spec.lo is None else spec.lo
        hi = (lo + 14) if spec.hi is None else spec.hi
        return rng.randint(lo, min(hi, lo + 14))
    if k == 'BoolT':
        return rng.random() < 0.5
    if k == 'StrT':
        if spec.length is not None:
            return ''.join(rng.choice('ab_. *é') for _ in range(spec.length))
        if name.endswith('c_prefix'):
            return rng.choice(COLOURS)
        if name.endswith('c_suffix'):
            return ctx.get('suffix_for', '')
        return rng.choice(ALPHA)
    if k == 'NoneT':
        return None
    if k == 'ConstT':
        v = spec.value
        if isinstance(v, (list, tuple, dict, set, bytes)):
            raise NoSample(f"constant of type {type(v).__name__}")
        return v
    if k == 'OneOf':
        return sample(rng.choice(spec.alts), rng, name, ctx)
    if k == 'TupleT':
        return {'__tuple__': [sample(s, rng, f"{name}.{i}", ctx) for i, s in enumerate(spec.items)]}
    if k == 'ListT':
        return [sample(s, rng, f"{name}.{i}", ctx) for i, s in enumerate(spec.items)]
    if k == 'ClassT':
        return {'__type__': spec.cls_path}
    if k == 'ObjT':
        ctx['ids'] = ctx.get('ids', 0) + 1
        oid = ctx['ids']
        fields = {}
        c2 = dict(ctx)
        for f, s in spec.fields.items():
            if f == 'c_suffix':
                continue
            fields[f] = sample(s, rng, f"{name}.{f}", c2)
        if 'c_suffix' in spec.fields:       # chunks as ColorFmt makes them (most of the time)
            pre = fields.get('c_prefix', '')
            c2['suffix_for'] = ('' if pre == '' else '\x1b[0m') if rng.random() < 0.9 else rng.choice(['', '\x1b[0m'])
            fields['c_suffix'] = sample(spec.fields['c_suffix'], rng, f"{name}.c_suffix", c2)
        if 'scrlen' in fields and isinstance(fields.get('chunks'), list) and rng.random() < 0.9:
            fields['scrlen'] = sum(len(c['fields']['text']) for c in fields['chunks'])
        ctx['ids'] = c2.get('ids', ctx['ids'])
        return {'__class__': spec.cls_path, '__id__': oid, 'fields': fields}
    if k == 'SymObjListT':
        n = rng.choice([0, 1, 1, 2, 2, 3, 4, 6])
        item = __import__('pyvc.contract', fromlist=['ObjT']).ObjT(spec.cls_path, **spec.fields)
        items = [sample(item, rng, f"{name}[{i}]", ctx) for i in range(n)]
        if items and 'c_prefix' in spec.fields and rng.random() < 0.85:
            # mostly well-formed chunk lists: no empty chunk, neighbours differ in colour
            out = []
            for it in items:
                if it['fields']['text'] == '':
                    it['fields']['text'] = rng.choice(['a', 'bc', ' '])
                if out and out[-1]['fields']['c_prefix'] == it['fields']['c_prefix']:
                    continue
                out.append(it)
            items = out
        return items
    if k == 'SymStrListT':
        return [rng.choice(ALPHA) for _ in range(rng.choice([0, 1, 2, 3, 5]))]
    if k in ('SameAsT', 'DerivedT'):
        return None        # filled in afterwards
    raise NoSample(f"no sampler for parameter kind {k} ({spec.label})")


def sample_args(contract, rng):
    ctx = {}
    combo = rng.choice(list(contract.kind_combinations()))
    if getattr(contract, 'sampler', None) is not None:       # inputs that have to satisfy an involved pre-condition
        return combo, contract.sampler(rng)
    args = {n: sample(s, rng, n, ctx) for n, s in combo.items()}
    return combo, args


def run(req):
    from pyvc import runtime
    cm = importlib.import_module(req['contract_module'])
    recipes = getattr(cm, 'RECIPES', {})
    rng = random.Random(req.get('seed', 1))
    out = {}
    for c in cm.CONTRACTS:
        if c.name not in req['names']:
            continue
        rec = out[c.name] = {'tried': 0, 'pre_ok': 0, 'failed': [], 'skipped': None, 'errors': 0}
        only = [cl.name for cl in c.ensures] + [cl.name for cl in c.raises]
        for _ in range(req.get('n', 100)):
            try:
                combo, jargs = sample_args(c, rng)
            except NoSample as e:
                rec['skipped'] = str(e)
                break
            refs = {}
            try:
                args = {k: runtime.from_json(v, recipes, refs) for k, v in jargs.items()}
                for k, s in combo.items():
                    if type(s).__name__ == 'SameAsT':
                        args[k] = args[s.ref]
                for k, s in combo.items():
                    if type(s).__name__ == 'DerivedT':
                        if getattr(s, 'native', None) is None:
                            raise NoSample("derived parameter without a native definition")
                        args[k] = s.native(args)
            except NoSample as e:
                rec['skipped'] = str(e)
                break
            rec['tried'] += 1
            try:
                r = runtime.check_call(c, args, only=only)
            except Exception as e:       # noqa - a clause / spec function that cannot be evaluated natively
                rec['errors'] += 1
                if rec['errors'] <= 2:
                    rec.setdefault('error_samples', []).append(f"{type(e).__name__}: {e}"[:300])
                continue
            if not r['pre']:
                continue
            rec['pre_ok'] += 1
            if r['failed'] and len(rec['failed']) < 3:
                rec['failed'].append({'clauses': r['failed'], 'inputs': jargs, 'outcome': repr(r['outcome'])[:200]})
    return out


if __name__ == '__main__':
    with open(sys.argv[1]) as f:
        req = json.load(f)
    try:
        print(json.dumps(run(req), default=repr))
    except Exception:      # noqa
        import traceback
        print(json.dumps({'error': traceback.format_exc()}))
