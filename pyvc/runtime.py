"""Native (run-time) evaluation of the same contracts on the real functions.
Used by the replay harness, by the bounded tier and by the CPython cross-check.
No solver import here: this module also runs under /venv/bin/python."""
import ast
import copy
import importlib
import inspect


class Opaque:
    """native stand-in for an opaque symbolic value"""

    def __init__(self, name, truth=True):
        self.name = name
        self.truth = bool(truth)

    def __bool__(self):
        return self.truth

    def __repr__(self):
        return f"<opaque {self.name}>"


def resolve(path):
    mod, qn = path.split(':')
    obj = importlib.import_module(mod)
    for part in qn.split('.'):
        obj = getattr(obj, part)
    return obj


def from_json(v, recipes=None, refs=None):
    """inverse of verify.concretize (objects occurring several times are rebuilt once: __id__/__ref__)"""
    recipes = recipes or {}
    if refs is None:
        refs = {}
    return _from_json(v, recipes, refs)


def _from_json(v, recipes, refs):
    def from_json(x, r=None):
        return _from_json(x, recipes, refs)
    if isinstance(v, list):
        out = []
        for x in v:
            if isinstance(x, dict) and '__segment__' in x:
                out.extend(Opaque(f"{x['__segment__']}[{i}]") for i in range(x['n']))
            else:
                out.append(from_json(x, recipes))
        return out
    if isinstance(v, dict):
        if '__ref__' in v:
            return refs[v['__ref__']]
        if '__coll__' in v:
            items = [Opaque(f"{v['name']}[{i}]") for i in range(v['n'])]
            return {'list': list, 'tuple': tuple, 'set': set}[v['__coll__']](items)
        if '__tuple__' in v:
            return tuple(from_json(x, recipes) for x in v['__tuple__'])
        if '__set__' in v:
            return set(from_json(x, recipes) for x in v['__set__'])
        if '__dict__' in v:
            return {from_json(k, recipes): from_json(x, recipes) for k, x in v['__dict__']}
        if '__bytes__' in v:
            return v['__bytes__'].encode('latin1')
        if '__bytes_of__' in v:
            return from_json(v['__bytes_of__'], recipes).encode('utf-8')
        if '__type__' in v:
            return resolve(v['__type__'])
        if '__opaque__' in v:
            r = recipes.get('__opaque__')
            if r is not None:
                return r(v['__opaque__'], v.get('truth'))
            return Opaque(v['__opaque__'], v.get('truth', True))
        if '__class__' in v:
            r = recipes.get(v['__class__'])
            if r is not None:
                fields = {k: from_json(x, recipes) for k, x in v['fields'].items()}
                obj = r(fields)
                if '__id__' in v:
                    refs[v['__id__']] = obj
                return obj
            cls = resolve(v['__class__'])
            obj = object.__new__(cls)
            if '__id__' in v:
                refs[v['__id__']] = obj         # registered before the fields: cyclic references resolve
            for k, x in v['fields'].items():
                object.__setattr__(obj, k, from_json(x, recipes))
            return obj
        if '__repr__' in v:
            raise ValueError(f"value without a native form: {v['__repr__']}")
    return v


def to_jsonable(v, depth=0):
    """best-effort JSON form of a native value, for reports"""
    if v is None or isinstance(v, (bool, int, float, str)):
        return v
    if depth > 6:
        return repr(v)
    if isinstance(v, bytes):
        return {'__bytes__': v.decode('latin1')}
    if isinstance(v, tuple):
        return {'__tuple__': [to_jsonable(x, depth + 1) for x in v]}
    if isinstance(v, list):
        return [to_jsonable(x, depth + 1) for x in v]
    if isinstance(v, (set, frozenset)):
        return {'__set__': sorted((to_jsonable(x, depth + 1) for x in v), key=repr)}
    if isinstance(v, dict):
        return {'__dict__': [[to_jsonable(k, depth + 1), to_jsonable(x, depth + 1)] for k, x in v.items()]}
    return {'__repr__': repr(v)}


def target(contract):
    """(callable taking the bound parameter dict) for the real function of a contract"""
    mod = importlib.import_module(contract.module)
    parts = contract.qualname.split('.')
    owner = mod
    for p in parts[:-1]:
        owner = getattr(owner, p)
    raw = inspect.getattr_static(owner, parts[-1]) if len(parts) > 1 else getattr(owner, parts[-1])
    if isinstance(raw, (classmethod, staticmethod)):
        func = raw.__func__
    else:
        func = raw
    if getattr(contract, 'body_slice', None):
        return sliced_function(func, contract.body_slice)
    return func


def slice_result_expr(body_slice, stop_stmt, func_node=None):
    """the expression a prefix slice returns.  Either the literal `result` expression, or - independent of how the
    function names its locals - the arguments of the call the slice stops at:
    result_call = {'func': dotted name, 'signature': [parameter names in order], 'pick': [names]}  gives the tuple of
    the picked arguments of the first call to `func` inside the stop statement (a missing argument is None)"""
    rc = body_slice.get('result_call')

    def local_expr(src):
        e = ast.parse(src, mode='eval').body
        if func_node is not None:
            known = {a.arg for a in ast.walk(func_node.args) if isinstance(a, ast.arg)}
            known |= {n.id for n in ast.walk(func_node) if isinstance(n, ast.Name) and isinstance(n.ctx, ast.Store)}
            for n in ast.walk(e):
                if isinstance(n, ast.Name) and n.id not in known:
                    raise ValueError(f"slice result refers to '{n.id}', which is not a local of the function "
                                     f"(renamed?): the contract's result expression needs updating")
        return e
    if rc is None:
        return local_expr(body_slice['result'])

    def is_target(f):
        name = ast.unparse(f)
        return name.endswith(rc['func'][1:]) if rc['func'].startswith('*.') else name == rc['func']
    for n in ast.walk(stop_stmt):
        if isinstance(n, ast.Call) and is_target(n.func):
            given = {}
            for name, a in zip(rc['signature'], n.args):
                if isinstance(a, ast.Starred):
                    raise ValueError("starred argument in the call the slice stops at")
                given[name] = a
            for kw in n.keywords:
                if kw.arg is None:
                    raise ValueError("** argument in the call the slice stops at")
                given[kw.arg] = kw.value
            return ast.Tuple(elts=[given.get(k, ast.Constant(value=None)) for k in rc['pick']] +
                             [local_expr(x) for x in rc.get('then', [])], ctx=ast.Load())
    raise ValueError(f"no call of {rc['func']} in the statement the slice stops at")


def sliced_function(func, body_slice):
    """native twin of verify.sliced_node: the same mechanical prefix / suffix of the real function's body,
    compiled in the function's own globals (so that a replay runs exactly the analysed statements)"""
    import textwrap
    src = textwrap.dedent(inspect.getsource(func))
    tree = ast.parse(src)
    node = tree.body[0]
    lines = src.splitlines()

    def seg(st):
        return '\n'.join(lines[st.lineno - 1:st.end_lineno])
    if 'start_at' in body_slice or 'start_after' in body_slice:
        marker = body_slice.get('start_at') or body_slice['start_after']
        idx = None
        for i, st in enumerate(node.body):
            if marker in seg(st):
                idx = i
                if 'start_at' in body_slice:
                    break
        if idx is None:
            raise ValueError(f"slice marker {marker!r} not found")
        if 'start_after' in body_slice:
            idx += 1
        node.body = node.body[idx:]
        node.args = ast.arguments(posonlyargs=[], args=[ast.arg(arg=a) for a in body_slice['args']], vararg=None,
                                  kwonlyargs=[], kw_defaults=[], kwarg=None, defaults=[])
    else:
        body = []
        found = None
        for st in node.body:
            if body_slice['stop_before'] in seg(st):
                found = st
                break
            body.append(st)
        if found is None:
            raise ValueError(f"slice marker {body_slice['stop_before']!r} not found")
        ret = ast.Return(value=slice_result_expr(body_slice, found, node))
        node.body = body + [ret]
    node.decorator_list = []
    ast.fix_missing_locations(tree)
    ns = {}
    exec(compile(tree, f"<slice of {func.__qualname__}>", 'exec'), func.__globals__, ns)
    return ns[node.name]


def call_native(func, args):
    sig = inspect.signature(func)
    pos, kw = [], {}
    for name, p in sig.parameters.items():
        if p.kind in (p.POSITIONAL_ONLY, p.POSITIONAL_OR_KEYWORD):
            if name in args:
                if not kw:
                    pos.append(args[name])
                else:
                    kw[name] = args[name]
            else:
                # later parameters must go by keyword
                kw = kw or {}
                kw['__gap__'] = True
        elif p.kind == p.VAR_POSITIONAL:
            if name in args:
                pos.extend(args[name])
        elif p.kind == p.KEYWORD_ONLY:
            if name in args:
                kw[name] = args[name]
        elif p.kind == p.VAR_KEYWORD:
            if name in args:
                kw.update(args[name])
    kw.pop('__gap__', None)
    return func(*pos, **kw)


class _OldRewriter(ast.NodeTransformer):
    def __init__(self):
        self.olds = []

    def visit_Call(self, node):
        if isinstance(node.func, ast.Name) and node.func.id == 'old' and len(node.args) == 1:
            self.olds.append(node.args[0])
            return ast.copy_location(ast.Name(id=f"__old_{len(self.olds) - 1}", ctx=ast.Load()), node)
        return self.generic_visit(node)


_compiled = {}


def _prepare(src):
    if src not in _compiled:
        tree = ast.parse(src.strip(), mode='eval')
        rw = _OldRewriter()
        tree = rw.visit(tree)
        ast.fix_missing_locations(tree)
        olds = [compile(ast.fix_missing_locations(ast.Expression(o)), '<old>', 'eval') for o in rw.olds]
        _compiled[src] = (compile(tree, '<clause>', 'eval'), olds)
    return _compiled[src]


def eval_clause(src, spec_globals, env, old_env):
    """native truth of a clause; an exception inside the clause makes it False"""
    code, olds = _prepare(src)
    try:
        # arguments are merged into the globals of the evaluation: the body of a generator expression / lambda inside
        # a clause is a nested scope and would not see names passed as eval() locals
        for i, o in enumerate(olds):
            g_old = dict(spec_globals)
            g_old.update(old_env)
            env = dict(env, **{f"__old_{i}": eval(o, g_old)})
        g = dict(spec_globals)
        g.update(env)
        return bool(eval(code, g))
    except Exception as e:       # noqa
        return False


def snapshot(args):
    try:
        return copy.deepcopy(args)
    except Exception:
        return dict(args)


def check_call(contract, args, only=None):
    """run the real function natively on `args` and evaluate the contract.
    returns dict(pre=bool, outcome=..., failed=[clause names], checked=[...])"""
    g = contract.spec_globals
    old = snapshot(args)
    for r in contract.requires:
        if not eval_clause(r, g, args, old):
            return {'pre': False, 'outcome': None, 'failed': [], 'checked': []}
    func = target(contract)
    try:
        result = call_native(func, args)
        if inspect.isgenerator(result):
            result = list(result)
        outcome = ('return', result)
    except BaseException as e:      # noqa
        if isinstance(e, (KeyboardInterrupt, SystemExit, MemoryError)) and not any(
                issubclass(type(e), k) for cl in contract.raises for k in cl.exc):
            raise
        outcome = ('raise', type(e), e)
    failed, checked = [], []
    if outcome[0] == 'return':
        env = dict(args)
        env['result'] = outcome[1]
        for cl in contract.ensures:
            if only and cl.name not in only:
                continue
            checked.append(cl.name)
            if not eval_clause(cl.expr, g, env, old):
                failed.append(cl.name)
        if contract.modifies is not None:
            for name in args:
                if name not in contract.modifies:
                    nm = f"frame.{name}"
                    if only and nm not in only:
                        continue
                    checked.append(nm)
                    try:
                        same = _frame_same(old[name], args[name])
                    except Exception:
                        same = True
                    if not same:
                        failed.append(nm)
    else:
        exc = outcome[1]
        matched = False
        for cl in contract.raises:
            if any(issubclass(exc, k) for k in cl.exc):
                matched = True
                if only and cl.name not in only:
                    continue
                checked.append(cl.name)
                if cl.when is not None and not eval_clause(cl.when, g, old, old):
                    failed.append(cl.name)
        if not matched:
            nm = contract.raises[0].name if contract.raises else 'no_exception'
            if not only or nm in only:
                checked.append(nm)
                failed.append(nm)
    return {'pre': True, 'outcome': (outcome[0], outcome[1] if outcome[0] == 'return' else outcome[1].__name__),
            'failed': failed, 'checked': checked}


def _frame_same(a, b):
    if type(a) is not type(b):
        return False
    if isinstance(a, (list, tuple)):
        return len(a) == len(b) and all(_frame_same(x, y) for x, y in zip(a, b))
    if isinstance(a, dict):
        return list(a.keys()) == list(b.keys()) and all(_frame_same(a[k], b[k]) for k in a)
    if hasattr(a, '__dict__') and not isinstance(a, type):
        return _frame_same(vars(a), vars(b))
    if hasattr(type(a), '__slots__') and not isinstance(a, (int, str, float, bytes)):
        names = [n for k in type(a).__mro__ for n in getattr(k, '__slots__', ())]
        return all(_frame_same(getattr(a, n, None), getattr(b, n, None)) for n in names)
    try:
        return a == b
    except Exception:
        return a is b
