"""Spec-level folds over lists of symbolic length (SymList).

A prefix sum  F(i) = sum_{k < i} term(k)  over one version of a list is an uninterpreted function F : Int -> Int with
  * F(0) = 0,
  * the unfolding  F(i+1) = F(i) + term(i)  instantiated for every element index the execution touches,
  * instances of the monotonicity lemma  i <= j  ->  F(i) <= F(j)  for every pair of touched indices,
  * for a list that was modified at index p (append: p = old length; store: p = the index): instances of the
    prefix-agreement lemma  i <= p  ->  F_new(i) = F_old(i).
PrefixConcat is the same for string concatenation (monotonicity = "is a prefix of", length tied to a PrefixSum).
The lemmas are proved by induction: base and step are emitted as verification conditions (`lemma.<fold>.*`,
discharged by the solver like every other obligation); the induction schema over the naturals is applied outside
the solver and is listed as the one meta-level assumption of this module."""
import hashlib

import z3

from .explore import VC, Unsupported
from .values import SInt, SStr, Sq, SBool, SymList, ListView, MapSym, to_zint, is_intlike

INDUCTION_NOTE = ("induction schema over the naturals, applied outside the solver to the lemmas lemma.* "
                  "(base and step of each are discharged obligations)")


def _remove(lst, z):
    for k, x in enumerate(lst):
        if x.eq(z):
            del lst[k]
            return


class _Fold:
    """shared machinery: per-path state per (fold, list, version); touched indices; version links"""
    sort = None
    linkable = True
    lazy = False        # string folds: their facts stay out of the feasibility solver (every VC still carries them)

    def fname(self, view):
        return f"{self.name}[{view.name}]"

    def state(self, I, view):
        folds = I.st.notes.setdefault('folds', {})
        key = (self.name, view.lst.name, view.v)
        s = folds.get(key)
        if s is None:
            F = z3.Function(self.fname(view), z3.IntSort(), self.sort())
            s = folds[key] = {'F': F, 'touched': [], 'view': view}
            I.st.undo_log.append(lambda: folds.pop(key, None))
            I.st.assume(F(z3.IntVal(0)) == self.zero(), lazy=self.lazy)
            if INDUCTION_NOTE not in I.st.assumed:
                I.st.assumed.append(INDUCTION_NOTE)
            self.emit_lemmas(I, view)
            if view.v > 0 and self.linkable:
                self.emit_link_lemma(I, view)
            self.touch(I, view, z3.IntVal(0))
            self.touch(I, view, view.n)
            if view.v > 0:
                # the element written by the mutation that created this version
                idx, _obj = view.lst.over[view.v - 1]
                self.unfold(I, view, idx)
        return s

    def touch(self, I, view, zi):
        s = self.state(I, view)
        F = s['F']
        zi = z3.simplify(zi)
        for zj in s['touched']:
            if zj.eq(zi):
                return
        s['touched'].append(zi)
        I.st.undo_log.append(lambda: _remove(s['touched'], zi))
        self.on_touch(I, view, s, zi)
        for zj in s['touched'][:-1]:
            I.st.assume(z3.Implies(zj <= zi, self.leq(F(zj), F(zi))), lazy=self.lazy)
            I.st.assume(z3.Implies(zi <= zj, self.leq(F(zi), F(zj))), lazy=self.lazy)
        if view.v > 0 and self.linkable:
            prev = ListView(view.lst, view.v - 1)
            idx, _obj = view.lst.over[view.v - 1]
            ps = self.state(I, prev)
            self.touch(I, prev, zi)
            I.st.assume(z3.Implies(z3.And(0 <= zi, zi <= idx), F(zi) == ps['F'](zi)), lazy=self.lazy)
        if view.v < view.lst.version and self.linkable:
            self.touch(I, ListView(view.lst, view.v + 1), zi)       # later versions learn about the index too

    def on_touch(self, I, view, s, zi):
        pass

    def unfold(self, I, view, zi):
        """F(zi+1) = F(zi) + term(zi), valid for 0 <= zi < n of this version"""
        s = self.state(I, view)
        F = s['F']
        zi = z3.simplify(zi)
        key = ('unfolded', zi.get_id())
        if key in s:
            return
        s[key] = zi
        I.st.undo_log.append(lambda: s.pop(key, None))
        self.touch(I, view, zi)
        self.touch(I, view, zi + 1)
        I.st.assume(z3.Implies(z3.And(0 <= zi, zi < view.n), F(zi + 1) == self.plus(F(zi), self.term(view, zi))),
                    lazy=self.lazy)

    def on_elem(self, I, L, zi):
        """element zi of the list was read: instantiate the unfolding there, in every version"""
        for v in range(L.version + 1):
            self.unfold(I, ListView(L, v), zi)

    def emit_link_lemma(self, I, view):
        prev = ListView(view.lst, view.v - 1)
        idx, _obj = view.lst.over[view.v - 1]
        G1 = z3.Function(f"{self.name}.link.new", z3.IntSort(), self.sort())
        G0 = z3.Function(f"{self.name}.link.old", z3.IntSort(), self.sort())
        j = z3.Int(f"{self.name}.link.j")
        info = {'level': 'sup', 'lemma': f"{self.name}: a list modified at index p keeps {self.name}(i) for i <= p"}
        I.st.vcs.append(VC(f"lemma.{self.name}.agree_base", 'lemma', [G1(0) == self.zero(), G0(0) == self.zero()],
                           G1(0) == G0(0), info))
        I.st.vcs.append(VC(f"lemma.{self.name}.agree_step", 'lemma',
                           [0 <= j, j < idx, G1(j) == G0(j), G1(j + 1) == self.plus(G1(j), self.term(view, j)),
                            G0(j + 1) == self.plus(G0(j), self.term(prev, j))],
                           G1(j + 1) == G0(j + 1), info))

    def whole(self, I, view):
        s = self.state(I, view)
        return self.wrap(s['F'](view.n))

    def prefix(self, I, view, i):
        """value of the fold over L[:i]  (python slice semantics for out-of-range i: clamped)"""
        if not is_intlike(i):
            raise Unsupported(f"{self.name}: non-integer bound")
        s = self.state(I, view)
        zi = to_zint(i)
        n = view.n
        if I.st.implied(z3.And(zi >= 0, zi <= n)):
            pos = zi
        else:
            neg = z3.If(zi + n < 0, z3.IntVal(0), zi + n)
            pos = z3.If(zi < 0, neg, z3.If(zi > n, n, zi))
        pos = z3.simplify(pos)
        self.touch(I, view, pos)
        return self.wrap(s['F'](pos))


class PrefixSum(_Fold):
    sort = staticmethod(z3.IntSort)

    def __init__(self, name, term, linkable=True):
        """term(view, zi) -> z3 Int expression: the summand contributed by element zi (must be >= 0: proved)"""
        self.name = name
        self.term = term
        self.linkable = linkable

    def zero(self):
        return z3.IntVal(0)

    def plus(self, a, b):
        return a + b

    def leq(self, a, b):
        return a <= b

    def wrap(self, z):
        return SInt(z)

    def emit_lemmas(self, I, view):
        """monotonicity by induction on j >= i:  base F(i) <= F(i);  step: F(i) <= F(j) and the unfolding at j give
        F(i) <= F(j+1), which needs term(j) >= 0 - proved from the definition of the term, for an arbitrary index"""
        G = z3.Function(f"{self.name}.lemma", z3.IntSort(), z3.IntSort())
        i, j = z3.Ints(f"{self.name}.lemma.i {self.name}.lemma.j")
        tj = self.term(view, j)
        info = {'level': 'sup', 'lemma': f"{self.name}: i <= j -> {self.name}(i) <= {self.name}(j)"}
        I.st.vcs.append(VC(f"lemma.{self.name}.mono_base", 'lemma', [], G(i) <= G(i), info))
        I.st.vcs.append(VC(f"lemma.{self.name}.mono_step", 'lemma',
                           [i <= j, j >= 0, G(i) <= G(j), G(j + 1) == G(j) + tj], G(i) <= G(j + 1), info))


class PrefixConcat(_Fold):
    """S(i) = term(0) ++ ... ++ term(i-1)  (strings), tied to a PrefixSum that measures its length"""
    sort = staticmethod(z3.StringSort)
    lazy = True

    def __init__(self, name, term, length_fold, linkable=True):
        self.name = name
        self.term = term                # term(view, zi) -> z3 String
        self.length_fold = length_fold  # PrefixSum with term = Length(self.term)
        self.linkable = linkable

    def zero(self):
        return z3.StringVal("")

    def plus(self, a, b):
        return z3.Concat(a, b)

    def leq(self, a, b):
        return z3.PrefixOf(a, b)

    def wrap(self, z):
        return SStr([Sq(z)])

    def emit_lemmas(self, I, view):
        G = z3.Function(f"{self.name}.lemma", z3.IntSort(), z3.StringSort())
        H = z3.Function(f"{self.name}.lemma.len", z3.IntSort(), z3.IntSort())
        i, j = z3.Ints(f"{self.name}.lemma.i {self.name}.lemma.j")
        tj = self.term(view, j)
        vcs = I.st.vcs
        info = {'level': 'sup', 'lemma': f"{self.name}: i <= j -> {self.name}(i) is a prefix of {self.name}(j)"}
        vcs.append(VC(f"lemma.{self.name}.mono_base", 'lemma', [], z3.PrefixOf(G(i), G(i)), info))
        vcs.append(VC(f"lemma.{self.name}.mono_step", 'lemma',
                      [i <= j, j >= 0, z3.PrefixOf(G(i), G(j)), G(j + 1) == z3.Concat(G(j), tj)],
                      z3.PrefixOf(G(i), G(j + 1)), info))
        info2 = {'level': 'sup', 'lemma': f"len({self.name}(i)) == {self.length_fold.name}(i)"}
        vcs.append(VC(f"lemma.{self.name}.len_base", 'lemma',
                      [G(0) == z3.StringVal(""), H(0) == 0], z3.Length(G(0)) == H(0), info2))
        vcs.append(VC(f"lemma.{self.name}.len_step", 'lemma',
                      [j >= 0, z3.Length(G(j)) == H(j), G(j + 1) == z3.Concat(G(j), tj),
                       H(j + 1) == H(j) + self.length_fold.term(view, j)],
                      z3.Length(G(j + 1)) == H(j + 1), info2))

    def on_touch(self, I, view, s, zi):
        ls = self.length_fold.state(I, view)
        self.length_fold.touch(I, view, zi)
        I.st.assume(z3.Implies(z3.And(0 <= zi, zi <= view.n), z3.Length(s['F'](zi)) == ls['F'](zi)), lazy=True)

    def unfold(self, I, view, zi):
        self.length_fold.unfold(I, view, zi)
        _Fold.unfold(self, I, view, zi)


# ------------------------------------------------------------------------------------------- models
def locate_model(fold, field):
    """spec function  f(L, pos): the value of `field` of the element k whose summand interval contains pos
    (fold(k) <= pos < fold(k+1)), None when pos is outside [0, fold(n)).
    Existence of k is the discrete intermediate-value lemma, proved by induction on the length (lemma.*.locate_*);
    uniqueness follows from the monotonicity instances."""
    def model(I, args):
        L, pos = args
        if not isinstance(L, SymList):
            return NotImplemented
        if not is_intlike(pos):
            raise Unsupported("locate: non-integer position")
        view = ListView(L)
        s = fold.state(I, view)
        F = s['F']
        zp = to_zint(pos)
        if 'locate_lemma' not in s:
            s['locate_lemma'] = True
            I.st.undo_log.append(lambda: s.pop('locate_lemma', None))
            G = z3.Function(f"{fold.name}.locate", z3.IntSort(), z3.IntSort())
            j, K, p = z3.Ints(f"{fold.name}.locate.j {fold.name}.locate.K {fold.name}.locate.p")
            tj = fold.term(view, j)
            inst = lambda k, m: z3.And(0 <= k, k < m, G(k) <= p, p < G(k + 1))      # noqa
            info = {'level': 'sup',
                    'lemma': f"0 <= p < {fold.name}(m)  ->  exists k < m: {fold.name}(k) <= p < {fold.name}(k+1)"}
            I.st.vcs.append(VC(f"lemma.{fold.name}.locate_base", 'lemma', [G(0) == 0],
                               z3.Not(z3.And(0 <= p, p < G(0))), info))
            I.st.vcs.append(VC(f"lemma.{fold.name}.locate_step", 'lemma',
                               [j >= 0, G(j + 1) == G(j) + tj, z3.Implies(z3.And(0 <= p, p < G(j)), inst(K, j)),
                                0 <= p, p < G(j + 1)],
                               z3.Or(inst(K, j + 1), inst(j, j + 1)), info))
        # the element index is a (skolem) function of the position: its existence is the lemma just emitted
        IDX = z3.Function(f"{fold.name}.idx[{view.name}]", z3.IntSort(), z3.IntSort())
        from .models import symlist_generic_elem
        if getattr(I, 'generic_depth', 0):
            # inside a quantified body (the position is a bound variable): no case split, no instance facts; the
            # defining property of the index function is one quantified fact, carried by every VC
            s0 = z3.Solver()
            s0.set('timeout', 2000)
            s0.add(*getattr(I, 'generic_ranges', []))
            s0.add(z3.Not(z3.And(zp >= 0, zp < F(view.n))))
            if s0.check() != z3.unsat and not I.st.implied(z3.And(zp >= 0, zp < F(view.n))):
                raise Unsupported("locate inside a quantified body at a position not known to be in range")
            if 'idx_axiom' not in s:
                s['idx_axiom'] = True
                I.st.undo_log.append(lambda: s.pop('idx_axiom', None))
                q = z3.Int(f"{fold.name}.idx.q")
                from . import explore
                explore.QUANTIFIERS_IN_USE[0] = True
                I.st.assume(z3.ForAll([q], z3.Implies(
                    z3.And(0 <= q, q < F(view.n)),
                    z3.And(0 <= IDX(q), IDX(q) < view.n, F(IDX(q)) <= q, q < F(IDX(q) + 1),
                           F(IDX(q) + 1) == F(IDX(q)) + fold.term(view, IDX(q)))), patterns=[IDX(q)]), lazy=True)
            if field is None:
                return SInt(IDX(zp))
            return symlist_generic_elem(I, L, IDX(zp)).fields[field]
        if not I.branch(z3.And(zp >= 0, zp < F(view.n))):
            return None
        k = IDX(zp)
        I.st.assume(z3.And(0 <= k, k < view.n))
        fold.unfold(I, view, k)
        for v in range(view.v):
            fold.unfold(I, ListView(L, v), k)
        I.st.assume(z3.And(F(k) <= zp, zp < F(k + 1)))
        if field is None:
            return SInt(k)
        return symlist_generic_elem(I, L, k).fields[field]
    model.fold = fold
    return model


def _whole_of_rope(I, fold, L):
    """fold over an SList whose items are objects and segments of symbolic length: distributes over the parts"""
    from .values import SList, ListSeg, SObj, ObjView
    acc = fold.zero()
    for it in L.items:
        if isinstance(it, ListSeg):
            view = ListView(it.lst)
            part = fold.state(I, view)['F'](view.n)
            fold.touch(I, view, view.n)
        elif isinstance(it, SObj):
            funcs = next((x.lst.funcs for x in L.items if isinstance(x, ListSeg)), None)
            part = fold.term(ObjView(it, funcs), None)
        else:
            raise Unsupported(f"{fold.name}: list item of another kind")
        acc = fold.plus(acc, part)
    return fold.wrap(z3.simplify(acc))


def is_rope(v):
    from .values import SList, ListSeg
    return isinstance(v, SList) and any(isinstance(x, ListSeg) for x in v.items)


def prefix_model(fold):
    def model(I, args):
        L, i = args
        if not isinstance(L, SymList):
            return NotImplemented
        return fold.prefix(I, ListView(L), i)
    model.fold = fold
    return model


def whole_model(fold):
    def model(I, args):
        (L,) = args
        if is_rope(L):
            return _whole_of_rope(I, fold, L)
        if not isinstance(L, SymList):
            return NotImplemented
        return fold.whole(I, ListView(L))
    model.fold = fold
    return model


def install(config, models):
    """models: {spec function name: callable(I, args) -> value}; hooks are collected from the folds they use"""
    config['symlist_models'] = dict(models)
    folds = []
    for fn in models.values():
        owner = getattr(fn, 'fold', None)
        while owner is not None and all(owner is not f for f in folds):
            folds.append(owner)
            owner = getattr(owner, 'length_fold', None)
    config['folds'] = folds
    # a PrefixConcat unfolds its length fold itself
    covered = {id(f.length_fold) for f in folds if isinstance(f, PrefixConcat)}
    config['symlist_hooks'] = [f.on_elem for f in folds if id(f) not in covered]


# ------------------------------------------------------------------------------------------- folds met in code
def _matching(I, m, cls):
    """a registered fold whose term is the element expression of the generator m; else a fold made for it"""
    e = z3.simplify(m.expr)
    for f in I.config.get('folds', []):
        if isinstance(f, cls):
            try:
                t = z3.simplify(f.term(m.src, m.j))
            except Exception:      # noqa
                continue
            if t.eq(e):
                return f
    dyn = I.st.notes.setdefault('dyn_folds', {})
    key = (cls.__name__, hashlib.sha1(e.sexpr().replace(str(m.j), '#j').encode()).hexdigest()[:10])
    f = dyn.get(key)
    if f is None:
        term = (lambda view, zi, m=m: z3.substitute(m.expr, (m.j, zi)))
        if cls is PrefixSum:
            f = PrefixSum('sum#' + key[1], term, linkable=False)
        else:
            lf = PrefixSum('len#' + key[1], lambda view, zi, m=m: z3.Length(z3.substitute(m.expr, (m.j, zi))),
                           linkable=False)
            f = PrefixConcat('cat#' + key[1], term, lf, linkable=False)
        dyn[key] = f
    return f


def sep_fold(I, sep):
    """prefix fold of (element + sep) over a list of strings (the registered one with this term, else a new one)"""
    for f in I.config.get('folds', []):
        if isinstance(f, PrefixConcat) and getattr(f, 'sep', None) == sep:
            return f
    dyn = I.st.notes.setdefault('dyn_folds', {})
    key = ('sepcat', sep)
    f = dyn.get(key)
    if f is None:
        lf = PrefixSum('seplen#' + str(len(sep)), lambda view, zi: z3.Length(view.field('value', zi)) + len(sep))
        f = PrefixConcat('sepcat#' + str(len(sep)), lambda view, zi: z3.Concat(view.field('value', zi), z3.StringVal(sep)), lf)
        f.sep = sep
        dyn[key] = f
    return f


def sum_of(I, m):
    if m.src is None or m.kind != 'int':
        raise Unsupported("sum() of a generator over a symbolic range / of non-integers")
    s0 = z3.Solver()
    s0.set('timeout', 2000)
    s0.add(z3.And(m.lo <= m.j, m.j < m.hi), m.expr < 0)
    if s0.check() != z3.unsat:
        raise Unsupported("sum() over a list of symbolic length with summands not known to be non-negative")
    return _matching(I, m, PrefixSum).whole(I, m.src)


def join_of(I, m):
    if m.src is None or m.kind != 'str':
        raise Unsupported("join of a generator over a symbolic range / of non-strings")
    return _matching(I, m, PrefixConcat).whole(I, m.src)


def forall(m):
    from . import explore
    explore.QUANTIFIERS_IN_USE[0] = True
    return z3.ForAll([m.j], z3.Implies(z3.And(m.lo <= m.j, m.j < m.hi), m.expr))


def exists(m):
    from . import explore
    explore.QUANTIFIERS_IN_USE[0] = True
    return z3.Exists([m.j], z3.And(m.lo <= m.j, m.j < m.hi, m.expr))
