"""Spec-level folds over lists of symbolic length (SymList).

A prefix sum  F(i) = sum_{k < i} term(k)  is represented by an uninterpreted function F : Int -> Int with
  * F(0) = 0,
  * the unfolding  F(i+1) = F(i) + term(i)  instantiated for every element index the execution touches,
  * instances of the monotonicity lemma  i <= j  ->  F(i) <= F(j)  for every pair of touched indices.
The lemma itself is proved by induction on j: its base and step are emitted as verification conditions
(`lemma.<name>.*`, discharged by the solver like every other obligation); the induction schema over the naturals
is applied outside the solver and is listed as the one meta-level assumption of this module."""
import z3

from .explore import VC
from .values import SInt, SymList, mk_int, to_zint, is_intlike
from .explore import Unsupported

INDUCTION_NOTE = ("induction schema over the naturals, applied outside the solver to the lemmas lemma.*.mono_* "
                  "(base and step are discharged obligations)")


def _remove(lst, z):
    for k, x in enumerate(lst):
        if x.eq(z):
            del lst[k]
            return


class PrefixSum:
    def __init__(self, name, term):
        """term(L, zi) -> z3 Int expression: the summand contributed by element zi of the SymList L"""
        self.name = name
        self.term = term

    # ---------------------------------------------------------------- per-path state
    def state(self, I, L):
        folds = I.st.notes.setdefault('folds', {})
        key = (self.name, L.name)
        s = folds.get(key)
        if s is None:
            F = z3.Function(f"{self.name}[{L.name}]", z3.IntSort(), z3.IntSort())
            s = folds[key] = {'F': F, 'touched': []}
            I.st.undo_log.append(lambda: folds.pop(key, None))
            I.st.assume(F(z3.IntVal(0)) == 0)
            self.emit_lemma(I, L)
            if INDUCTION_NOTE not in I.st.assumed:
                I.st.assumed.append(INDUCTION_NOTE)
            self.touch(I, L, z3.IntVal(0))
            self.touch(I, L, L.n)
        return s

    def emit_lemma(self, I, L):
        """monotonicity by induction on j >= i:  base F(i) <= F(i);  step: F(i) <= F(j) and the unfolding at j give
        F(i) <= F(j+1), which needs term(j) >= 0 - proved from the definition of the term, for an arbitrary index"""
        G = z3.Function(f"{self.name}.lemma", z3.IntSort(), z3.IntSort())
        i, j = z3.Ints(f"{self.name}.lemma.i {self.name}.lemma.j")
        tj = self.term(L, j)
        vcs = I.st.vcs
        info = {'level': 'sup', 'lemma': f"{self.name}: i <= j -> {self.name}(i) <= {self.name}(j)"}
        vcs.append(VC(f"lemma.{self.name}.mono_base", 'lemma', [], G(i) <= G(i), info))
        vcs.append(VC(f"lemma.{self.name}.mono_step", 'lemma',
                      [i <= j, j >= 0, G(i) <= G(j), G(j + 1) == G(j) + tj], G(i) <= G(j + 1), info))

    def touch(self, I, L, zi):
        s = I.st.notes['folds'][(self.name, L.name)]
        F = s['F']
        zi = z3.simplify(zi)
        for zj in s['touched']:
            if zj.eq(zi):
                return
        for zj in s['touched']:
            I.st.assume(z3.Implies(zj <= zi, F(zj) <= F(zi)))
            I.st.assume(z3.Implies(zi <= zj, F(zi) <= F(zj)))
        s['touched'].append(zi)
        I.st.undo_log.append(lambda: _remove(s['touched'], zi))

    # ---------------------------------------------------------------- hooks and models
    def on_elem(self, I, L, zi):
        """element zi (0 <= zi < n) comes into existence: instantiate the unfolding there"""
        s = self.state(I, L)
        F = s['F']
        zi = z3.simplify(zi)
        key = ('unfolded', zi.get_id())
        if key in s:
            return
        s[key] = True
        I.st.undo_log.append(lambda: s.pop(key, None))
        self.touch(I, L, zi)
        self.touch(I, L, zi + 1)
        I.st.assume(F(zi + 1) == F(zi) + self.term(L, zi))

    def prefix(self, I, L, i):
        """value of the fold over L[:i]  (python slice semantics for out-of-range i: clamped)"""
        if not is_intlike(i):
            raise Unsupported(f"{self.name}: non-integer bound")
        s = self.state(I, L)
        zi = to_zint(i)
        if I.st.implied(z3.And(zi >= 0, zi <= L.n)):
            pos = zi
        else:
            neg = z3.If(zi + L.n < 0, z3.IntVal(0), zi + L.n)
            pos = z3.If(zi < 0, neg, z3.If(zi > L.n, L.n, zi))
        pos = z3.simplify(pos)
        self.touch(I, L, pos)
        return SInt(s['F'](pos))

    def whole(self, I, L):
        s = self.state(I, L)
        return SInt(s['F'](L.n))


class PrefixConcat:
    """S(i) = term(0) ++ ... ++ term(i-1)  (strings), tied to a PrefixSum that measures its length.
    Axioms: S(0) = "", unfolding at touched elements; lemma instances for touched pairs i <= j:
    prefixof(S(i), S(j)), and len(S(i)) = F(i).  Both lemmas are proved by induction (base/step obligations)."""

    def __init__(self, name, term, length_fold):
        self.name = name
        self.term = term                # term(L, zi) -> z3 String
        self.length_fold = length_fold  # PrefixSum with term = Length(self.term)

    def state(self, I, L):
        folds = I.st.notes.setdefault('folds', {})
        key = (self.name, L.name)
        s = folds.get(key)
        if s is None:
            S = z3.Function(f"{self.name}[{L.name}]", z3.IntSort(), z3.StringSort())
            s = folds[key] = {'S': S, 'touched': []}
            I.st.undo_log.append(lambda: folds.pop(key, None))
            I.st.assume(S(z3.IntVal(0)) == z3.StringVal(""))
            self.emit_lemmas(I, L)
            if INDUCTION_NOTE not in I.st.assumed:
                I.st.assumed.append(INDUCTION_NOTE)
            self.touch(I, L, z3.IntVal(0))
            self.touch(I, L, L.n)
        return s

    def emit_lemmas(self, I, L):
        G = z3.Function(f"{self.name}.lemma", z3.IntSort(), z3.StringSort())
        H = z3.Function(f"{self.name}.lemma.len", z3.IntSort(), z3.IntSort())
        i, j = z3.Ints(f"{self.name}.lemma.i {self.name}.lemma.j")
        tj = self.term(L, j)
        vcs = I.st.vcs
        info = {'level': 'sup', 'lemma': f"{self.name}: i <= j -> {self.name}(i) is a prefix of {self.name}(j)"}
        vcs.append(VC(f"lemma.{self.name}.mono_base", 'lemma', [], z3.PrefixOf(G(i), G(i)), info))
        vcs.append(VC(f"lemma.{self.name}.mono_step", 'lemma',
                      [i <= j, j >= 0, z3.PrefixOf(G(i), G(j)), G(j + 1) == z3.Concat(G(j), tj)],
                      z3.PrefixOf(G(i), G(j + 1)), info))
        info2 = {'level': 'sup', 'lemma': f"len({self.name}(i)) == {self.length_fold.name}(i)"}
        vcs.append(VC(f"lemma.{self.name}.mono_len_base", 'lemma',
                      [G(0) == z3.StringVal(""), H(0) == 0], z3.Length(G(0)) == H(0), info2))
        vcs.append(VC(f"lemma.{self.name}.mono_len_step", 'lemma',
                      [j >= 0, z3.Length(G(j)) == H(j), G(j + 1) == z3.Concat(G(j), tj),
                       H(j + 1) == H(j) + self.length_fold.term(L, j)],
                      z3.Length(G(j + 1)) == H(j + 1), info2))

    def touch(self, I, L, zi):
        s = I.st.notes['folds'][(self.name, L.name)]
        S = s['S']
        zi = z3.simplify(zi)
        for zj in s['touched']:
            if zj.eq(zi):
                return
        ls = self.length_fold.state(I, L)
        self.length_fold.touch(I, L, zi)
        I.st.assume(z3.Length(S(zi)) == ls['F'](zi))
        for zj in s['touched']:
            I.st.assume(z3.Implies(zj <= zi, z3.PrefixOf(S(zj), S(zi))))
            I.st.assume(z3.Implies(zi <= zj, z3.PrefixOf(S(zi), S(zj))))
        s['touched'].append(zi)
        I.st.undo_log.append(lambda: _remove(s['touched'], zi))

    def on_elem(self, I, L, zi):
        s = self.state(I, L)
        S = s['S']
        zi = z3.simplify(zi)
        key = ('unfolded', zi.get_id())
        if key in s:
            return
        s[key] = True
        I.st.undo_log.append(lambda: s.pop(key, None))
        self.length_fold.on_elem(I, L, zi)
        self.touch(I, L, zi)
        self.touch(I, L, zi + 1)
        I.st.assume(S(zi + 1) == z3.Concat(S(zi), self.term(L, zi)))

    def whole(self, I, L):
        from .values import SStr, Sq
        s = self.state(I, L)
        return SStr([Sq(s['S'](L.n))])


def locate_model(fold, field):
    """spec function  f(L, pos): the value of `field` of the element k whose summand interval contains pos
    (fold(k) <= pos < fold(k+1)), None when pos is outside [0, fold(n)).
    Existence of k is the discrete intermediate-value lemma, proved by induction on the length (lemma.*.locate_*);
    uniqueness follows from the monotonicity instances."""
    def model(I, args):
        L, pos = args
        if not isinstance(L, SymList):
            return NotImplemented
        if not is_intlike(pos):
            raise Unsupported("locate: non-integer position")
        s = fold.state(I, L)
        F = s['F']
        zp = to_zint(pos)
        if 'locate_lemma' not in s:
            s['locate_lemma'] = True
            I.st.undo_log.append(lambda: s.pop('locate_lemma', None))
            G = z3.Function(f"{fold.name}.locate", z3.IntSort(), z3.IntSort())
            j, K, p = z3.Ints(f"{fold.name}.locate.j {fold.name}.locate.K {fold.name}.locate.p")
            tj = fold.term(L, j)
            inst = lambda k, m: z3.And(0 <= k, k < m, G(k) <= p, p < G(k + 1))      # noqa
            info = {'level': 'sup', 'lemma': f"0 <= p < {fold.name}(m)  ->  exists k < m: {fold.name}(k) <= p < {fold.name}(k+1)"}
            I.st.vcs.append(VC(f"lemma.{fold.name}.locate_base", 'lemma', [G(0) == 0], z3.Not(z3.And(0 <= p, p < G(0))), info))
            I.st.vcs.append(VC(f"lemma.{fold.name}.locate_step", 'lemma',
                               [j >= 0, G(j + 1) == G(j) + tj, z3.Implies(z3.And(0 <= p, p < G(j)), inst(K, j)),
                                0 <= p, p < G(j + 1)],
                               z3.Or(inst(K, j + 1), inst(j, j + 1)), info))
        if not I.branch(z3.And(zp >= 0, zp < F(L.n))):
            return None
        k = I.st.fresh_int(f"{fold.name}.at")
        I.st.assume(z3.And(0 <= k, k < L.n))
        from .models import symlist_elem
        e = symlist_elem(I, L, k)          # instantiates the unfolding at k
        I.st.assume(z3.And(F(k) <= zp, zp < F(k + 1)))
        return e.fields[field]
    model.fold = fold
    return model


def install(config, models):
    """models: {spec function name: callable(I, args) -> value}; hooks are collected from PrefixSum owners"""
    config['symlist_models'] = dict(models)
    hooks = []
    seen = set()
    for fn in models.values():
        owner = getattr(fn, 'fold', None)
        if owner is not None and id(owner) not in seen:
            seen.add(id(owner))
            hooks.append(owner.on_elem)
    config['symlist_hooks'] = hooks


def prefix_model(fold):
    def model(I, args):
        L, i = args
        if not isinstance(L, SymList):
            return NotImplemented
        return fold.prefix(I, L, i)
    model.fold = fold
    return model


def whole_model(fold):
    def model(I, args):
        (L,) = args
        if not isinstance(L, SymList):
            return NotImplemented
        return fold.whole(I, L)
    model.fold = fold
    return model
