"""Python regular expression (pattern string) -> z3 regular expression, for the subset
{literal, class, range, \\d, star, plus, optional, repeat, concatenation, alternation, group}.
Anything else raises Unsupported."""
import z3

try:
    import re._parser as sre_parse
    import re._constants as sre_c
except ImportError:       # python < 3.11
    import sre_parse
    import sre_constants as sre_c

from .values import Unsupported, MAXCODE


def _ch(c):
    return z3.Re(z3.StringVal(chr(c))) if c < 128 and chr(c).isprintable() and chr(c) not in '\\"' \
        else z3.Re(z3.Unit(z3.CharVal(c))) if hasattr(z3, 'CharVal') else z3.Re(z3.StringVal(chr(c)))


def _range(lo, hi):
    return z3.Range(z3.Unit(z3.CharVal(lo)), z3.Unit(z3.CharVal(hi))) if hasattr(z3, 'CharVal') \
        else z3.Range(chr(lo), chr(hi))


def _category(cat, exact):
    if cat == sre_c.CATEGORY_DIGIT:
        # python's \d for str patterns also matches non-ASCII decimal digits; the ASCII range is
        # an under-approximation of L(R) (sound for "emitted word is matched"); with exact=False
        # callers proving facts about *all* words of L(R) get the over-approximation digits + non-ASCII
        if exact:
            return _range(48, 57)
        return z3.Union(_range(48, 57), _range(128, MAXCODE))
    raise Unsupported(f"regex category {cat}")


def _in(items, exact):
    parts = []
    negate = False
    for op, av in items:
        if op == sre_c.NEGATE:
            negate = True
        elif op == sre_c.LITERAL:
            parts.append(_ch(av))
        elif op == sre_c.RANGE:
            parts.append(_range(av[0], av[1]))
        elif op == sre_c.CATEGORY:
            parts.append(_category(av, exact))
        else:
            raise Unsupported(f"regex class item {op}")
    r = parts[0] if len(parts) == 1 else z3.Union(*parts)
    if negate:
        allc = _range(0, MAXCODE)
        return z3.Intersect(allc, z3.Complement(r))
    return r


def _seq(items, exact):
    out = []
    for op, av in items:
        if op == sre_c.LITERAL:
            out.append(_ch(av))
        elif op == sre_c.IN:
            out.append(_in(av, exact))
        elif op == sre_c.ANY:
            out.append(z3.Intersect(_range(0, MAXCODE), z3.Complement(_ch(10))))
        elif op in (sre_c.MAX_REPEAT, sre_c.MIN_REPEAT):
            lo, hi, sub = av
            r = _seq(sub, exact)
            if lo == 0 and hi == sre_c.MAXREPEAT:
                out.append(z3.Star(r))
            elif lo == 1 and hi == sre_c.MAXREPEAT:
                out.append(z3.Plus(r))
            elif lo == 0 and hi == 1:
                out.append(z3.Option(r))
            elif hi == sre_c.MAXREPEAT:
                out.append(z3.Concat(z3.Loop(r, lo, lo), z3.Star(r)) if lo else z3.Star(r))
            else:
                out.append(z3.Loop(r, lo, hi))
        elif op == sre_c.SUBPATTERN:
            out.append(_seq(av[3], exact))
        elif op == sre_c.BRANCH:
            out.append(z3.Union(*[_seq(b, exact) for b in av[1]]))
        elif op == sre_c.CATEGORY:
            out.append(_category(av, exact))
        else:
            raise Unsupported(f"regex construct {op}")
    if not out:
        return z3.Re(z3.StringVal(""))
    return out[0] if len(out) == 1 else z3.Concat(*out)


def to_z3(pattern, exact=True):
    if not isinstance(pattern, str):
        raise Unsupported("bytes / non-str regex pattern")
    return _seq(list(sre_parse.parse(pattern)), exact)
