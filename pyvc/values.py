"""Symbolic values of the pyvc interpreter.

Concrete Python values (None, bool, int, float, str, bytes, tuple) are used as they are.
Everything symbolic is one of the classes below.  Mutable containers and objects are
Python objects mutated in place: every path is executed from scratch (see explore.py),
so no heap snapshots are needed except for ``old(...)`` (deep copy at entry).
"""
import itertools
import z3

MAXCODE = 0x2FFFF      # z3 characters: U+0000 .. U+2FFFF


class Unsupported(Exception):
    """Construct outside the modelled subset: the obligation becomes *undecided*."""


class Sym:
    pass


class SInt(Sym):
    __slots__ = ('z',)

    def __init__(self, z):
        self.z = z

    def __repr__(self):
        return f"SInt({self.z})"


class SBool(Sym):
    __slots__ = ('z',)

    def __init__(self, z):
        self.z = z

    def __repr__(self):
        return f"SBool({self.z})"


class Ch:
    """one symbolic character, as its code point"""
    __slots__ = ('code',)

    def __init__(self, code):
        self.code = code

    def __repr__(self):
        return f"Ch({self.code})"


class Sq:
    """a symbolic string of unknown length"""
    __slots__ = ('z',)

    def __init__(self, z):
        self.z = z

    def __repr__(self):
        return f"Sq({self.z})"


class SStr(Sym):
    """string with symbolic parts: list of str | Ch | Sq (concrete neighbours merged)"""
    __slots__ = ('parts',)

    def __init__(self, parts):
        self.parts = parts

    def __repr__(self):
        return f"SStr({self.parts})"


def mk_str(parts):
    """normalise a part list; returns str when fully concrete"""
    out = []
    for p in parts:
        if isinstance(p, SStr):
            ps = p.parts
        else:
            ps = [p]
        for q in ps:
            if isinstance(q, str):
                if not q:
                    continue
                if out and isinstance(out[-1], str):
                    out[-1] = out[-1] + q
                else:
                    out.append(q)
            elif isinstance(q, Ch):
                if z3.is_int_value(q.code):
                    c = chr(q.code.as_long())
                    if out and isinstance(out[-1], str):
                        out[-1] = out[-1] + c
                    else:
                        out.append(c)
                else:
                    out.append(q)
            elif isinstance(q, Sq):
                if z3.is_string_value(q.z):
                    c = q.z.as_string()
                    c = _unescape_z3(c)
                    if c:
                        if out and isinstance(out[-1], str):
                            out[-1] = out[-1] + c
                        else:
                            out.append(c)
                else:
                    out.append(q)
            else:
                raise TypeError(q)
    if not out:
        return ""
    if len(out) == 1 and isinstance(out[0], str):
        return out[0]
    return SStr(out)


def _unescape_z3(s):
    # z3 prints non-ascii / control characters as \u{XX}
    import re
    return re.sub(r'\\u\{([0-9a-fA-F]+)\}', lambda m: chr(int(m.group(1), 16)), s)


def z3_strval(s):
    return z3.StringVal(s)


def str_parts(v):
    if isinstance(v, str):
        return [v] if v else []
    if isinstance(v, SStr):
        return v.parts
    raise TypeError(v)


def part_z3(p):
    if isinstance(p, str):
        return z3.StringVal(p)
    if isinstance(p, Ch):
        return z3.StrFromCode(p.code)
    return p.z


def str_z3(v):
    ps = str_parts(v)
    if not ps:
        return z3.StringVal("")
    zs = [part_z3(p) for p in ps]
    if len(zs) == 1:
        return zs[0]
    return z3.Concat(*zs)


def str_known_len(v):
    """concrete length or None"""
    n = 0
    for p in str_parts(v):
        if isinstance(p, str):
            n += len(p)
        elif isinstance(p, Ch):
            n += 1
        else:
            return None
    return n


def str_len(v):
    """length as int or z3 Int expression"""
    n = 0
    sym = []
    for p in str_parts(v):
        if isinstance(p, str):
            n += len(p)
        elif isinstance(p, Ch):
            n += 1
        else:
            sym.append(z3.Length(p.z))
    if not sym:
        return n
    return z3.Sum([z3.IntVal(n)] + sym) if n else (sym[0] if len(sym) == 1 else z3.Sum(sym))


def str_chars(v):
    """list of 1-char items (str or Ch) for a string of known length"""
    out = []
    for p in str_parts(v):
        if isinstance(p, str):
            out.extend(p)
        elif isinstance(p, Ch):
            out.append(p)
        else:
            raise Unsupported("characters of a string of unknown length")
    return out


def char_code(c):
    """code of a 1-char item as z3 Int"""
    if isinstance(c, str):
        return z3.IntVal(ord(c))
    return c.code


class SList(Sym):
    __slots__ = ('items', 'tag', 'origin')

    def __init__(self, items, tag=None):
        self.items = list(items)
        self.tag = tag
        self.origin = None       # for old(...) snapshots: the object this is a copy of

    def __repr__(self):
        return f"SList({self.items})"


class SDict(Sym):
    """dict with concrete (hashable python) keys, insertion ordered"""
    __slots__ = ('d', 'tag', 'origin')

    def __init__(self, d=None, tag=None):
        self.d = dict(d or {})
        self.tag = tag
        self.origin = None

    def __repr__(self):
        return f"SDict({self.d})"


class SSet(Sym):
    __slots__ = ('items',)

    def __init__(self, items):
        self.items = list(items)


class SObj(Sym):
    """instance of a (real) class; fields symbolic"""
    __slots__ = ('cls', 'fields', 'tag', 'origin')

    def __init__(self, cls, fields=None, tag=None):
        self.cls = cls
        self.fields = dict(fields or {})
        self.tag = tag
        self.origin = None

    def __repr__(self):
        return f"SObj({self.cls.__name__}, {self.fields})"


class SOpaque(Sym):
    """value of an uninterpreted sort: only identity, a symbolic truth value and (optionally)
    a declared python type are known"""
    __slots__ = ('name', 'pytype', 'truth', 'attrs')

    def __init__(self, name, pytype=None, truth=None, attrs=None):
        self.name = name
        self.pytype = pytype
        self.truth = truth
        self.attrs = attrs or {}

    def __repr__(self):
        return f"SOpaque({self.name})"


class SeqPart(Sym):
    """a segment of symbolic length n >= 0 of opaque elements; may be an *item* of an SList (the list
    then has symbolic length).  Only length, concatenation, identity and structural equality are
    supported on it; anything that would look inside is Unsupported."""
    __slots__ = ('name', 'n')

    def __init__(self, name, n):
        self.name = name
        self.n = n              # z3 Int, constrained >= 0 by the creator

    def __repr__(self):
        return f"SeqPart({self.name})"


class ListSeg(SeqPart):
    """the elements of a list of symbolic length (a snapshot of a SymList) as one segment of an SList: what
    `xs + [y]`, `[y] + xs`, `ys.extend(xs)` make.  Folds distribute over the segments; looking inside is Unsupported."""
    __slots__ = ('lst',)

    def __init__(self, lst):
        self.lst = lst
        self.name = lst.name

    @property
    def n(self):
        return self.lst.n

    @n.setter
    def n(self, v):
        pass

    def __repr__(self):
        return f"ListSeg({self.lst!r})"


class ObjView:
    """a single concrete object seen as a one-element view (so that a fold's term can be taken of it)"""
    __slots__ = ('obj', 'funcs')

    def __init__(self, obj, funcs):
        self.obj = obj
        self.funcs = funcs

    def field(self, f, zi=None):
        return _field_z3(_at_path(self.obj, f), self.funcs[f][1])


class SymColl(Sym):
    """a list / tuple / set of symbolic length whose elements are opaque: one SeqPart"""
    __slots__ = ('pytype', 'part')

    def __init__(self, pytype, part):
        self.pytype = pytype
        self.part = part

    def __repr__(self):
        return f"SymColl({self.pytype.__name__}, {self.part.name})"


class Repeat(Sym):
    """item of a generated sequence: `value` once per element of a symbolic segment"""
    __slots__ = ('value', 'part')

    def __init__(self, value, part):
        self.value = value
        self.part = part


class SymList(Sym):
    """a list of symbolic length whose elements are objects of one class.
    Version 0: field f of element i is the uninterpreted function application funcs[f](i), length ns[0].
    Every mutation (append / store at an index) adds one overlay (index, object) and one length: version v sees
    over[:v] and has length ns[v].  Field f of element i at version v is the If-chain over the overlays."""
    __slots__ = ('name', 'ns', 'cls', 'funcs', 'pytype', 'over', 'origin', 'tag', 'poisoned', 'shape', 'bounds')

    def __init__(self, name, n, cls, funcs):
        self.name = name
        self.ns = [n]
        self.cls = cls
        self.funcs = funcs
        self.pytype = list
        self.over = []
        self.origin = None
        self.tag = None
        self.poisoned = None      # reason why this list object may no longer be looked at (see verify: havoc)
        self.shape = ('obj', cls, {f: ('leaf', f, k) for f, (_fn, k) in funcs.items()})
        self.bounds = []

    @property
    def n(self):
        return self.ns[-1]

    @property
    def version(self):
        return len(self.over)

    def snapshot(self):
        c = SymList(self.name, self.ns[0], self.cls, self.funcs)
        c.shape = self.shape
        c.bounds = self.bounds
        c.ns = list(self.ns)
        c.over = list(self.over)
        c.origin = self.origin or self
        return c

    def field(self, f, zi, v=None):
        """z3 expression of field f of element zi at version v"""
        import z3
        fn, kind = self.funcs[f]
        e = fn(zi)
        for idx, obj in self.over[:self.version if v is None else v]:
            e = z3.If(zi == idx, _field_z3(_at_path(obj, f), kind), e)
        return e

    def __repr__(self):
        return f"SymList({self.name}@{self.version})"


def _at_path(obj, path):
    """value of the (possibly nested) field `a.b.0` of a concrete element object"""
    cur = obj
    if not isinstance(obj, (SObj, tuple)):
        return obj            # a list of scalars: the element is the value
    for part in path.split('.'):
        if isinstance(cur, SObj):
            cur = cur.fields[part]
        elif isinstance(cur, tuple):
            cur = cur[int(part)]
        else:
            raise KeyError(path)
    return cur


def _field_z3(val, kind):
    import z3
    if kind == 'str':
        return str_z3(val)
    if kind == 'int':
        return to_zint(val)
    return val.z if isinstance(val, SBool) else z3.BoolVal(bool(val))


class ListView:
    """a SymList at one of its versions (what a fold ranges over)"""
    __slots__ = ('lst', 'v')

    def __init__(self, lst, v=None):
        self.lst = lst
        self.v = lst.version if v is None else v

    @property
    def n(self):
        return self.lst.ns[self.v]

    @property
    def name(self):
        return self.lst.name if self.v == 0 else f"{self.lst.name}@{self.v}"

    def field(self, f, zi):
        return self.lst.field(f, zi, self.v)


class StarSym(Sym):
    """*<list of symbolic length> in a call: becomes the callee's *args parameter as a whole"""
    __slots__ = ('lst',)

    def __init__(self, lst):
        self.lst = lst


class EnumSym(Sym):
    """enumerate(SymList)"""
    __slots__ = ('lst', 'start')

    def __init__(self, lst, start=0):
        self.lst = lst
        self.start = start


class ZipSym(Sym):
    """zip(<list of symbolic length>, ...): only meaningful to generator expressions"""
    __slots__ = ('lists',)

    def __init__(self, lists):
        self.lists = lists


class SliceSym(Sym):
    """L[a:b] of a list of symbolic length: a read-only window on a snapshot of L (offset `lo`, `n` elements, both z3
    ints, already normalised and clamped the way python does).  Meaningful to zip(), generator expressions, len() and
    loops with an invariant; anything else is Unsupported."""
    __slots__ = ('lst', 'lo', 'n')

    def __init__(self, lst, lo, n):
        self.lst = lst
        self.lo = lo
        self.n = n


class RevSym(Sym):
    """reversed(<list of symbolic length>): only meaningful to loops with an invariant"""
    __slots__ = ('lst',)

    def __init__(self, lst):
        self.lst = lst


class SymRange(Sym):
    """range(lo, hi) with symbolic bounds (step 1): only meaningful to generator expressions"""
    __slots__ = ('lo', 'hi')

    def __init__(self, lo, hi):
        self.lo = lo
        self.hi = hi


class MapSym(Sym):
    """generator expression over a list / range of symbolic length: element j yields the z3 expression `expr`
    (in which the bound index constant `j` occurs); kind is 'str' | 'int' | 'bool'"""
    __slots__ = ('src', 'j', 'expr', 'kind', 'lo', 'hi')

    def __init__(self, src, j, expr, kind, lo, hi):
        self.src = src          # ListView or None (range)
        self.j = j
        self.expr = expr
        self.kind = kind
        self.lo = lo
        self.hi = hi

    def at(self, zi):
        import z3
        return z3.substitute(self.expr, (self.j, zi))


class SFloat(Sym):
    """floats are not modelled; only their kind is known"""
    __slots__ = ('name',)

    def __init__(self, name):
        self.name = name


class SBytes(Sym):
    """bytes object known only as the utf-8 encoding of a (symbolic) string"""
    __slots__ = ('text',)

    def __init__(self, text):
        self.text = text

    def __repr__(self):
        return f"SBytes({self.text!r})"


def is_concrete(v):
    return not isinstance(v, Sym) and (not isinstance(v, tuple) or all(is_concrete(x) for x in v))


def to_zint(v):
    if isinstance(v, bool):
        return z3.IntVal(1 if v else 0)
    if isinstance(v, int):
        return z3.IntVal(v)
    if isinstance(v, SInt):
        return v.z
    if isinstance(v, SBool):
        return z3.If(v.z, z3.IntVal(1), z3.IntVal(0))
    raise TypeError(f"not an int: {v!r}")


def to_zbool(v):
    if isinstance(v, bool):
        return z3.BoolVal(v)
    if isinstance(v, SBool):
        return v.z
    raise TypeError(f"not a bool: {v!r}")


def mk_int(z):
    z = z3.simplify(z)
    if z3.is_int_value(z):
        return z.as_long()
    return SInt(z)


def mk_bool(z):
    z = z3.simplify(z)
    if z3.is_true(z):
        return True
    if z3.is_false(z):
        return False
    return SBool(z)


def is_intlike(v):
    return isinstance(v, (int, SInt, SBool))


def is_strlike(v):
    return isinstance(v, (str, SStr))
