"""Run the proof tier for a set of contracts: one task per (contract, kind combination),
in a process pool; aggregate instances into named obligations."""
import importlib
import multiprocessing as mp
import os
import sys
import time
import traceback

from .world import World, REPO
from . import libmodels, speclib


def build_world(contract_module_names, source_modules):
    w = World()
    for m in source_modules:
        w.add_source_module(m)
    w.add_source_module('pyvc.speclib')
    for m in contract_module_names:
        w.add_source_module(m)
    libmodels.register_all(w)
    for m in list(contract_module_names):
        cm = importlib.import_module(m)
        for em in getattr(cm, 'EXTERNAL_CONTRACTS', {}):
            if em not in contract_module_names:
                contract_module_names = list(contract_module_names) + [em]
                w.add_source_module(em)
    # spec functions imported from other contract modules are interpreted from their own source
    import types as _types
    for m in list(contract_module_names):
        cm = importlib.import_module(m)
        for v in list(vars(cm).values()):
            if isinstance(v, _types.FunctionType) and v.__module__.startswith('contracts.') \
                    and v.__module__ not in w.sources:
                w.add_source_module(v.__module__)
    for m in contract_module_names:
        cm = importlib.import_module(m)
        if hasattr(cm, 'lib_models'):
            for f, model in cm.lib_models().items():
                w.register_lib(f, model)
    return w


_G = {}


def _task(arg):
    ci, combo_i, mode = arg
    world, contracts, uses = _G['world'], _G['contracts'], _G['uses']
    c = contracts[ci]
    from .verify import verify_combo
    combos = list(c.kind_combinations())
    combo = combos[combo_i]
    by_name = {(k.module, k.qualname): k for k in contracts}
    use = {}
    if mode == 'modular':
        for qn in uses.get(c.name, []):
            for k in contracts:
                if k.name == qn:
                    if k.key in use:       # several contracts of one function: selected by argument kinds at the call
                        use[k.key] = (use[k.key] if isinstance(use[k.key], list) else [use[k.key]]) + [k]
                    else:
                        use[k.key] = k
    world.lemma_contracts = {k.name: k for k in contracts if k.kind == 'lemma'}
    try:
        r = verify_combo(world, c, combo, use, {})
    except Exception as e:
        r = {'label': ', '.join(f"{k}:{v!r}" for k, v in combo.items()), 'error': traceback.format_exc(),
             'instances': [], 'paths': 0, 'unsupported': [], 'assumed': [], 'raises': {}, 'returns': 0, 'cut': 0,
             'budget': None}
    r['contract'] = ci
    r['mode'] = mode
    return r


def run_contracts(world, contracts, uses, mode='modular', only=None, procs=None, combo_filter=None):
    """returns list of per-combo results.  combo_filter: substrings that the label of a kind
    combination must contain (used by canaries to keep them cheap)"""
    _G.update(world=world, contracts=contracts, uses=uses)
    tasks = []
    for ci, c in enumerate(contracts):
        if getattr(c, 'external', None):
            continue      # verified by its own property's check; only used at call sites here
        if only is not None and c.name not in only:
            continue
        for combo_i, combo in enumerate(c.kind_combinations()):
            if combo_filter:
                label = ', '.join(f"{k}:{v!r}" for k, v in combo.items())
                if not all(x in label for x in combo_filter):
                    continue
            tasks.append((ci, combo_i, mode))
    procs = procs or min(16, max(1, len(tasks)))
    if procs == 1 or os.environ.get('PYVC_SERIAL'):
        return [_task(t) for t in tasks]
    ctx = mp.get_context('fork')
    with ctx.Pool(procs) as pool:
        return pool.map(_task, tasks, chunksize=1)


def aggregate(contracts, results):
    """obligation id -> record"""
    obs = {}
    funcs = {}
    for r in results:
        c = contracts[r['contract']]
        fr = funcs.setdefault(c.name, {'paths': 0, 'combos': 0, 'unsupported': [], 'errors': [],
                                          'assumed': [], 'cut': 0, 'budget': None, 'returns': 0, 'raises': {}})
        fr['combos'] += 1
        fr['paths'] += r.get('paths', 0)
        fr['cut'] += r.get('cut', 0)
        fr['returns'] += r.get('returns', 0)
        for k, v in r.get('raises', {}).items():
            fr['raises'][k] = fr['raises'].get(k, 0) + v
        for u in r.get('unsupported', []):
            if u not in fr['unsupported']:
                fr['unsupported'].append(u)
        if r.get('error'):
            fr['errors'].append(r['error'])
        if r.get('budget'):
            fr['budget'] = r['budget']
        for a in r.get('assumed', []):
            if a not in fr['assumed']:
                fr['assumed'].append(a)
        for inst in r['instances']:
            oid = f"{c.prop}.{c.name}.{inst['clause']}"
            o = obs.setdefault(oid, {'id': oid, 'function': c.name, 'module': c.module,
                                     'clause': inst['clause'], 'kind': inst['kind'],
                                     'level': inst['info'].get('level', c.level),
                                     'instances': 0, 'unsat': 0, 'sat': 0, 'unknown': 0,
                                     'backends': {}, 'time_s': 0.0, 'witnesses': [], 'unknowns': []})
            o['instances'] += 1
            o[inst['result']] += 1
            o['backends'][inst['backend']] = o['backends'].get(inst['backend'], 0) + 1
            o['time_s'] = round(o['time_s'] + inst['time_s'], 4)
            if inst['result'] == 'sat' and len(o['witnesses']) < 5:
                o['witnesses'].append({'combo': inst['combo'], 'inputs': inst.get('inputs'),
                                       'info': inst['info'], 'outcome': inst.get('outcome'),
                                       'inputs_error': inst.get('inputs_error')})
            if inst['result'] == 'unknown' and len(o['unknowns']) < 5:
                o['unknowns'].append({'combo': inst['combo'], 'info': inst['info']})
    # expected clauses that produced no instance at all (vacuity)
    for c in contracts:
        if c.name not in funcs or getattr(c, 'external', None):
            continue
        for cl in c.ensures:
            oid = f"{c.prop}.{c.name}.{cl.name}"
            obs.setdefault(oid, {'id': oid, 'function': c.name, 'module': c.module, 'clause': cl.name,
                                 'kind': 'ensures', 'level': cl.level, 'instances': 0, 'unsat': 0, 'sat': 0,
                                 'unknown': 0, 'backends': {}, 'time_s': 0.0, 'witnesses': [], 'unknowns': []})
    for o in obs.values():
        fr = funcs[o['function']]
        if o['sat']:
            o['status'] = 'refuted'
        elif o['unknown'] or fr['unsupported'] or fr['errors'] or fr['budget']:
            o['status'] = 'undecided'
        elif o['instances'] == 0:
            o['status'] = 'vacuous'
        else:
            o['status'] = 'discharged'
    return obs, funcs
