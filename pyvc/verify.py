"""Verification of a contract against the real source: generate VCs on every path of every
kind combination and discharge them."""
import ast
import hashlib
import os
import re
import time
import traceback

import z3

from .values import *    # noqa
from .ops import *       # noqa
from .ops import PyRaise
from .explore import explore, Infeasible, PathBudget, VC
from .interp import Interp, FuncRef, Env, SExc, SGen, BoundMethod
from . import smt


_expr_cache = {}


def parse_expr(src):
    if src not in _expr_cache:
        _expr_cache[src] = ast.parse(src.strip(), mode='eval').body
    return _expr_cache[src]


def deep_copy(v, memo=None):
    if memo is None:
        memo = {}
    if isinstance(v, tuple):
        return tuple(deep_copy(x, memo) for x in v)
    if isinstance(v, SymList):
        if id(v) not in memo:
            memo[id(v)] = v.snapshot()
        return memo[id(v)]
    if isinstance(v, (SList, SDict, SObj, SSet)):
        if id(v) in memo:
            return memo[id(v)]
        if isinstance(v, SList):
            c = SList([], v.tag)
            c.origin = v.origin or v
            memo[id(v)] = c
            c.items = [deep_copy(x, memo) for x in v.items]
        elif isinstance(v, SDict):
            c = SDict({}, v.tag)
            c.origin = v.origin or v
            memo[id(v)] = c
            c.d = {k: deep_copy(x, memo) for k, x in v.d.items()}
        elif isinstance(v, SSet):
            c = SSet([deep_copy(x, memo) for x in v.items])
            memo[id(v)] = c
        else:
            c = SObj(v.cls, {}, v.tag)
            c.origin = v.origin or v
            memo[id(v)] = c
            c.fields = {k: deep_copy(x, memo) for k, x in v.fields.items()}
        return c
    return v


def concretize(v, model, memo=None):
    """interpreter value -> JSON-able python value under a z3 model"""
    if memo is None:
        memo = {}

    def ev(z):
        return model.eval(z, model_completion=True)
    if v is None or isinstance(v, (bool, int, float, str)):
        return v
    if isinstance(v, bytes):
        return {'__bytes__': v.decode('latin1')}
    if isinstance(v, SInt):
        return ev(v.z).as_long()
    if isinstance(v, SBool):
        return z3.is_true(ev(v.z))
    if isinstance(v, SStr):
        out = []
        for p in v.parts:
            if isinstance(p, str):
                out.append(p)
            elif isinstance(p, Ch):
                out.append(chr(ev(p.code).as_long()))
            else:
                from .values import _unescape_z3
                out.append(_unescape_z3(ev(p.z).as_string()))
        return ''.join(out)
    if isinstance(v, tuple):
        return {'__tuple__': [concretize(x, model, memo) for x in v]}
    if isinstance(v, SList):
        return [concretize(x, model, memo) for x in v.items]
    if isinstance(v, SSet):
        return {'__set__': [concretize(x, model, memo) for x in v.items]}
    if isinstance(v, SDict):
        return {'__dict__': [[concretize(k, model, memo), concretize(x, model, memo)] for k, x in v.d.items()]}
    if isinstance(v, SObj):
        if id(v) in memo:
            return {'__ref__': memo[id(v)]}        # shared / cyclic object: refer to the first occurrence
        memo[id(v)] = len(memo) + 1
        out = {'__class__': f"{v.cls.__module__}:{v.cls.__qualname__}", '__id__': memo[id(v)], 'fields': {}}
        for k, x in v.fields.items():
            out['fields'][k] = concretize(x, model, memo)
        return out
    if isinstance(v, SymList):
        n = min(ev(v.n).as_long(), 64)
        items = []
        for i in range(n):
            fields = {}
            for f, (fn, kind) in v.funcs.items():
                val = ev(v.field(f, z3.IntVal(i)))
                if kind == 'str':
                    from .values import _unescape_z3
                    fields[f] = _unescape_z3(val.as_string())
                elif kind == 'int':
                    fields[f] = val.as_long()
                else:
                    fields[f] = z3.is_true(val)
            memo[('symlist', v.name, i)] = len(memo) + 1
            items.append({'__class__': f"{v.cls.__module__}:{v.cls.__qualname__}", '__id__': memo[('symlist', v.name, i)],
                          'fields': fields})
        return items
    if isinstance(v, SeqPart):
        n = ev(v.n).as_long()
        return {'__segment__': v.name, 'n': n}
    if isinstance(v, SymColl):
        n = ev(v.part.n).as_long()
        return {'__coll__': v.pytype.__name__, 'name': v.part.name, 'n': n}
    if isinstance(v, SOpaque):
        t = v.truth
        return {'__opaque__': v.name, 'truth': (z3.is_true(ev(t)) if t is not None and not isinstance(t, bool) else t)}
    if isinstance(v, SFloat):
        return 1.5
    if isinstance(v, SBytes):
        return {'__bytes_of__': concretize(v.text, model, memo)}
    if isinstance(v, type):
        return {'__type__': f"{v.__module__}:{v.__qualname__}"}
    return {'__repr__': repr(v)}


def sliced_node(world, c, node):
    """mechanical prefix extraction: the body up to (excluding) the first top-level statement whose
    source contains c.body_slice['stop_before'], followed by `return <result expression>`"""
    import copy
    sm = world.sources[c.module]
    if 'start_at' in c.body_slice or 'start_after' in c.body_slice:
        # suffix extraction: from the first top-level statement whose source contains the marker (start_at), or
        # from the statement following the LAST one that contains it (start_after), to the end; the locals the
        # suffix reads become the parameters of the extracted function
        start = c.body_slice.get('start_at') or c.body_slice['start_after']
        new = copy.copy(node)
        idx = None
        for i, st in enumerate(node.body):
            if start in sm.segment(st):
                idx = i
                if 'start_at' in c.body_slice:
                    break
        if idx is not None and 'start_after' in c.body_slice:
            idx += 1
        if idx is None:
            raise Unsupported(f"slice marker {start!r} not found in {c.qualname}")
        new.body = list(node.body[idx:])
        new.args = ast.arguments(posonlyargs=[], args=[ast.arg(arg=a) for a in c.body_slice['args']], vararg=None,
                                 kwonlyargs=[], kw_defaults=[], kwarg=None, defaults=[])
        ast.fix_missing_locations(new)
        return new
    stop = c.body_slice['stop_before']
    new = copy.copy(node)
    body = []
    found = None
    for st in node.body:
        if stop in sm.segment(st):
            found = st
            break
        body.append(st)
    if found is None:
        raise Unsupported(f"slice marker {stop!r} not found in {c.qualname}")
    from .runtime import slice_result_expr
    try:
        ret = ast.Return(value=slice_result_expr(c.body_slice, found, node))
    except ValueError as e:
        raise Unsupported(str(e))
    ast.copy_location(ret, node.body[-1])
    ast.fix_missing_locations(ret)
    new.body = body + [ret]
    return new


def target_funcref(world, c):
    sm = world.sources[c.module]
    node = sm.index[c.qualname]
    if c.body_slice:
        node = sliced_node(world, c, node)
    cls = None
    if '.' in c.qualname:
        obj = sm.pymod
        for part in c.qualname.rsplit('.', 1)[0].split('.'):
            obj = getattr(obj, part)
        cls = obj
    return FuncRef(node, c.module, c.qualname, cls=cls, pyglobals=sm.pymod.__dict__)


def call_with_params(I, f, args):
    a = f.node.args
    pos = []
    for p in a.posonlyargs + a.args:
        if p.arg in args:
            pos.append(args[p.arg])
        else:
            break
    kw = {}
    names = [p.arg for p in a.posonlyargs + a.args]
    for n in names[len(pos):]:
        if n in args:
            kw[n] = args[n]
    if a.vararg and a.vararg.arg in args:
        if isinstance(args[a.vararg.arg], SymList):
            pos.append(StarSym(args[a.vararg.arg]))
        else:
            pos.extend(I.iterate(args[a.vararg.arg]))
    for p in a.kwonlyargs:
        if p.arg in args:
            kw[p.arg] = args[p.arg]
    if a.kwarg and a.kwarg.arg in args:
        kw.update(args[a.kwarg.arg].d)
    return I.call_funcref(f, pos, kw)


def eval_clause(I, src, env, assumed=False):
    """truth of a clause: bool / z3 Bool; a python exception inside a clause that is to be PROVED makes it False;
    inside a clause that is ASSUMED (pre-condition, callee post-condition, loop invariant) it is a defect of the
    specification and stops the analysis of the path (never a silently false assumption)"""
    I.spec_depth += 1
    try:
        return I.truth(I.eval(parse_expr(src), env))
    except PyRaise as e:
        I.st.notes.setdefault('clause_exceptions', []).append(f"{src[:60]}: {e.exc_type.__name__} (line {e.lineno})")
        if e.exc_type is NameError:
            # the clause names something that does not exist here (a local renamed by a refactoring, an invariant
            # attached to another loop): a defect of the contract, never a verdict about the code
            raise Unsupported(f"clause refers to a name that is not defined at this point: {src[:80]}")
        if assumed:
            raise Unsupported(f"assumed clause raises {e.exc_type.__name__}: {src[:80]}")
        return False
    finally:
        I.spec_depth -= 1


def frame_equal(I, a, b, seen=None):
    """deep equality of an argument before/after (heap objects compared field-wise; cyclic
    object graphs are followed once)"""
    if seen is None:
        seen = set()
    if a is b:
        return True          # the very same (immutable) value object
    if isinstance(a, (SObj, SList, SDict)):
        key = (id(a), id(b))
        if key in seen:
            return True
        seen.add(key)
    if isinstance(a, SymList) and isinstance(b, SymList):
        # same list object, no write since the snapshot (a later write is reported as a change)
        return (a.origin or a) is (b.origin or b) and a.version == b.version
    if isinstance(a, SObj) and isinstance(b, SObj):
        if set(a.fields) != set(b.fields):
            return False
        return zand(*[frame_equal(I, a.fields[k], b.fields[k], seen) for k in a.fields])
    if isinstance(a, SList) and isinstance(b, SList):
        if len(a.items) != len(b.items):
            return False
        return zand(*[frame_equal(I, x, y, seen) for x, y in zip(a.items, b.items)])
    if isinstance(a, tuple) and isinstance(b, tuple):
        if len(a) != len(b):
            return False
        return zand(*[frame_equal(I, x, y, seen) for x, y in zip(a, b)])
    if isinstance(a, SDict) and isinstance(b, SDict):
        if list(a.d.keys()) != list(b.d.keys()):
            return False
        return zand(*[frame_equal(I, a.d[k], b.d[k], seen) for k in a.d])
    if isinstance(a, (SOpaque, SeqPart)) or isinstance(b, (SOpaque, SeqPart)):
        return a is b
    if kind_of(a) != kind_of(b):
        return False
    return values_eq(I.st, a, b)


def make_run(world, c, combo, use_contracts, spec_builtins):
    f = target_funcref(world, c)
    unwind = {(c.qualname, k): n for k, n in c.unwind.items()}
    used = [k for v in use_contracts.values() for k in (v if isinstance(v, list) else [v])]
    for oc in used:
        for k, n in oc.unwind.items():
            unwind.setdefault((oc.qualname, k), n)
    invs = {(c.qualname, k): v for k, v in c.invariants.items()}
    models = dict(c.symlist_models)
    for oc in used:
        for k, v in oc.symlist_models.items():
            models.setdefault(k, v)

    def run(st):
        config = {'spec_builtins': spec_builtins, 'invariants': invs, 'watch_attrs': set(c.watch_attrs),
                  'spec_modules': tuple(m for m in world.sources if m.startswith('contracts.') or m == 'pyvc.speclib')}
        if models:
            from . import folds
            folds.install(config, models)
        I = Interp(world, st, use_contracts=use_contracts, unwind=unwind, top=c.key, config=config)
        args = {}
        for name, spec in combo.items():
            args[name] = spec.make(I, name)
        for name, spec in combo.items():
            if type(spec).__name__ == 'SameAsT':
                args[name] = args[spec.ref]
        for name, spec in combo.items():
            if type(spec).__name__ == 'DerivedT':
                args[name] = spec.fn(I, args)
        fparams = {a.arg for a in ast.walk(f.node.args) if isinstance(a, ast.arg)}
        config['ghosts'] = {k: v for k, v in args.items() if k not in fparams}     # specification-only parameters
        memo = {}
        old = {k: deep_copy(v, memo) for k, v in args.items()}
        st.notes['inputs'] = old
        genv = dict(c.spec_globals)
        env = Env(dict(args), pyglobals=genv)
        config['old_env'] = Env(dict(old), pyglobals=genv)
        for r in c.requires:
            t = eval_clause(I, r, env, assumed=True)
            st.assume(t)
        if st.check() == z3.unsat:
            raise Infeasible()
        for lname, binding in c.lemmas:
            lc = world.lemma_contracts.get(lname) if hasattr(world, 'lemma_contracts') else None
            if lc is None:
                raise Unsupported(f"lemma {lname} is not among the loaded contracts")
            lenv = Env({k: I.eval(parse_expr(v), env) for k, v in binding.items()}, pyglobals=dict(lc.spec_globals))
            pre = zand(*[eval_clause(I, r, lenv, assumed=True) for r in lc.requires])
            lenv.vars['result'] = True
            post = zand(*[eval_clause(I, cl.expr, lenv, assumed=True) for cl in lc.ensures])
            fact = zor(znot(pre), post) if not isinstance(pre, bool) else (post if pre else True)
            st.assume(fact, lazy=True)
            note = f"lemma {lname} (a contract of kind 'lemma', proved by its own obligations in the same run) is used as a fact"
            if note not in st.assumed:
                st.assumed.append(note)
        st.notes['pre_ok'] = True
        n_pre_vcs = len(st.vcs)
        try:
            result = call_with_params(I, f, args)
            outcome = ('return', result)
        except PyRaise as e:
            outcome = ('raise', e.exc_type, e.lineno)
        except _PathEnd:
            return ('pathend', None)
        post = Env(dict(args), pyglobals=genv)
        if outcome[0] == 'return':
            post.vars['result'] = outcome[1]
            for cl in c.ensures:
                t = eval_clause(I, cl.expr, post)
                st.add_vc(cl.name, 'ensures', t, {'level': cl.level})
            for nm, fn in c.event_clauses.items():
                try:
                    import inspect as _insp
                    if len(_insp.signature(fn).parameters) >= 3:
                        ok = bool(fn(list(st.events), dict(args), outcome[1]))      # (events, arguments, result)
                    else:
                        ok = bool(fn(list(st.events)))
                except Exception:      # noqa
                    ok = False
                st.add_vc(nm, 'events', ok, {'level': c.level, 'events': [list(map(str, e)) for e in st.events][:40]})
            if c.modifies is not None:
                for name in args:
                    if name in c.modifies:
                        continue
                    # (an argument that is the very object passed for another parameter shares its frame)
                    fields = [m.split('.', 1)[1] for m in c.modifies
                              if '.' in m and m.split('.', 1)[0] in args and args[m.split('.', 1)[0]] is args[name]]
                    if fields and isinstance(args[name], SObj) and isinstance(old[name], SObj):
                        # the listed fields may change, every other field of the object may not
                        a, b = old[name], args[name]
                        same = zand(set(a.fields) - set(fields) == set(b.fields) - set(fields),
                                    *[frame_equal(I, a.fields[k], b.fields[k], set()) for k in a.fields
                                      if k not in fields and k in b.fields])
                        st.add_vc(f"frame.{name}", 'frame', same, {'level': c.level, 'except': fields})
                    else:
                        st.add_vc(f"frame.{name}", 'frame', frame_equal(I, old[name], args[name]),
                                  {'level': c.level})
        else:
            exc = outcome[1]
            matched = False
            for cl in c.raises:
                if any(issubclass(exc, k) for k in cl.exc):
                    matched = True
                    t = True if cl.when is None else eval_clause(I, cl.when, config['old_env'])
                    st.add_vc(cl.name, 'raises', t, {'level': cl.level, 'exc': exc.__name__,
                                                     'line': outcome[2]})
            if not matched:
                # an exception type no clause lists: charged to the first raises clause
                # ("raises only ...") or, without any, to the clause 'no_exception'
                nm = c.raises[0].name if c.raises else 'no_exception' 
                st.add_vc(nm, 'raises', False, {'level': c.level, 'exc': exc.__name__, 'line': outcome[2]})
        return (outcome[0], outcome[1].__name__ if outcome[0] == 'raise' else None)
    return run


def verify_combo(world, c, combo, use_contracts, spec_builtins):
    """returns (instances, path summary) for one kind combination"""
    label = ', '.join(f"{k}:{v!r}" for k, v in combo.items())
    run = make_run(world, c, combo, use_contracts, spec_builtins)
    t0 = time.time()
    out = {'label': label, 'paths': 0, 'returns': 0, 'raises': {}, 'unsupported': [], 'cut': 0,
           'instances': [], 'assumed': [], 'budget': None}
    try:
        results = explore(run, max_paths=c.max_paths)
    except PathBudget as e:
        out['budget'] = str(e)
        return out
    seen = set()
    first_only = bool(os.environ.get('PYVC_CANARY_FIRST'))
    # a changed function can leave many obligations undecided, each costing the full solver budget: once this kind
    # combination has spent its allowance on obligations that were NOT proved, the remaining ones get short budgets
    # (they can still be proved or refuted quickly; the contract is undecided or refuted already)
    allowance = 600.0 if os.environ.get('VERIF_TIER') == 'thorough' else 45.0
    spent_unproved = 0.0
    smt.SHORT[0] = False
    for st, outcome in results:
        if first_only and any(i['result'] != 'unsat' for i in out['instances']):
            break
        out['paths'] += 1
        for a in st.assumed:
            if a not in out['assumed']:
                out['assumed'].append(a)
        if outcome[0] == 'unsupported':
            if outcome[1] not in out['unsupported']:
                out['unsupported'].append(outcome[1])
            continue
        if outcome[0] == 'cut':
            out['cut'] += 1
            continue
        if outcome[0] == 'return':
            out['returns'] += 1
        elif outcome[0] == 'pathend':
            out['loop_step_paths'] = out.get('loop_step_paths', 0) + 1
        else:
            out['raises'][outcome[1]] = out['raises'].get(outcome[1], 0) + 1
        for vc in st.vcs:
            goal = vc.goal
            key = (vc.name, hashlib.sha1(('|'.join(p.sexpr() for p in vc.pc) + '=>' +
                                          (goal.sexpr() if not isinstance(goal, bool) else str(goal))).encode()).hexdigest())
            if key in seen:
                continue
            seen.add(key)
            r = smt.discharge(vc.pc, goal)
            if r['result'] != 'unsat':
                spent_unproved += r['time_s']
                if spent_unproved > allowance:
                    smt.SHORT[0] = True
            inst = {'clause': vc.name, 'kind': vc.kind, 'combo': label, 'result': r['result'],
                    'backend': r['backend'], 'time_s': round(r['time_s'], 4), 'info': vc.info}
            if r['result'] == 'sat':
                m = r.get('model')
                if m is not None:
                    try:
                        cmemo = {}
                        inst['inputs'] = {k: concretize(v, m, cmemo) for k, v in st.notes['inputs'].items()}
                    except Exception as e:       # model extraction must never turn into a verdict
                        inst['inputs_error'] = repr(e)
                inst['outcome'] = outcome
            out['instances'].append(inst)
            if first_only and inst['result'] != 'unsat':
                break
    smt.SHORT[0] = False
    out['time_s'] = round(time.time() - t0, 3)
    return out


def _poison(v, why):
    """a location is havocked by giving it a NEW list value; the old list OBJECT may have been changed in place by the
    code that was abstracted, so whoever still holds it (an alias, a loop iterating it) must not look at it any more"""
    if isinstance(v, SymList):
        v.poisoned = why


def apply_contract_at_call(I, c, f, args, kwargs, node, also=()):
    """modular call: the callee is represented by its contract, not its body"""
    st = I.st
    bound = I.bind_args(f, args, kwargs)
    unbound_ghosts = []
    for gname, gspec in c.params.items():
        if gname not in bound:
            # specification-only (ghost) parameter of the callee: the caller's ghost of the same name; without one the
            # clauses about it say nothing the caller could use and are left out
            gv = I.config.get('ghosts', {}).get(gname)
            if gv is not None:
                bound[gname] = gv
            else:
                unbound_ghosts.append(gname)
    genv = dict(c.spec_globals)
    env = Env(dict(bound), pyglobals=genv)
    saved_old = I.config.get('old_env')
    memo = {}
    I.config['old_env'] = Env({k: deep_copy(v, memo) for k, v in bound.items()}, pyglobals=genv)
    try:
        for i, r in enumerate(c.requires):
            t = eval_clause(I, r, env)
            st.add_vc(f"pre[{c.name}].{i}", 'pre', t, {'level': 'top', 'callee': c.name,
                                                        'line': getattr(node, 'lineno', None)})
            st.assume(t)
        # effects: every location listed in `modifies` is havocked (fresh value of the declared kind);
        # the post-condition then relates the new values to old(...)
        for path in (c.modifies or []):
            spec = (c.havoc or {}).get(path)
            if spec is None or '.' not in path:
                raise Unsupported(f"call-site use of contract {c.name}: no havoc spec for modified location {path}")
            pname, field = path.split('.', 1)
            obj = bound.get(pname)
            if not isinstance(obj, SObj):
                raise Unsupported(f"call-site use of contract {c.name}: {pname} is not an object")
            _poison(obj.fields.get(field), f"the call of {c.qualname} may have changed it in place")
            obj.fields[field] = spec.make(I, st.fresh_name('havoc_' + field))
        for exc, when in (c.call_raises or []):
            if when == 'MAY':
                t = st.fresh_bool('may_raise')      # the callee may or may not raise
            else:
                t = True if when is None else eval_clause(I, when, env)
            if I.branch(t):
                raise PyRaise(exc, lineno=getattr(node, 'lineno', None))
        if c.result_spec is None:
            raise Unsupported(f"contract {c.qualname} has no result spec for call-site use")
        rs = c.result_spec
        if callable(rs) and not hasattr(rs, 'make'):
            rs = rs(bound)
        res = rs.make(I, st.fresh_name('ret_' + c.qualname.replace('.', '_')))
        env.vars['result'] = res
        for cl in c.ensures:
            if any(re.search(r'\b' + re.escape(g) + r'\b', cl.expr) for g in unbound_ghosts):
                continue
            # kept out of the feasibility solver (definitional facts about the result; feasibility
            # is over-approximated, every VC still carries them)
            st.assume(eval_clause(I, cl.expr, env, assumed=True), lazy=not c.eager_ensures)
        for c2 in also:
            if set(c2.modifies or []) - set(c.modifies or []):
                raise Unsupported(f"contracts {c.name} and {c2.name} of one function disagree on what it modifies")
            b2 = dict(bound)
            skip2 = []
            for gname in c2.params:
                if gname not in b2:
                    gv = I.config.get('ghosts', {}).get(gname)
                    if gv is not None:
                        b2[gname] = gv
                    else:
                        skip2.append(gname)
            env2 = Env(dict(b2), pyglobals=dict(c2.spec_globals))
            saved = I.config['old_env']
            I.config['old_env'] = Env(dict(I.config['old_env'].vars, **{k: v for k, v in b2.items()
                                                                        if k not in I.config['old_env'].vars}),
                                      pyglobals=dict(c2.spec_globals))
            try:
                # (pre-conditions of the additional contract are evaluated on the state after the call only when the
                # call modifies nothing; otherwise they must be the same as the first contract's)
                if c2.requires != c.requires:
                    if c.modifies:
                        raise Unsupported(f"contracts {c.name} and {c2.name}: different pre-conditions on a mutating function")
                    for i, r in enumerate(c2.requires):
                        t = eval_clause(I, r, env2)
                        st.add_vc(f"pre[{c2.name}].{i}", 'pre', t, {'level': 'top', 'callee': c2.name,
                                                                     'line': getattr(node, 'lineno', None)})
                        st.assume(t)
                env2.vars['result'] = res
                for cl in c2.ensures:
                    if any(re.search(r'\b' + re.escape(g) + r'\b', cl.expr) for g in skip2):
                        continue
                    st.assume(eval_clause(I, cl.expr, env2, assumed=True), lazy=not c2.eager_ensures)
            finally:
                I.config['old_env'] = saved
            st.events.append(('call', c2.name, dict(b2), res))
        st.events.append(('call', c.name, dict(bound), res))
        return res
    finally:
        I.config['old_env'] = saved_old


class _PathEnd(Exception):
    """this path ends here (its continuation is covered by another path): no outcome, no post-condition"""


def _assigned_names(body):
    out = []
    for n in ast.walk(ast.Module(body=body, type_ignores=[])):
        if isinstance(n, ast.Name) and isinstance(n.ctx, ast.Store) and n.id not in out:
            out.append(n.id)
    return out


def _loop_inv_truth(I, env, clause):
    def inv_truth(i_val=None, assumed=False):
        extra = dict(I.config.get('ghosts', {}))
        if i_val is not None:
            extra['__i'] = i_val
        e = Env(extra, parent=env, pyglobals=I.config['old_env'].pyglobals)
        return eval_clause(I, clause, e, assumed=assumed)
    return inv_truth


def _loop_havoc(I, body, env, inv, skip=()):
    """everything an iteration may change gets an arbitrary value of its kind: locals assigned in the body, locals
    named in inv['havoc'] (name -> kind; needed for lists / objects the body mutates), heap locations named in
    inv['modifies'] ('local.field' -> kind).  The declarations are checked by the frame obligation of the body."""
    st = I.st
    specs = inv.get('havoc', {})
    # names re-bound in the body that provably keep denoting the same object (x += y with __iadd__ returning x):
    # not havocked; the claim is the obligation loop<k>.same_object.<name>
    same = set(inv.get('same_object', ()))
    modified = [n for n in _assigned_names(body) if n not in skip and n not in same]
    for n in specs:
        if n not in modified:
            modified.append(n)
    for name in modified:
        ok, cur = env.lookup(name)
        if not ok:
            continue        # first assigned inside the loop: no value flows in
        if name in specs:
            env.vars[name] = specs[name].make(I, st.fresh_name('hv_' + name))
        elif is_intlike(cur) and not isinstance(cur, (bool, SBool)):
            env.vars[name] = SInt(st.fresh_int('hv_' + name))
        elif isinstance(cur, (bool, SBool)):
            env.vars[name] = SBool(st.fresh_bool('hv_' + name))
        elif is_strlike(cur):
            env.vars[name] = SStr([Sq(st.fresh_str('hv_' + name))])
        else:
            raise Unsupported(f"loop invariant: local '{name}' of kind {kind_of(cur)} changes in the loop; "
                              f"its kind must be declared in the invariant's 'havoc'")
    heap_mod = inv.get('modifies', {})
    for path, spec in heap_mod.items():
        oname, field = path.split('.', 1)
        ok, obj = env.lookup(oname)
        if not ok or not isinstance(obj, SObj):
            raise Unsupported(f"loop invariant: modified location {path} is not a field of a local object")
        _poison(obj.fields.get(field), "the loop body may change it in place")
        obj.fields[field] = spec.make(I, st.fresh_name('hv_' + field))
    return modified, heap_mod


def _loop_snapshot(env):
    visible = {}
    e = env
    while e is not None:
        for nm, val in e.vars.items():
            visible.setdefault(nm, val)
        e = e.parent
    memo = {}
    return visible, {nm: deep_copy(val, memo) for nm, val in visible.items()}


def _loop_frame_vcs(I, env, visible, before, modified, heap_mod, k, qn, node, same_object=()):
    st = I.st
    for nm in same_object:
        ok, val = env.lookup(nm)
        st.add_vc(f"loop{k}.same_object.{nm}", 'frame', bool(ok and nm in visible and identical(visible[nm], val) is True),
                  {'level': 'sup', 'function': qn, 'line': node.lineno})
    for nm, old_val in before.items():
        if nm in modified:
            continue
        ok, val = env.lookup(nm)
        if not ok:
            continue
        fields = [m.split('.', 1)[1] for m in heap_mod
                  if env.lookup(m.split('.', 1)[0])[1] is val]        # the owner itself or an alias of it
        a, b = old_val, val
        if fields and isinstance(a, SObj) and isinstance(b, SObj):
            same = zand(set(a.fields) - set(fields) == set(b.fields) - set(fields),
                        *[frame_equal(I, a.fields[f2], b.fields[f2], set()) for f2 in a.fields
                          if f2 not in fields and f2 in b.fields])
        else:
            same = frame_equal(I, a, b)
        if same is not True:
            st.add_vc(f"loop{k}.frame.{nm}", 'frame', same, {'level': 'sup', 'function': qn, 'line': node.lineno,
                                                              'except': fields})
    st.add_vc(f"loop{k}.frame", 'frame', True, {'level': 'sup', 'function': qn, 'line': node.lineno})


def exec_loop_with_invariant(I, node, env, inv, qn, k):
    """`while <test>` verified with an inductive invariant (partial correctness: termination is not an obligation).
    Obligations: loop<k>.inv_entry, loop<k>.inv_preserved, loop<k>.frame*; the code behind the loop runs from an
    arbitrary state with invariant and not test (or from the state of a `break`)."""
    from .interp import _Break, _Continue
    st = I.st
    note = "termination of loops verified with an invariant is not an obligation (partial correctness)"
    if note not in st.assumed:
        st.assumed.append(note)
    inv_truth = _loop_inv_truth(I, env, inv['inv'])
    st.add_vc(f"loop{k}.inv_entry", 'invariant', inv_truth(), {'level': 'sup', 'function': qn, 'line': node.lineno})
    modified, heap_mod = _loop_havoc(I, node.body, env, inv)
    st.assume(inv_truth(assumed=True))
    c = I.truth(I.eval(node.test, env))
    if I.branch(c):
        visible, before = _loop_snapshot(env)
        try:
            I.exec_block(node.body, env)
        except _Continue:
            pass
        except _Break:
            return
        st.add_vc(f"loop{k}.inv_preserved", 'invariant', inv_truth(), {'level': 'sup', 'function': qn, 'line': node.lineno})
        _loop_frame_vcs(I, env, visible, before, modified, heap_mod, k, qn, node, inv.get('same_object', ()))
        raise _PathEnd()
    I.exec_block(node.orelse, env)


def _exec_for_range_with_invariant(I, node, env, inv, qn, k, rng):
    """`for i in range(lo, hi)` with symbolic bounds under an invariant over the loop variable's next value `__i`
    (__i = lo at entry, hi at exit; an empty range leaves the state untouched)"""
    from .interp import _Break, _Continue
    st = I.st
    if not isinstance(node.target, ast.Name):
        raise Unsupported("range loop with an invariant: target must be a name")
    tname = node.target.id
    inv_truth = _loop_inv_truth(I, env, inv['inv'])
    lo = rng.lo
    hi = z3.If(rng.hi < rng.lo, rng.lo, rng.hi)
    st.add_vc(f"loop{k}.inv_entry", 'invariant', inv_truth(SInt(lo)), {'level': 'sup', 'function': qn, 'line': node.lineno})
    modified, heap_mod = _loop_havoc(I, node.body, env, inv, skip=[tname])
    zi = st.fresh_int('it')
    st.assume(zi >= lo)
    in_loop = st.fresh_bool('in_loop')
    if I.branch(in_loop):
        st.assume(zi < hi)
        st.assume(inv_truth(SInt(zi), assumed=True))
        visible, before = _loop_snapshot(env)
        env.vars[tname] = SInt(zi)
        try:
            I.exec_block(node.body, env)
        except _Continue:
            pass
        except _Break:
            return
        st.add_vc(f"loop{k}.inv_preserved", 'invariant', inv_truth(mk_int(zi + 1)),
                  {'level': 'sup', 'function': qn, 'line': node.lineno})
        _loop_frame_vcs(I, env, visible, before, modified + [tname], heap_mod, k, qn, node, inv.get('same_object', ()))
        raise _PathEnd()
    st.assume(zi == hi)
    st.assume(inv_truth(SInt(zi), assumed=True))
    I.exec_block(node.orelse, env)


def exec_for_with_invariant(I, node, env, inv, qn, k):
    """`for <target> in <list of symbolic length>` verified with an inductive invariant.
    inv = {'inv': expression over the locals and the index `__i` (number of completed iterations), ...}
    Obligations:  loop<k>.inv_entry  (holds for __i = 0),  loop<k>.inv_preserved  (one arbitrary iteration),
    loop<k>.frame*;  the code after the loop is executed from an arbitrary state satisfying the invariant with
    __i = len."""
    from .interp import _Break, _Continue
    from . import models
    st = I.st
    itv = I.eval(node.iter, env)
    rev = False
    if isinstance(itv, EnumSym):
        L, start, enum = itv.lst, itv.start, True
    elif isinstance(itv, SymList):
        L, start, enum = itv, 0, False
    elif isinstance(itv, RevSym):
        L, start, enum, rev = itv.lst, 0, False, True
    elif isinstance(itv, SliceSym):
        L, start, enum = itv.lst, 0, False
        off, count = itv.lo, itv.n
    elif isinstance(itv, SymRange):
        return _exec_for_range_with_invariant(I, node, env, inv, qn, k, itv)
    else:
        raise Unsupported("loop invariant on a loop over a concrete-length container")
    if not isinstance(itv, SliceSym):
        off, count = z3.IntVal(0), L.n
    inv_truth = _loop_inv_truth(I, env, inv['inv'])
    st.add_vc(f"loop{k}.inv_entry", 'invariant', inv_truth(0), {'level': 'sup', 'function': qn, 'line': node.lineno})
    tnames = [n.id for n in ast.walk(node.target) if isinstance(n, ast.Name)]
    modified_before = [nm for nm in tnames if not env.lookup(nm)[0]]      # loop variables unbound before the loop
    modified, heap_mod = _loop_havoc(I, node.body, env, inv, skip=tnames)
    zi = st.fresh_int('it')
    st.assume(zi >= 0)
    in_loop = st.fresh_bool('in_loop')
    if I.branch(in_loop):
        # an arbitrary iteration
        st.assume(zi < count)
        st.assume(inv_truth(SInt(zi), assumed=True))
        visible, before = _loop_snapshot(env)
        elem = models.symlist_elem(I, L, z3.simplify(L.n - 1 - zi) if rev else z3.simplify(off + zi))
        I.assign(node.target, (mk_int(zi + start), elem) if enum else elem, env)
        try:
            I.exec_block(node.body, env)
        except _Continue:
            pass
        except _Break:
            return          # leaves the loop: the code behind it runs from the current state
        st.add_vc(f"loop{k}.inv_preserved", 'invariant', inv_truth(mk_int(zi + 1)),
                  {'level': 'sup', 'function': qn, 'line': node.lineno})
        _loop_frame_vcs(I, env, visible, before, modified + tnames, heap_mod, k, qn, node, inv.get('same_object', ()))
        raise _PathEnd()
    # loop finished: all iterations done
    st.assume(zi == count)
    st.assume(inv_truth(SInt(zi), assumed=True))
    # Python leaves the loop variable bound to the last element; when the function reads it outside the loop the
    # exit state must say so (else a made-up NameError, or a stale value, would follow)
    fnode = env.func.node if env.func is not None else None
    if fnode is not None:
        inside = {id(n) for n in ast.walk(node)}
        used_outside = any(isinstance(n, ast.Name) and n.id in tnames and isinstance(n.ctx, ast.Load) and id(n) not in inside
                           for n in ast.walk(fnode))
        if used_outside:
            if I.branch(count > 0):
                last = models.symlist_elem(I, L, z3.IntVal(0) if rev else z3.simplify(off + count - 1))
                I.assign(node.target, (mk_int(count - 1 + start), last) if enum else last, env)
            else:
                for nm in tnames:
                    if nm in modified_before:
                        env.vars.pop(nm, None)
    I.exec_block(node.orelse, env)
