"""Path exploration by re-execution with a decision prefix.

Every path is executed from the beginning with a list of branch decisions to replay;
at the first symbolic branch behind the prefix both sides are tested for feasibility and
the untaken feasible side is queued.  Re-execution keeps the interpreter a plain recursive
evaluator with an ordinary mutable heap (no state copying).
"""
import z3

from .values import Unsupported


class Infeasible(Exception):
    """path condition became unsatisfiable (dead path)"""


class PathBudget(Exception):
    pass


class VC:
    """one verification condition:  assumptions => goal"""
    __slots__ = ('name', 'kind', 'pc', 'goal', 'info')

    def __init__(self, name, kind, pc, goal, info=None):
        self.name = name
        self.kind = kind        # 'ensures' | 'raises' | 'pre' | 'unwind' | 'invariant' | ...
        self.pc = list(pc)
        self.goal = goal        # z3 Bool, or python bool
        self.info = info or {}


QUANTIFIERS_IN_USE = [False]      # set by the only producers of quantified formulas (pyvc.folds.forall / exists)


def _has_quantifier(e):
    if not QUANTIFIERS_IN_USE[0]:
        return False
    seen = set()
    todo = [e]
    while todo:
        x = todo.pop()
        if z3.is_quantifier(x):
            return True
        k = x.get_id()
        if k in seen:
            continue
        seen.add(k)
        todo.extend(x.children())
    return False


class PathState:
    FEAS_TIMEOUT_MS = 2000

    def __init__(self, prefix):
        self.prefix = list(prefix)
        self.taken = []
        self.idx = 0
        self.pc = []
        self.solver = z3.Solver()
        self.solver.set('timeout', self.FEAS_TIMEOUT_MS)
        self.alts = []
        self.counter = 0
        self.vcs = []            # obligations raised while executing (pre-conditions, unwinding..)
        self.events = []         # ghost trace (calls to abstracted callees, lock events, yields)
        self.assumed = []        # textual assumptions used on this path (unmodelled semantics)
        self.symbols = {}        # name -> z3 const (for model extraction)
        self.notes = {}
        self.steps = 0
        self.decided = {}        # id of a decided condition -> its truth on this path
        self.keep = []           # keeps the decided conditions alive (ids are only unique while alive)
        self.lazy_ids = set()
        self.undo_log = []       # callbacks undoing cached derived state when a tentative evaluation is rolled back

    # -- fresh symbols -----------------------------------------------------------------
    def fresh_name(self, base):
        self.counter += 1
        return f"{base}!{self.counter}"

    def fresh_int(self, base='i'):
        return z3.Int(self.fresh_name(base))

    def fresh_bool(self, base='b'):
        return z3.Bool(self.fresh_name(base))

    def fresh_str(self, base='s'):
        return z3.String(self.fresh_name(base))

    # -- constraints -------------------------------------------------------------------
    def assume(self, cond, lazy=False):
        """add a fact (definition of a fresh symbol, callee post-condition...).
        lazy: kept out of the feasibility solver (feasibility is then over-approximated,
        which only adds paths); the fact is still part of every VC."""
        if isinstance(cond, bool):
            if not cond:
                raise Infeasible()
            return
        self.pc.append(cond)
        if lazy:
            self.lazy_ids.add(cond.get_id())
            self.keep.append(cond)
        else:
            self.solver_add(cond)
        self.learn_domains(cond)

    def solver_add(self, cond):
        """feed the feasibility solver.  Lazy facts and quantified conjuncts stay out (they make it slow and
        `unknown`): feasibility is then over-approximated, which only adds paths; every VC carries the whole fact"""
        if cond.get_id() in self.lazy_ids:
            return
        for cj in (cond.children() if z3.is_and(cond) else [cond]):
            if not _has_quantifier(cj):
                self.solver.add(cj)

    def learn_domains(self, cond):
        """x == k1 or x == k2 ... : remember the finite value set of x"""
        try:
            if z3.is_and(cond):
                for ch in cond.children():
                    self.learn_domains(ch)
                return
            if z3.is_or(cond):
                var, vals = None, []
                for ch in cond.children():
                    if not z3.is_eq(ch):
                        return
                    a, b = ch.children()
                    if z3.is_int_value(b) and not z3.is_int_value(a):
                        x, k = a, b
                    elif z3.is_int_value(a) and not z3.is_int_value(b):
                        x, k = b, a
                    else:
                        return
                    if var is None:
                        var = x
                    elif not var.eq(x):
                        return
                    vals.append(k.as_long())
                if var is not None:
                    doms = self.notes.setdefault('domains', {})
                    old = doms.get(var.get_id())
                    new = frozenset(vals)
                    doms[var.get_id()] = new if old is None else (old & new)
                    self.notes.setdefault('keepalive', []).append(var)
        except z3.Z3Exception:
            pass

    def check(self, extra=None):
        """sat / unsat / unknown of pc (+ extra)"""
        if extra is None:
            return self.solver.check()
        self.solver.push()
        try:
            if not isinstance(extra, bool) and _has_quantifier(extra):
                # only the quantifier-free conjuncts take part (over-approximates satisfiability)
                for cj in (extra.children() if z3.is_and(extra) else []):
                    if not _has_quantifier(cj):
                        self.solver.add(cj)
            else:
                self.solver.add(extra)
            return self.solver.check()
        finally:
            self.solver.pop()

    def feasible(self, cond):
        return self.check(cond) != z3.unsat

    def branch(self, cond):
        """decide a (possibly symbolic) condition; forks the exploration when both sides
        are feasible"""
        if isinstance(cond, bool):
            return cond
        cond = z3.simplify(cond)
        if z3.is_true(cond):
            return True
        if z3.is_false(cond):
            return False
        # a condition already decided on this path needs neither the solver nor a new decision
        cid = cond.get_id()
        known = self.decided.get(cid)
        if known is not None:
            return known
        if z3.is_not(cond):
            k2 = self.decided.get(cond.arg(0).get_id())
            if k2 is not None:
                return not k2
        if self.idx < len(self.prefix):
            d = self.prefix[self.idx]
        else:
            can_t = self.feasible(cond)
            can_f = self.feasible(z3.Not(cond))
            if can_t and can_f:
                d = True
                self.alts.append(self.taken + [False])
            elif can_t:
                d = True
            elif can_f:
                d = False
            else:
                raise Infeasible()
        self.taken.append(d)
        self.idx += 1
        c = cond if d else z3.Not(cond)
        self.pc.append(c)
        self.solver_add(c)
        self.decided[cid] = d
        self.keep.append(cond)
        if d:
            self.learn_domains(c)
        return d

    def known_truth(self, cond):
        """truth of a condition already decided on this path (no solver), else None"""
        if isinstance(cond, bool):
            return cond
        c = z3.simplify(cond)
        if z3.is_true(c):
            return True
        if z3.is_false(c):
            return False
        k = self.decided.get(c.get_id())
        if k is not None:
            return k
        if z3.is_not(c):
            k = self.decided.get(c.arg(0).get_id())
            if k is not None:
                return not k
        return None

    def implied(self, cond):
        """True when pc => cond is established (unsat of pc and not cond)"""
        if isinstance(cond, bool):
            return cond
        return self.check(z3.Not(cond)) == z3.unsat

    def forced_int(self, expr):
        """the single value the whole path condition (lazy facts included) allows for an int
        expression, or None"""
        s = z3.Solver()
        s.set('timeout', 10000)
        s.add(*self.pc)
        if s.check() != z3.sat:
            if s.check() == z3.unsat:
                raise Infeasible()
            return None
        n = s.model().eval(expr, model_completion=True)
        if not z3.is_int_value(n):
            return None
        n = n.as_long()
        s.add(expr != n)
        if s.check() == z3.unsat:
            return n
        return None

    def add_vc(self, name, kind, goal, info=None):
        if kind == 'invariant' and not isinstance(goal, bool) and z3.is_and(goal):
            # one VC per conjunct of an invariant: smaller queries, and the failing conjunct is named
            for i, cj in enumerate(goal.children()):
                self.vcs.append(VC(name, kind, self.pc, cj, dict(info or {}, conjunct=i)))
            return
        self.vcs.append(VC(name, kind, self.pc, goal, info))

    def model(self):
        if self.solver.check() == z3.sat:
            return self.solver.model()
        return None


def explore(run, max_paths=5000):
    """run(st) -> outcome.  Returns list of (PathState, outcome) for all feasible paths.
    An Unsupported raised by run() is returned as outcome ('unsupported', msg)."""
    import os
    import time
    # wall-clock budget of the exploration of one kind combination: a changed function can multiply the paths (every
    # new symbolic test forks); the contract is then reported undecided ("budget") instead of running for an hour
    limit = 1800.0 if os.environ.get('VERIF_TIER') == 'thorough' else 180.0
    t_start = time.time()
    work = [[]]
    results = []
    while work:
        if time.time() - t_start > limit:
            raise PathBudget(f"exploration took more than {int(limit)} s ({len(results)} paths so far)")
        prefix = work.pop()
        st = PathState(prefix)
        try:
            outcome = run(st)
        except Infeasible:
            outcome = None
        except Unsupported as e:
            outcome = ('unsupported', str(e))
        except Exception as e:
            if type(e).__name__ == 'CutPath':
                outcome = ('cut', list(st.assumed))
            else:
                raise
        if outcome is not None:
            results.append((st, outcome))
        work.extend(st.alts)
        if len(results) + len(work) > max_paths:
            raise PathBudget(f"more than {max_paths} paths")
    return results
