"""Spec-level helper functions.  This module is registered as a *source* module: the symbolic
interpreter executes these definitions from their source, the run-time tier calls them natively."""


def implies(a, b):
    return (not a) or b


def iff(a, b):
    return bool(a) == bool(b)


def fullmatch(pattern, s, exact=True):
    """does the whole string match the (constant) regular expression; symbolic model: InRe
    (exact=False: over-approximate python's \\d, for facts about every word of the language)"""
    import re
    return isinstance(s, str) and re.fullmatch(pattern, s, re.DOTALL) is not None
