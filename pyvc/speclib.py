"""Spec-level helper functions.  This module is registered as a *source* module: the symbolic
interpreter executes these definitions from their source, the run-time tier calls them natively."""


def implies(a, b):
    return (not a) or b


def iff(a, b):
    return bool(a) == bool(b)
