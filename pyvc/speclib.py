"""Spec-level helper functions.  This module is registered as a *source* module: the symbolic
interpreter executes these definitions from their source, the run-time tier calls them natively."""


def implies(a, b):
    return (not a) or b


def iff(a, b):
    return bool(a) == bool(b)


def fullmatch(pattern, s, exact=True):
    """does the whole string match the (constant) regular expression; symbolic model: InRe
    (exact=False: over-approximate python's \\d, for facts about every word of the language)"""
    import re
    return isinstance(s, str) and re.fullmatch(pattern, s, re.DOTALL) is not None


class _SolverStub:
    """stands for z3 / pyvc.folds / interpreter classes when a contract module is imported by an interpreter without
    the solver (native replay of a counterexample under the repository's own python: only the spec functions and the
    contract clauses are needed there)"""

    def __getattr__(self, name):
        return self

    def __call__(self, *a, **k):
        return self

    def __getitem__(self, k):
        return self

    def __iter__(self):
        return iter(())


def solver_modules():
    """(z3, pyvc.folds, parse_expr, Env) or stubs when the solver is not installed for this interpreter"""
    try:
        import z3
        from pyvc import folds
        from pyvc.verify import parse_expr
        from pyvc.interp import Env
        return z3, folds, parse_expr, Env
    except ImportError:
        s = _SolverStub()
        return s, s, s, s
