"""Sidecar contracts: data model and parameter type specs.

A contract names a real function (module, qualified name) and gives clauses as python
expression strings.  The same text is interpreted symbolically (verify.py) and evaluated
natively (runtime.py / replay.py)."""
import itertools


def _v():
    from . import values
    return values


def _z3():
    import z3
    return z3


class Spec:
    """type/kind of a parameter; make() builds the symbolic value"""
    label = '?'

    def alternatives(self):
        return [self]

    def make(self, I, name):
        raise NotImplementedError

    def accepts(self, v):
        """can the actual argument v of a call be described by this kind?  (selects among several contracts of
        one function at a call site; a kind that cannot tell says yes)"""
        return True

    def __repr__(self):
        return self.label


class IntT(Spec):
    label = 'int'

    def __init__(self, lo=None, hi=None):
        self.lo, self.hi = lo, hi

    def accepts(self, v):
        V = _v()
        return V.is_intlike(v) and not isinstance(v, (bool, V.SBool))

    def make(self, I, name):
        z = _z3().Int(name)
        if self.lo is not None:
            I.st.assume(z >= self.lo)
        if self.hi is not None:
            I.st.assume(z <= self.hi)
        return _v().SInt(z)


class BoolT(Spec):
    label = 'bool'

    def make(self, I, name):
        return _v().SBool(_z3().Bool(name))


class StrT(Spec):
    label = 'str'

    def __init__(self, length=None, ascii_only=False):
        self.length = length
        self.ascii_only = ascii_only

    def make(self, I, name):
        z3, V = _z3(), _v()
        if self.length is not None:
            chars = []
            for i in range(self.length):
                c = z3.Int(f"{name}[{i}]")
                I.st.assume(z3.And(c >= 0, c <= (127 if self.ascii_only else V.MAXCODE)))
                chars.append(V.Ch(c))
            return V.mk_str(chars) if chars else ""
        return V.SStr([V.Sq(z3.String(name))])

    def accepts(self, v):
        return _v().is_strlike(v)


class NoneT(Spec):
    label = 'none'

    def make(self, I, name):
        return None

    def accepts(self, v):
        return v is None


class ConstT(Spec):
    def __init__(self, value):
        self.value = value
        self.label = f'const({value!r})'

    def make(self, I, name):
        return I.wrap(self.value)


class FloatT(Spec):
    label = 'float'

    def make(self, I, name):
        return _v().SFloat(name)


class OpaqueT(Spec):
    def __init__(self, tag='opaque', pytype=None, truthy=None):
        self.tag = tag
        self.pytype = pytype
        self.truthy = truthy
        self.label = f'opaque({tag})'

    def make(self, I, name):
        t = _z3().Bool('truth_' + name) if self.truthy is None else self.truthy
        return _v().SOpaque(name, self.pytype, t)


class TupleT(Spec):
    def __init__(self, *items):
        self.items = items
        self.label = 'tuple(' + ','.join(map(repr, items)) + ')'

    def alternatives(self):
        return [TupleT(*combo) for combo in itertools.product(*[i.alternatives() for i in self.items])]

    def make(self, I, name):
        return tuple(s.make(I, f"{name}.{i}") for i, s in enumerate(self.items))

    def accepts(self, v):
        return isinstance(v, tuple) and len(v) == len(self.items) and all(s.accepts(x) for s, x in zip(self.items, v))


class ListT(Spec):
    def __init__(self, *items):
        self.items = items
        self.label = 'list(' + ','.join(map(repr, items)) + ')'

    def alternatives(self):
        return [ListT(*combo) for combo in itertools.product(*[i.alternatives() for i in self.items])]

    def make(self, I, name):
        return _v().SList([s.make(I, f"{name}.{i}") for i, s in enumerate(self.items)])


class SetT(Spec):
    """a set is only ever iterated/len'ed by the contracted code: modelled by its element list"""

    def __init__(self, *items):
        self.items = items
        self.label = 'set(' + ','.join(map(repr, items)) + ')'

    def make(self, I, name):
        return _v().SSet([s.make(I, f"{name}.{i}") for i, s in enumerate(self.items)])


class DictT(Spec):
    def __init__(self, mapping):
        self.mapping = mapping
        self.label = 'dict(' + ','.join(f"{k!r}:{v!r}" for k, v in mapping.items()) + ')'

    def alternatives(self):
        keys = list(self.mapping)
        return [DictT(dict(zip(keys, combo)))
                for combo in itertools.product(*[self.mapping[k].alternatives() for k in keys])]

    def make(self, I, name):
        return _v().SDict({k: s.make(I, f"{name}[{k!r}]") for k, s in self.mapping.items()})


class ObjT(Spec):
    """instance of a real class (dotted path 'module:Class') with the given fields"""

    def __init__(self, cls_path, **fields):
        self.cls_path = cls_path
        self.fields = fields
        self.label = f"obj({cls_path.split(':')[-1]}:" + ','.join(f"{k}={v!r}" for k, v in fields.items()) + ')'

    def alternatives(self):
        keys = list(self.fields)
        return [ObjT(self.cls_path, **dict(zip(keys, combo)))
                for combo in itertools.product(*[self.fields[k].alternatives() for k in keys])]

    def resolve(self):
        import importlib
        mod, qn = self.cls_path.split(':')
        obj = importlib.import_module(mod)
        for part in qn.split('.'):
            obj = getattr(obj, part)
        return obj

    def make(self, I, name):
        cls = self.resolve()
        return _v().SObj(cls, {k: s.make(I, f"{name}.{k}") for k, s in self.fields.items()}, tag=name)

    def accepts(self, v):
        return isinstance(v, _v().SObj) and issubclass(v.cls, self.resolve())


class ClassT(Spec):
    """the class object itself (for classmethods)"""

    def __init__(self, cls_path):
        self.cls_path = cls_path
        self.label = f"class({cls_path})"

    def make(self, I, name):
        return ObjT(self.cls_path).resolve()


class OneOf(Spec):
    def __init__(self, *alts):
        self.alts = alts
        self.label = 'one_of(' + '|'.join(map(repr, alts)) + ')'

    def alternatives(self):
        out = []
        for a in self.alts:
            out.extend(a.alternatives())
        return out

    def accepts(self, v):
        return any(a.accepts(v) for a in self.alts)


class SymCollT(Spec):
    """list / tuple / set of symbolic length n >= 0 with opaque elements"""

    def __init__(self, pytype):
        self.pytype = pytype
        self.label = f"{pytype.__name__}[n]"

    def make(self, I, name):
        V, z3 = _v(), _z3()
        n = z3.Int(name + '.len')
        I.st.assume(n >= 0)
        return V.SymColl(self.pytype, V.SeqPart(name, n))


class SymListT(Spec):
    """a python list whose existing contents are one segment of symbolic length (then concrete items)"""
    label = 'list[n..]'

    def make(self, I, name):
        V, z3 = _v(), _z3()
        n = z3.Int(name + '.len')
        I.st.assume(n >= 0)
        return V.SList([V.SeqPart(name, n)])


class SymObjListT(Spec):
    """list of symbolic length of objects of a class; fields are scalars (str / int / bool), objects or tuples of
    those (nested).  Every scalar leaf `a.b.0` is one uninterpreted function of the element index."""

    def __init__(self, cls_path, **fields):
        self.cls_path = cls_path
        self.fields = fields
        self.label = f"list[n] of {cls_path.split(':')[-1]}"

    def make(self, I, name):
        V, z3 = _v(), _z3()
        n = z3.Int(name + '.len')
        I.st.assume(n >= 0)
        funcs = {}
        facts = []

        def shape_of(spec, path):
            if isinstance(spec, ObjT):
                return ('obj', spec.resolve(), {f: shape_of(sp, path + [f]) for f, sp in spec.fields.items()})
            if isinstance(spec, TupleT):
                return ('tuple', [shape_of(sp, path + [str(i)]) for i, sp in enumerate(spec.items)])
            if isinstance(spec, ConstT):
                return ('const', spec.value)
            if isinstance(spec, NoneT):
                return ('const', None)
            kind = spec.label.split('(')[0]
            if kind not in ('str', 'int', 'bool'):
                raise ValueError(f"element field {'.'.join(path)}: kind {spec.label} is not supported in lists of symbolic length")
            sort = {'str': z3.StringSort(), 'int': z3.IntSort(), 'bool': z3.BoolSort()}[kind]
            key = '.'.join(path)
            funcs[key] = (z3.Function(f"{name}.{key}", z3.IntSort(), sort), kind)
            if isinstance(spec, IntT) and (spec.lo is not None or spec.hi is not None):
                facts.append((key, spec.lo, spec.hi))
            return ('leaf', key, kind)
        shape = ('obj', ObjT(self.cls_path).resolve(), {f: shape_of(sp, [f]) for f, sp in self.fields.items()})
        L = V.SymList(name, n, ObjT(self.cls_path).resolve(), funcs)
        L.shape = shape
        L.bounds = facts          # (leaf, lo, hi): instantiated for every element that is looked at
        return L

    def accepts(self, v):
        return isinstance(v, _v().SymList)


class SymStrListT(Spec):
    """list of symbolic length of strings"""
    label = 'list[n] of str'

    def make(self, I, name):
        V, z3 = _v(), _z3()
        n = z3.Int(name + '.len')
        I.st.assume(n >= 0)
        funcs = {'value': (z3.Function(f"{name}.value", z3.IntSort(), z3.StringSort()), 'str')}
        L = V.SymList(name, n, str, funcs)
        L.shape = ('leaf', 'value', 'str')
        return L

    def accepts(self, v):
        V = _v()
        return isinstance(v, V.SymList) and v.shape[0] == 'leaf'


class SameAsT(Spec):
    """the very object passed for another parameter (aliasing between arguments)"""

    def __init__(self, ref):
        self.ref = ref
        self.label = f"same_as({ref})"

    def make(self, I, name):
        return None        # replaced by the other argument once all arguments exist (verify.make_run)


class DerivedT(Spec):
    """a parameter computed from the other (possibly ghost) parameters: fn(I, args) -> value"""

    def __init__(self, label, fn):
        self.label = label
        self.fn = fn

    def make(self, I, name):
        return None        # computed once all other arguments exist (verify.make_run)


class LockT(Spec):
    label = 'lock'

    def make(self, I, name):
        from .models import LockObj
        return LockObj(name)


class CustomT(Spec):
    """value built by a function (I, name) -> value"""

    def __init__(self, label, fn):
        self.label = label
        self.fn = fn

    def make(self, I, name):
        return self.fn(I, name)


class T:
    int = IntT()
    nat = IntT(lo=0)
    bool = BoolT()
    str = StrT()
    none = NoneT()
    float = FloatT()

    @staticmethod
    def int_range(lo, hi):
        return IntT(lo, hi)

    @staticmethod
    def str_len(n, ascii_only=False):
        return StrT(n, ascii_only)

    const = ConstT
    opaque = OpaqueT
    tuple = TupleT
    list = ListT
    set = SetT
    dict = DictT
    obj = ObjT
    cls = ClassT
    one_of = OneOf
    custom = CustomT
    lock = LockT()
    symobjlist = SymObjListT
    symstrlist = SymStrListT()
    same_as = SameAsT
    derived = DerivedT
    symcoll = SymCollT
    symlist = SymListT()


class Clause:
    def __init__(self, name, expr, level='top', exc=None, when=None):
        self.name = name
        self.expr = expr
        self.level = level
        self.exc = exc
        self.when = when


class Contract:
    def __init__(self, module, qualname, *, params, prop, requires=(), ensures=None, raises=None,
                 unwind=None, invariants=None, modifies=None, assumes=(), level='top',
                 bound_args=None, kind='function', spec_globals=None, note='', recipes=None,
                 max_paths=5000, result_spec=None, call_raises=None, name=None,
                 body_slice=None, watch_attrs=(), event_clauses=None, havoc=None, symlist_models=None, eager_ensures=False, lemmas=()):
        self.module = module
        self.qualname = qualname
        self.name = name or qualname     # identity of the contract (several contracts may describe one function)
        self.prop = prop
        self.params = params               # ordered dict name -> Spec
        self.requires = list(requires)     # expression strings
        self.ensures = []
        for k, v in (ensures or {}).items():
            lvl = level
            if isinstance(v, tuple):
                v, lvl = v
            self.ensures.append(Clause(k, v, lvl))
        # raises: name -> (exception classes, when-expression or None[, level])
        self.raises = []
        for k, v in (raises or {}).items():
            lvl = level
            if len(v) == 3:
                exc, when, lvl = v
            else:
                exc, when = v
            self.raises.append(Clause(k, when, lvl, exc=exc if isinstance(exc, tuple) else (exc,), when=when))
        self.unwind = unwind or {}
        self.invariants = invariants or {}
        # proved lemmas used by this proof: [(lemma contract name, {lemma parameter: expression over this contract's
        # parameters})]; each contributes the fact  (lemma pre-conditions) -> (lemma post-conditions)
        self.lemmas = list(lemmas)
        self.eager_ensures = eager_ensures   # at call sites the post-condition also feeds the feasibility solver
        self.symlist_models = symlist_models or {}     # spec function name -> fold model over lists of symbolic length
        self.modifies = modifies           # None: frame not checked; list of param names that may change
        self.assumes = list(assumes)
        self.level = level
        self.kind = kind
        self.spec_globals = spec_globals or {}
        self.note = note
        self.recipes = recipes or {}
        self.max_paths = max_paths
        self.result_spec = result_spec     # Spec of the result when used at a call site
        self.call_raises = call_raises     # at call sites: [(exc class, when-expr)] outcomes to fork
        # mechanical extraction of a prefix of the body: {'stop_before': source substring of the first top-level
        # statement NOT analysed, 'result': expression returned instead}
        self.body_slice = body_slice
        self.havoc = havoc or {}         # modified location 'param.field' -> Spec of its new value at call sites
        self.watch_attrs = tuple(watch_attrs)      # attribute names whose loads/stores are recorded as events
        self.event_clauses = event_clauses or {}   # name -> callable(list of events) -> bool  (symbolic tier only)

    @property
    def key(self):
        return (self.module, self.qualname)

    @property
    def fid(self):
        return f"{self.prop}.{self.name}"

    def kind_combinations(self):
        names = list(self.params)
        for combo in itertools.product(*[self.params[n].alternatives() for n in names]):
            yield dict(zip(names, combo))
