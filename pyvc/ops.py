"""Operators over interpreter values (truthiness, equality, arithmetic, strings, lookups).
Functions take the PathState `st` when they may need fresh symbols or feasibility checks."""
import z3

from .values import *   # noqa
from .values import _unescape_z3


class PyRaise(Exception):
    """a Python exception raised by the interpreted program"""

    def __init__(self, exc_type, value=None, lineno=None):
        super().__init__(exc_type.__name__)
        self.exc_type = exc_type
        self.value = value
        self.lineno = lineno


def type_of(v):
    if isinstance(v, Sym):
        if isinstance(v, SBool):
            return bool
        if isinstance(v, SInt):
            return int
        if isinstance(v, SStr):
            return str
        if isinstance(v, SList):
            return list
        if isinstance(v, SDict):
            return dict
        if isinstance(v, SSet):
            return set
        if isinstance(v, SObj):
            return v.cls
        if isinstance(v, SFloat):
            return float
        if isinstance(v, SBytes):
            return bytes
        if isinstance(v, SOpaque):
            if v.pytype is None:
                raise Unsupported(f"type of opaque value {v.name}")
            return v.pytype
        if isinstance(v, SymColl):
            return v.pytype
        if isinstance(v, SymList):
            return list
        if hasattr(v, 'pytype'):
            return v.pytype
        raise Unsupported(f"type of {v!r}")
    return type(v)


def truth(st, v):
    """python truthiness: bool or z3 Bool"""
    if v is None:
        return False
    if isinstance(v, bool):
        return v
    if isinstance(v, (int, float, str, bytes, tuple)):
        return bool(v)
    if isinstance(v, SBool):
        return v.z
    if isinstance(v, SInt):
        return v.z != 0
    if isinstance(v, SStr):
        for p in v.parts:
            if isinstance(p, (str, Ch)):
                return True
        return z3.Or([z3.Length(p.z) > 0 for p in v.parts])
    if isinstance(v, SList):
        parts = [x for x in v.items if isinstance(x, SeqPart)]
        if parts and len(parts) == len(v.items):
            return zor(*[p.n > 0 for p in parts])
        return len(v.items) > 0
    if isinstance(v, SymColl):
        return v.part.n > 0
    if isinstance(v, SymList):
        return v.n > 0
    if isinstance(v, SDict):
        return len(v.d) > 0
    if isinstance(v, SSet):
        return len(v.items) > 0
    if isinstance(v, SBytes):
        return truth(st, v.text)
    if isinstance(v, SOpaque):
        if v.truth is None:
            raise Unsupported(f"truth value of opaque {v.name}")
        return v.truth
    if isinstance(v, SObj):
        return None      # caller must dispatch __bool__/__len__
    if isinstance(v, type) or callable(v):
        return True
    if hasattr(v, 'truth_value'):
        return v.truth_value(st)
    raise Unsupported(f"truth of {v!r}")


def is_none(v):
    return v is None


def identical(a, b):
    """`is` : concrete bool (identity of symbolic scalars is not meaningful; None/True/False
    and heap objects are)"""
    if a is None or b is None:
        return a is None and b is None
    if a is b:
        return True
    if isinstance(a, (SList, SDict, SObj, SOpaque, SSet, SymList)) or isinstance(b, (SList, SDict, SObj, SOpaque, SSet, SymList)):
        # a snapshot taken for old(...) stands for the object it was copied from
        a0 = getattr(a, 'origin', None) or a
        b0 = getattr(b, 'origin', None) or b
        _vt = ('symlist-element', 'symlist-element-part')
        if a0 is not b0 and getattr(a0, 'tag', None) in _vt and getattr(b0, 'tag', None) in _vt:
            from .explore import Unsupported
            raise Unsupported("identity of two elements of a list of symbolic length")
        return a0 is b0
    if type(a).__name__ == 'PyOpaque' or type(b).__name__ == 'PyOpaque':
        return type(a) is type(b) and a.obj is b.obj
    if isinstance(a, bool) and isinstance(b, bool):
        return a == b
    if isinstance(a, SBool) and isinstance(b, bool):
        return mk_bool(a.z == b)
    if isinstance(b, SBool) and isinstance(a, bool):
        return mk_bool(b.z == a)
    # True / False are singletons: a value of another kind is never identical to them
    for x, y in ((a, b), (b, a)):
        if isinstance(x, bool) and isinstance(y, (SInt, SStr, SFloat, SBytes, str, float, bytes, tuple)):
            return False
        if isinstance(x, bool) and isinstance(y, int) and not isinstance(y, bool):
            return False
    if isinstance(a, type) or isinstance(b, type):
        return a is b
    if isinstance(a, bool) != isinstance(b, bool) and not isinstance(a, Sym) and not isinstance(b, Sym):
        return False
    if is_concrete(a) and is_concrete(b):
        return a is b or (type(a) == type(b) and isinstance(a, (int, str)) and a == b)
    raise Unsupported(f"identity test on symbolic scalars {a!r} is {b!r}")


def kind_of(v):
    """coarse kind used by equality"""
    if v is None:
        return 'none'
    if isinstance(v, (bool, SBool, int, SInt)):
        return 'int'
    if isinstance(v, (float, SFloat)):
        return 'float'
    if isinstance(v, (str, SStr)):
        return 'str'
    if isinstance(v, (bytes, SBytes)):
        return 'bytes'
    if isinstance(v, tuple):
        return 'tuple'
    if isinstance(v, SList):
        return 'list'
    if isinstance(v, SymList):
        return 'tuple' if v.pytype is tuple else 'list'
    if isinstance(v, SDict):
        return 'dict'
    if isinstance(v, SSet):
        return 'set'
    if isinstance(v, SObj):
        return 'obj'
    if isinstance(v, SOpaque):
        return 'opaque'
    if isinstance(v, type):
        return 'type'
    return 'other'


def str_eq(a, b):
    """equality of two strings -> bool or z3 Bool, done structurally where possible"""
    if isinstance(a, str) and isinstance(b, str):
        return a == b
    la, lb = str_known_len(a), str_known_len(b)
    if la is not None and lb is not None:
        if la != lb:
            return False
        ca, cb = str_chars(a), str_chars(b)
        conj = []
        for x, y in zip(ca, cb):
            if isinstance(x, str) and isinstance(y, str):
                if x != y:
                    return False
            else:
                conj.append(char_code(x) == char_code(y))
        if not conj:
            return True
        return z3.And(conj) if len(conj) > 1 else conj[0]
    return str_z3(a) == str_z3(b)


def values_eq(st, a, b):
    """structural `==` for values without user-defined __eq__ (objects handled by interp).
    returns bool or z3 Bool"""
    if isinstance(a, SeqPart) or isinstance(b, SeqPart):
        if a is b:
            return True
        raise Unsupported("comparison of different symbolic list segments")
    ka, kb = kind_of(a), kind_of(b)
    if ka == 'opaque' or kb == 'opaque':
        if a is b:
            return True
        if ka == 'opaque' and kb == 'opaque':
            return z3.Const('val_' + a.name, OPAQUE) == z3.Const('val_' + b.name, OPAQUE)
        raise Unsupported("comparison of an opaque value with a concrete one")
    if ka != kb:
        if {ka, kb} <= {'int', 'float'}:
            if is_concrete(a) and is_concrete(b):
                return a == b
            raise Unsupported("int/float comparison")
        return False
    if ka == 'none':
        return True
    if ka == 'int':
        if is_concrete(a) and is_concrete(b):
            return a == b
        return to_zint(a) == to_zint(b)
    if ka == 'str':
        return str_eq(a, b)
    if ka == 'float':
        if is_concrete(a) and is_concrete(b):
            return a == b
        raise Unsupported("float comparison")
    if ka == 'bytes':
        if isinstance(a, bytes) and isinstance(b, bytes):
            return a == b
        ta = a.text if isinstance(a, SBytes) else _bytes_text(a)
        tb = b.text if isinstance(b, SBytes) else _bytes_text(b)
        return str_eq(ta, tb)
    if ka in ('tuple', 'list'):
        ia = a if ka == 'tuple' else a.items
        ib = b if kb == 'tuple' else b.items
        if any(isinstance(x, SeqPart) for x in ia) or any(isinstance(x, SeqPart) for x in ib):
            # segments known to be empty on this path contribute nothing
            ia = [x for x in ia if not (isinstance(x, SeqPart) and st.implied(x.n == 0))]
            ib = [x for x in ib if not (isinstance(x, SeqPart) and st.implied(x.n == 0))]
        if len(ia) != len(ib):
            pa = sorted(id(x) for x in ia if isinstance(x, SeqPart))
            pb = sorted(id(x) for x in ib if isinstance(x, SeqPart))
            if pa or pb:
                if pa == pb:
                    return False        # same segments, different number of other items: lengths differ
                raise Unsupported("comparison of lists whose symbolic segments do not line up")
            return False
        conj = []
        for x, y in zip(ia, ib):
            e = values_eq(st, x, y)
            if e is False:
                return False
            if e is not True:
                conj.append(e)
        if not conj:
            return True
        return z3.And(conj) if len(conj) > 1 else conj[0]
    if ka == 'dict':
        if set(a.d.keys()) != set(b.d.keys()):
            return False
        conj = []
        for k in a.d:
            e = values_eq(st, a.d[k], b.d[k])
            if e is False:
                return False
            if e is not True:
                conj.append(e)
        if not conj:
            return True
        return z3.And(conj) if len(conj) > 1 else conj[0]
    if ka == 'type':
        return a is b
    if ka == 'obj':
        return identical(a, b)     # default object equality is identity (snapshots stand for their originals)
    if ka == 'set':
        if is_concrete(tuple(a.items)) and is_concrete(tuple(b.items)):
            return set(a.items) == set(b.items)
        raise Unsupported("set equality with symbolic members")
    if a is b:
        return True
    raise Unsupported(f"equality of {a!r} and {b!r}")


def _bytes_text(b):
    try:
        return b.decode('utf-8')
    except UnicodeDecodeError:
        raise Unsupported("non utf-8 bytes")


OPAQUE = z3.DeclareSort('Opaque')


def znot(c):
    if isinstance(c, bool):
        return not c
    return z3.Not(c)


def zand(*cs):
    out = []
    for c in cs:
        if c is False:
            return False
        if c is True:
            continue
        out.append(c)
    if not out:
        return True
    return z3.And(out) if len(out) > 1 else out[0]


def zor(*cs):
    out = []
    for c in cs:
        if c is True:
            return True
        if c is False:
            continue
        out.append(c)
    if not out:
        return False
    return z3.Or(out) if len(out) > 1 else out[0]


def bool_value(c):
    """bool / z3 Bool -> interpreter value"""
    if isinstance(c, bool):
        return c
    return mk_bool(c)


# ---------------------------------------------------------------------------------------
# arithmetic

def int_binop(st, op, a, b):
    """op in + - * // % ; a, b int-like"""
    if is_concrete(a) and is_concrete(b):
        a, b = int(a), int(b)
        if op == '+':
            return a + b
        if op == '-':
            return a - b
        if op == '*':
            return a * b
        if op in ('//', '%'):
            if b == 0:
                raise PyRaise(ZeroDivisionError)
            return a // b if op == '//' else a % b
        if op == '**':
            if b < 0:
                raise Unsupported("negative exponent")
            return a ** b
        raise Unsupported(f"int operator {op}")
    za, zb = to_zint(a), to_zint(b)
    if op == '+':
        return mk_int(za + zb)
    if op == '-':
        return mk_int(za - zb)
    if op == '*':
        # name compound multiplicands so that Horner-style recurrences stay chains of small
        # linear equalities instead of being expanded into huge coefficients
        if z3.is_int_value(zb) and not z3.is_const(za) and not z3.is_int_value(za):
            t = st.fresh_int('m')
            st.assume(t == za)
            za = t
        elif z3.is_int_value(za) and not z3.is_const(zb) and not z3.is_int_value(zb):
            t = st.fresh_int('m')
            st.assume(t == zb)
            zb = t
        return mk_int(za * zb)
    if op in ('//', '%'):
        q, r = int_divmod(st, a, b)
        return q if op == '//' else r
    raise Unsupported(f"int operator {op} on symbolic operands")


def int_divmod(st, a, b):
    """python floor divmod; divisor must be a concrete non-zero constant when a is symbolic.
    Encoded with fresh q, r and linear axioms (never the solver's div/mod)."""
    if is_concrete(a) and is_concrete(b):
        if int(b) == 0:
            raise PyRaise(ZeroDivisionError)
        return divmod(int(a), int(b))
    if not is_concrete(b):
        raise Unsupported("division by a symbolic divisor")
    c = int(b)
    if c == 0:
        raise PyRaise(ZeroDivisionError)
    za = to_zint(a)
    q = st.fresh_int('q')
    r = st.fresh_int('r')
    st.assume(za == c * q + r)
    if 0 < c <= 1024:
        set_domain(st, r, range(c))
    if c > 0:
        st.assume(z3.And(r >= 0, r < c))
    else:
        st.assume(z3.And(r <= 0, r > c))
    return SInt(q), SInt(r)


def int_cmp(op, a, b):
    if is_concrete(a) and is_concrete(b):
        return {'<': a < b, '<=': a <= b, '>': a > b, '>=': a >= b}[op]
    za, zb = to_zint(a), to_zint(b)
    return {'<': za < zb, '<=': za <= zb, '>': za > zb, '>=': za >= zb}[op]


def int_minmax(kind, vals):
    if all(is_concrete(v) for v in vals):
        return (min if kind == 'min' else max)(vals)
    cur = to_zint(vals[0])
    for v in vals[1:]:
        z = to_zint(v)
        if kind == 'max':
            cur = z3.If(z > cur, z, cur)      # python max keeps the first maximal element
        else:
            cur = z3.If(z < cur, z, cur)
    return mk_int(cur)


# ---------------------------------------------------------------------------------------
# strings

def str_concat(a, b):
    return mk_str(str_parts(a) + str_parts(b))


_STR_REP = z3.Function('str_rep', z3.StringSort(), z3.IntSort(), z3.StringSort())


def str_repeat(st, s, n):
    if isinstance(n, bool):
        n = int(n)
    if isinstance(n, int):
        if n <= 0:
            return ""
        return mk_str(str_parts(s) * n)
    # symbolic count: result is a fresh string r with r in (s)* and len(r) = max(n,0)*len(s)
    zn = to_zint(n)
    if isinstance(s, str):
        if s == "":
            return ""
        # a function of (s, count): equal counts give equal strings (congruence)
        r = _STR_REP(z3.StringVal(s), z3.If(zn > 0, zn, 0))
        st.assume(z3.InRe(r, z3.Star(z3.Re(z3.StringVal(s)))))
        st.assume(z3.Length(r) == z3.If(zn > 0, zn, 0) * len(s))
        return SStr([Sq(r)])
    if str_known_len(s) == 1:
        # one symbolic character repeated: every position holds that character
        c = str_chars(s)[0]
        r = _STR_REP(str_z3(s), z3.If(zn > 0, zn, 0))       # a function of (character, count)
        st.assume(z3.Length(r) == z3.If(zn > 0, zn, 0))
        i = z3.Int('k!rep')
        st.assume(z3.ForAll([i], z3.Implies(z3.And(i >= 0, i < z3.Length(r)),
                                            z3.StrToCode(z3.SubString(r, i, 1)) == char_code(c))))
        return SStr([Sq(r)])
    raise Unsupported("repetition of a symbolic string by a symbolic count")


def str_index(st, s, i):
    """s[i] for a concrete index on a string of known length; else via z3"""
    n = str_known_len(s)
    if isinstance(i, bool):
        i = int(i)
    if n is not None and isinstance(i, int):
        if i < -n or i >= n:
            raise PyRaise(IndexError)
        c = str_chars(s)[i]
        return c if isinstance(c, str) else SStr([c])
    # general: fork on range by the caller (interp), here assume in range
    raise Unsupported("indexing a string of unknown length / symbolic index")


def str_slice(st, s, lo, hi, step):
    n = str_known_len(s)
    conc = all(x is None or isinstance(x, int) for x in (lo, hi, step))
    if n is not None and conc:
        chars = str_chars(s)
        return mk_str([c if isinstance(c, str) else c for c in chars[slice(lo, hi, step)]])
    if step is not None:
        raise Unsupported("extended slice of a string of unknown length")
    if n is not None:
        # known length, symbolic bounds: not needed so far
        raise Unsupported("string slice with symbolic bounds")
    # unknown length, concrete non-negative bounds (the common s[1:], s[:k] forms)
    z = str_z3(s)
    L = z3.Length(z)
    if (lo is None or (isinstance(lo, int) and lo >= 0)) and hi is None:
        a = 0 if lo is None else lo
        if a == 0:
            return s
        # python: s[a:] is "" when a >= len
        return SStr([Sq(z3.SubString(z, a, L))])   # z3 substr returns "" when offset out of range
    if (lo is None or lo == 0) and isinstance(hi, int) and hi >= 0:
        return SStr([Sq(z3.SubString(z, 0, hi))])
    if (lo is None or lo == 0) and isinstance(hi, int) and hi < 0:
        k = -hi
        return SStr([Sq(z3.SubString(z, 0, z3.If(L - k > 0, L - k, 0)))])
    if isinstance(lo, int) and lo < 0 and hi is None:
        k = -lo
        return SStr([Sq(z3.If(L >= k, z3.SubString(z, L - k, k), z))])
    raise Unsupported(f"string slice [{lo}:{hi}] of a string of unknown length")


def str_startswith(s, prefix):
    if isinstance(s, str) and isinstance(prefix, str):
        return s.startswith(prefix)
    if isinstance(prefix, str):
        n = len(prefix)
        ps = str_parts(s)
        # structural when the known leading characters suffice
        lead = []
        for p in ps:
            if isinstance(p, str):
                lead.extend(p)
            elif isinstance(p, Ch):
                lead.append(p)
            else:
                break
            if len(lead) >= n:
                break
        if len(lead) >= n:
            return zand(*[(c == prefix[i]) if isinstance(c, str) else (c.code == ord(prefix[i]))
                          for i, c in enumerate(lead[:n])])
    return z3.PrefixOf(str_z3(prefix), str_z3(s))


def str_endswith(s, suffix):
    if isinstance(s, str) and isinstance(suffix, str):
        return s.endswith(suffix)
    return z3.SuffixOf(str_z3(suffix), str_z3(s))


def str_contains(hay, needle):
    if isinstance(hay, str) and isinstance(needle, str):
        return needle in hay
    return z3.Contains(str_z3(hay), str_z3(needle))


def int_to_str(st, v):
    """str(int)"""
    if isinstance(v, bool):
        return "True" if v else "False"
    if isinstance(v, int):
        return str(v)
    if isinstance(v, SBool):
        r = st.fresh_str('bstr')
        st.assume(r == z3.If(v.z, z3.StringVal("True"), z3.StringVal("False")))
        return SStr([Sq(r)])
    z = v.z
    dom = _domain_of(st, v)
    if dom is not None and len(dom) <= 300:
        # finite value set: str() is a table, which composes with the table the int came from
        found, res = lookup_table(st, v, [(d, str(d)) for d in sorted(dom)])
        if res is not None and found is True:
            val, cons = res
            st.assume(cons)
            return val
    if st.implied(z >= 0):
        return SStr([Sq(z3.IntToStr(z))])
    if st.branch(z >= 0):
        return SStr([Sq(z3.IntToStr(z))])
    return SStr(["-", Sq(z3.IntToStr(-z))])


def _domain_of(st, key):
    """finite set of python values the (scalar symbolic) key is known to range over, or None"""
    doms = st.notes.setdefault('domains', {})
    if isinstance(key, SInt):
        return doms.get(key.z.get_id())
    if isinstance(key, SStr) and len(key.parts) == 1 and isinstance(key.parts[0], Ch):
        d = doms.get(key.parts[0].code.get_id())
        if d is not None:
            return frozenset(chr(c) for c in d)
    return None


def _hashable(k):
    try:
        hash(k)
        return True
    except TypeError:
        return False


def _prov_of(st, key):
    provs = st.notes.get('prov', {})
    if isinstance(key, SInt):
        return provs.get(key.z.get_id())
    if isinstance(key, SStr) and len(key.parts) == 1 and isinstance(key.parts[0], Ch):
        return provs.get(key.parts[0].code.get_id())
    return None


def _set_prov(st, z, key, keys, vals):
    """remember that symbol z (int, or the code of a 1-char string) is table[key]"""
    if not (isinstance(key, SInt) or (isinstance(key, SStr) and len(key.parts) == 1
                                      and isinstance(key.parts[0], Ch))):
        return
    if len(set(keys)) != len(keys):
        return
    st.notes.setdefault('prov', {})[z.get_id()] = (key, dict(zip(keys, vals)))


def known_domain(st, v):
    return _domain_of(st, v)


def set_domain(st, z, values):
    st.notes.setdefault('domains', {})[z.get_id()] = frozenset(values)


def lookup_table(st, key, pairs, what='table'):
    """key (symbolic) looked up in a finite table [(concrete key, value)].
    Returns (found: bool / z3 Bool, (value, constraint) | None).  value is a fresh symbol
    constrained by the table when all values are of one scalar kind; otherwise None (the
    caller forks per key).  A value set recorded for the key (values it was itself looked up
    from) decides `found` without the solver."""
    if not pairs:
        return False, None
    # the same key looked up in the same table again gives the same symbol
    memo_key = None
    kz = key.z if isinstance(key, SInt) else (key.parts[0].code if isinstance(key, SStr) and len(key.parts) == 1
                                              and isinstance(key.parts[0], Ch) else
                                              (str_z3(key) if isinstance(key, SStr) else None))
    if kz is not None and all(_hashable(k) and _hashable(v) and is_concrete(v) for k, v in pairs):
        try:
            memo_key = (kz.get_id(), hash(tuple(pairs)))
        except TypeError:
            memo_key = None
    if memo_key is not None:
        memo = st.notes.setdefault('lookup_memo', {})
        if memo_key in memo:
            return memo[memo_key]
        r = _lookup_table(st, key, pairs, what)
        memo[memo_key] = r
        st.notes.setdefault('keepalive', []).append(kz)
        return r
    return _lookup_table(st, key, pairs, what)


def _lookup_table(st, key, pairs, what='table'):
    # provenance: the key was itself read from a table indexed by `src`; compose the tables
    prov = _prov_of(st, key)
    if prov is not None:
        src, m = prov
        tbl = dict(pairs) if all(_hashable(k) for k, _ in pairs) else None
        if tbl is not None:
            composed = [(sv, tbl[rv]) for sv, rv in m.items() if rv in tbl]
            if len(composed) == len(m):
                if all(isinstance(v, int) and not isinstance(v, bool) and sv == v for sv, v in composed) \
                        and isinstance(src, SInt):
                    return True, (src, True)           # identity: IDX[A[d]] == d
                return lookup_table(st, src, composed, what)
    dom = _domain_of(st, key)
    if dom is not None:
        inside = [(k, v) for k, v in pairs if k in dom]
        covered = len(inside) == len(dom)
        pairs = inside
        if not pairs:
            return False, None
    else:
        covered = False
    keys = [k for k, _ in pairs]
    vals = [v for _, v in pairs]
    if isinstance(key, (str, SStr)):
        eqs = [str_eq(key, k) if isinstance(k, str) else False for k in keys]
    elif is_intlike(key):
        eqs = [(to_zint(key) == int(k)) if isinstance(k, (int, bool)) else False for k in keys]
    else:
        return None, None
    found = True if covered else zor(*eqs)
    # the result is an application of one uninterpreted function per table, so that equal
    # keys give equal results by congruence (no case analysis needed)
    import hashlib as _h
    tname = _h.sha1(repr(sorted(map(repr, pairs))).encode()).hexdigest()[:10]
    if isinstance(key, SInt):
        karg, ksort = key.z, z3.IntSort()
    elif isinstance(key, SStr) and len(key.parts) == 1 and isinstance(key.parts[0], Ch):
        karg, ksort = key.parts[0].code, z3.IntSort()
    elif isinstance(key, SStr):
        karg, ksort = str_z3(key), z3.StringSort()
    else:
        karg, ksort = to_zint(key), z3.IntSort()
    if all(isinstance(v, int) and not isinstance(v, bool) for v in vals):
        res = z3.Function('tbl_' + tname, ksort, z3.IntSort())(karg)
        cons = zor(*[zand(e, res == int(v)) for e, v in zip(eqs, vals) if e is not False])
        set_domain(st, res, [int(v) for v in vals])
        _set_prov(st, res, key, keys, vals)
        return found, (SInt(res), cons)
    if all(isinstance(v, str) for v in vals):
        if all(len(v) == 1 for v in vals):
            code = z3.Function('tch_' + tname, ksort, z3.IntSort())(karg)
            cons = zor(*[zand(e, code == ord(v)) for e, v in zip(eqs, vals) if e is not False])
            set_domain(st, code, [ord(v) for v in vals])
            _set_prov(st, code, key, keys, vals)
            return found, (SStr([Ch(code)]), cons)
        res = z3.Function('tbs_' + tname, ksort, z3.StringSort())(karg)
        cons = zor(*[zand(e, res == z3.StringVal(v)) for e, v in zip(eqs, vals) if e is not False])
        return found, (SStr([Sq(res)]), cons)
    return found, None
