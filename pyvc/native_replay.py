"""Replay of a proof-tier counterexample on the real code, natively.
Run as:  /venv/bin/python -m pyvc.native_replay <json file with contract module, qualname, clause, inputs>
Prints one JSON line: {"pre":..., "outcome":..., "failed":[...]}   (no solver import)."""
import importlib
import json
import sys


def run(rec):
    from pyvc import runtime
    cm = importlib.import_module(rec['contract_module'])
    c = None
    for k in cm.CONTRACTS:
        if k.name == rec.get('name', rec['qualname']) and k.module == rec['module']:
            c = k
    if c is None:
        return {'error': 'contract not found'}
    recipes = getattr(cm, 'RECIPES', {})
    refs = {}
    args = {k: runtime.from_json(v, recipes, refs) for k, v in rec['inputs'].items()}
    for combo in c.kind_combinations():        # parameters that are another argument / computed from the others
        for k, s in combo.items():
            if type(s).__name__ == 'SameAsT' and k in args:
                args[k] = args[s.ref]
        for k, s in combo.items():
            if type(s).__name__ == 'DerivedT' and getattr(s, 'native', None) is not None and k in args:
                args[k] = s.native(args)
        break
    r = runtime.check_call(c, args, only=[rec['clause']] if rec.get('clause') else None)
    out = {'pre': r['pre'], 'failed': r['failed'], 'checked': r['checked']}
    if r['outcome'] is not None:
        kind, val = r['outcome']
        out['outcome'] = [kind, val if kind == 'raise' else repr(val)[:500]]
    return out


if __name__ == '__main__':
    with open(sys.argv[1]) as f:
        rec = json.load(f)
    try:
        print(json.dumps(run(rec)))
    except Exception as e:       # noqa
        import traceback
        print(json.dumps({'error': traceback.format_exc()}))
