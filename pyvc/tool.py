"""developer tool:  python3-vt -m pyvc.tool <contract module> <source modules,comma> [function ...]"""
import json
import sys
import time

from .driver import build_world, run_contracts, aggregate
from .propcheck import load_contracts


def main():
    cmod, smods = sys.argv[1], sys.argv[2].split(',')
    only = sys.argv[3:] or None
    cms, contracts, uses = load_contracts([cmod])
    w = build_world([cmod], smods)
    t = time.time()
    res = run_contracts(w, contracts, uses, only=only)
    obs, funcs = aggregate(contracts, res)
    for r in res:
        if r.get('error'):
            print(r['label'], r['error'])
    for k, o in sorted(obs.items()):
        print(k, o['status'], 'inst', o['instances'], 'unsat', o['unsat'], 'sat', o['sat'], 'unk', o['unknown'],
              o['backends'], o['time_s'])
        for wt in o['witnesses'][:2]:
            print('    WITNESS', wt['combo'], json.dumps(wt['inputs'], default=repr)[:300], wt['info'], wt.get('outcome'))
        for u in o['unknowns'][:2]:
            print('    UNKNOWN', u)
    for q, f in funcs.items():
        print(q, {k: v for k, v in f.items() if v})
    print('time', round(time.time() - t, 1))


if __name__ == '__main__':
    main()
