"""Assumed contracts of library callees (each is listed in the evidence trusted base)."""
import uuid

import z3

from .values import *    # noqa
from .ops import *       # noqa
from .ops import PyRaise

_uuid_accepts = z3.Function('uuid_lib_accepts', z3.StringSort(), z3.BoolSort())
_uuid_int = z3.Function('uuid_lib_int', z3.StringSort(), z3.IntSort())


def model_uuid(I, args, kwargs):
    if 'int' in kwargs and not args:
        n = kwargs['int']
        if not is_intlike(n):
            raise PyRaise(TypeError)
        ok = zand(int_cmp('>=', n, 0), int_cmp('<', n, 1 << 128))
        if not I.branch(ok):
            raise PyRaise(ValueError)
        return SObj(uuid.UUID, {'int': n})
    if len(args) == 1 and not kwargs:
        s = args[0]
        if isinstance(s, str):
            try:
                return SObj(uuid.UUID, {'int': uuid.UUID(s).int})
            except ValueError:
                raise PyRaise(ValueError)
        if isinstance(s, SStr):
            z = str_z3(s)
            # assumed library fact: no 22-character string is accepted
            I.st.assume(z3.Implies(z3.Length(z) == 22, z3.Not(_uuid_accepts(z))))
            if not I.branch(_uuid_accepts(z)):
                raise PyRaise(ValueError)
            n = _uuid_int(z)
            I.st.assume(z3.And(n >= 0, n < (1 << 128)))
            return SObj(uuid.UUID, {'int': SInt(n)})
        if s is None:
            raise PyRaise(TypeError)
        raise PyRaise(AttributeError)
    raise Unsupported("uuid.UUID call form")


def model_fullmatch(I, args, kwargs):
    from . import regex
    pattern, s = args
    if not isinstance(pattern, str):
        raise Unsupported("fullmatch with a symbolic pattern")
    if not is_strlike(s):
        return False
    if isinstance(s, str):
        import re
        return re.fullmatch(pattern, s, re.DOTALL) is not None
    exact = kwargs.get('exact', True)
    return bool_value(z3.InRe(str_z3(s), regex.to_z3(pattern, exact)))


def register_all(world):
    from . import speclib
    world.register_lib(uuid.UUID, model_uuid)
    world.register_lib(speclib.fullmatch, model_fullmatch)
