"""The 'world': real modules of the repository under verification, their parsed source,
and the registry of contracts and library models."""
import ast
import hashlib
import importlib
import inspect
import os
import sys
import types

REPO = os.environ.get('AK_PY_VERIF_REPO', '/repo')


def ensure_repo_on_path():
    if REPO not in sys.path:
        sys.path.insert(0, REPO)


class SourceModule:
    def __init__(self, pymod):
        self.pymod = pymod
        self.path = inspect.getsourcefile(pymod)
        with open(self.path, encoding='utf-8') as f:
            self.text = f.read()
        self.lines = self.text.splitlines()
        self.tree = ast.parse(self.text, self.path)
        self.index = {}          # qualname -> FunctionDef / ClassDef
        self._index(self.tree.body, '')

    def _index(self, body, prefix):
        for node in body:
            if isinstance(node, (ast.FunctionDef, ast.AsyncFunctionDef)):
                self.index[prefix + node.name] = node
                # nested functions are reachable through closures, not indexed
            elif isinstance(node, ast.ClassDef):
                self.index[prefix + node.name] = node
                self._index(node.body, prefix + node.name + '.')
            elif isinstance(node, (ast.If, ast.Try)):
                self._index(getattr(node, 'body', []), prefix)

    def segment(self, node):
        return '\n'.join(self.lines[node.lineno - 1:node.end_lineno])

    def describe(self, qualname):
        node = self.index[qualname]
        seg = self.segment(node)
        return {
            'file': os.path.relpath(self.path, REPO) if self.path.startswith(REPO) else self.path,
            'function': qualname,
            'lines': [node.lineno, node.end_lineno],
            'sha256': hashlib.sha256(seg.encode()).hexdigest(),
        }


class World:
    def __init__(self):
        ensure_repo_on_path()
        self.sources = {}        # module name -> SourceModule
        self.contracts = {}      # (module name, qualname) -> Contract
        self.lib_models = {}     # id(python object) -> callable(interp, args, kwargs)
        self.lib_objs = {}
        self.dropped = []        # constructs dropped by the extraction, for the evidence

    def add_source_module(self, name):
        if name in self.sources:
            return self.sources[name]
        pymod = importlib.import_module(name)
        sm = SourceModule(pymod)
        self.sources[name] = sm
        return sm

    def source_of(self, modname):
        return self.sources.get(modname)

    def is_source_func(self, f):
        return isinstance(f, types.FunctionType) and f.__module__ in self.sources \
            and f.__qualname__ in self.sources[f.__module__].index \
            and '<locals>' not in f.__qualname__

    def funcdef(self, modname, qualname):
        return self.sources[modname].index[qualname]

    def register_lib(self, pyobj, model):
        self.lib_models[id(pyobj)] = model
        self.lib_objs[id(pyobj)] = pyobj     # keep alive

    def lib_model(self, pyobj):
        try:
            return self.lib_models.get(id(pyobj))
        except Exception:
            return None
