"""Path-forking symbolic interpreter over the Python AST of the real source."""
import ast
import builtins as _bi
import dataclasses
import inspect
import types

import z3

from .values import *   # noqa
from .ops import *      # noqa
from .ops import PyRaise
from .explore import Infeasible


class _Return(Exception):
    def __init__(self, value):
        self.value = value


class _Break(Exception):
    pass


class _Continue(Exception):
    pass


class NeedFork(Exception):
    pass


class FuncRef:
    """a function whose body is interpreted from source"""

    def __init__(self, node, modname, qualname, cls=None, closure=None, pyglobals=None):
        self.node = node
        self.modname = modname
        self.qualname = qualname
        self.cls = cls
        self.closure = closure       # Env of the defining scope (nested functions / lambdas)
        self.pyglobals = pyglobals   # dict of the defining module
        self.is_generator = _has_yield(node)

    def __repr__(self):
        return f"<FuncRef {self.modname}:{self.qualname}>"


class BoundMethod:
    def __init__(self, func, self_val):
        self.func = func
        self.self_val = self_val


class BuiltinMethod:
    """method of a built-in container / string value"""

    def __init__(self, obj, name):
        self.obj = obj
        self.name = name


class SExc(Sym):
    """exception instance"""

    def __init__(self, exc_type, args=()):
        self.exc_type = exc_type
        self.args = args
        self.pytype = exc_type


class SGen(Sym):
    """generator evaluated eagerly: list of yielded values"""

    def __init__(self, items):
        self.items = items
        self.pytype = types.GeneratorType


class SSuper:
    def __init__(self, cls, obj):
        self.cls = cls
        self.obj = obj


class PyOpaque(Sym):
    """a concrete python object the interpreter does not look into"""

    def __init__(self, obj):
        self.obj = obj
        self.pytype = type(obj)


def _has_yield(node):
    for n in ast.walk(node):
        if isinstance(n, (ast.Yield, ast.YieldFrom)):
            # not inside a nested function/lambda
            return _yield_belongs(node, n)
    return False


def _yield_belongs(fn, target):
    def walk(n):
        for c in ast.iter_child_nodes(n):
            if isinstance(c, (ast.FunctionDef, ast.Lambda, ast.AsyncFunctionDef)):
                continue
            if isinstance(c, (ast.Yield, ast.YieldFrom)):
                return True
            if walk(c):
                return True
        return False
    return walk(fn)


def _memo_id(a):
    """identity of an immutable argument value, or None when it may be mutated"""
    if a is None or isinstance(a, (bool, int, float, str, bytes)):
        return ('c', type(a).__name__, a)
    if isinstance(a, (SInt, SBool)):
        return ('z', a.z.get_id())
    if isinstance(a, SStr):
        out = []
        for p in a.parts:
            if isinstance(p, str):
                out.append(p)
            elif isinstance(p, Ch):
                out.append(('ch', p.code.get_id()))
            else:
                out.append(('sq', p.z.get_id()))
        return ('s', tuple(out))
    if isinstance(a, tuple):
        ks = tuple(_memo_id(x) for x in a)
        return None if any(k is None for k in ks) else ('t', ks)
    if isinstance(a, type):
        return ('type', id(a))
    if isinstance(a, SFloat):
        return ('f', a.name)
    return None


class _LibBound:
    """library method (modelled) bound to an object: reached through super()"""

    def __init__(self, model, target):
        self.model = model
        self.target = target

    def call_model(self, I, args, kwargs):
        return self.model(I, [self.target] + list(args), kwargs)


class _RepeatBody:
    def __init__(self, part):
        self.part = part


class Env:
    __slots__ = ('vars', 'parent', 'pyglobals', 'func')

    def __init__(self, vars=None, parent=None, pyglobals=None, func=None):
        self.vars = vars if vars is not None else {}
        self.parent = parent
        self.pyglobals = pyglobals if pyglobals is not None else (parent.pyglobals if parent else {})
        self.func = func if func is not None else (parent.func if parent else None)

    def lookup(self, name):
        e = self
        while e is not None:
            if name in e.vars:
                return True, e.vars[name]
            e = e.parent
        return False, None


_PURE_CALLS = {'isinstance', 'len', 'startswith', 'endswith', 'isdigit', 'get', 'is_plain',
               'has_same_type', 'abs', 'min', 'max', 'str', 'int', 'type', 'implies', 'iff'}


def _is_pure_expr(node):
    for n in ast.walk(node):
        if isinstance(n, ast.Call):
            f = n.func
            nm = f.id if isinstance(f, ast.Name) else (f.attr if isinstance(f, ast.Attribute) else None)
            if nm not in _PURE_CALLS:
                return False
        elif isinstance(n, (ast.Lambda, ast.ListComp, ast.GeneratorExp, ast.DictComp, ast.SetComp,
                            ast.Yield, ast.YieldFrom, ast.Await, ast.NamedExpr)):
            return False
    return True


class Interp:
    DEFAULT_UNWIND = 8
    MAX_STEPS = 400000
    MAX_DEPTH = 60

    def __init__(self, world, st, use_contracts=None, unwind=None, top=None, config=None):
        from . import models
        self.world = world
        self.st = st
        self.use_contracts = use_contracts or {}     # (modname, qualname) -> Contract
        self.unwind = unwind or {}                    # (qualname, loop ordinal) -> k
        self.config = config or {}
        self.top = top
        self.models = models
        self.wrapped = {}        # id(python obj) -> interpreter value (per path)
        self.class_attrs = {}    # (cls, name) -> value  (per-path overrides of class attributes)
        self.global_over = {}    # (modname, name) -> value (per-path overrides of module globals)
        self.depth = 0
        self.nofork = 0
        self.gen_stack = []
        self.cur_exc = []
        self.spec_depth = 0      # > 0 while evaluating contract clauses / spec functions (pure code)

    # ------------------------------------------------------------------ helpers
    def unsupported(self, msg, node=None):
        ln = f" (line {node.lineno})" if node is not None and hasattr(node, 'lineno') else ""
        raise Unsupported(msg + ln)

    def branch(self, cond):
        if isinstance(cond, bool):
            return cond
        if self.nofork:
            c = z3.simplify(cond)
            if z3.is_true(c):
                return True
            if z3.is_false(c):
                return False
            if self.st.idx >= len(self.st.prefix):
                t = self.st.feasible(c)
                f = self.st.feasible(z3.Not(c))
                if t and f:
                    raise NeedFork()
        return self.st.branch(cond)

    def truth(self, v):
        t = truth(self.st, v)
        if t is None:        # object
            if isinstance(v, SObj):
                m = self.find_method(v.cls, '__bool__')
                if m is not None:
                    return self.truth(self.call(BoundMethod(m, v), [], {}))
                m = self.find_method(v.cls, '__len__')
                if m is not None:
                    n = self.call(BoundMethod(m, v), [], {})
                    return truth(self.st, n)
                return True
        return t

    def wrap(self, x):
        """real python value -> interpreter value"""
        if x is None or isinstance(x, (bool, int, float, str, bytes)):
            return x
        if isinstance(x, Sym) or isinstance(x, (FuncRef, BoundMethod)):
            return x
        if isinstance(x, tuple) and type(x) is tuple:
            return tuple(self.wrap(i) for i in x)
        k = id(x)
        if k in self.wrapped:
            return self.wrapped[k][0]
        if type(x) is list:
            v = SList([self.wrap(i) for i in x])
        elif type(x) is dict:
            if not all(isinstance(key, (str, int, bool, type(None), tuple)) for key in x):
                v = PyOpaque(x)
            else:
                v = SDict({key: self.wrap(val) for key, val in x.items()})
        elif isinstance(x, (set, frozenset)):
            try:
                items = sorted(x)
            except TypeError:
                items = list(x)
            v = SSet([self.wrap(i) for i in items])
        elif isinstance(x, types.FunctionType):
            if self.world.lib_model(x) is not None:
                v = x
            elif self.world.is_source_func(x):
                v = self.funcref_of(x)
            else:
                v = x
        elif isinstance(x, (type, types.ModuleType, types.BuiltinFunctionType, types.MethodType)):
            return x
        else:
            m = self.models.wrap_special(self, x)
            v = m if m is not None else PyOpaque(x)
        self.wrapped[k] = (v, x)
        return v

    def funcref_of(self, f, cls=None):
        sm = self.world.sources[f.__module__]
        node = sm.index[f.__qualname__]
        if cls is None and '.' in f.__qualname__:
            cname = f.__qualname__.rsplit('.', 1)[0]
            obj = sm.pymod
            for part in cname.split('.'):
                obj = getattr(obj, part)
            cls = obj
        return FuncRef(node, f.__module__, f.__qualname__, cls=cls, pyglobals=f.__globals__)

    def find_method(self, cls, name):
        """FuncRef of a method defined in source for class cls (following the MRO), or None"""
        for k in cls.__mro__:
            if name in k.__dict__:
                raw = k.__dict__[name]
                f = raw.__func__ if isinstance(raw, (classmethod, staticmethod)) else raw
                if isinstance(f, types.FunctionType) and self.world.is_source_func(f):
                    return self.funcref_of(f, k)
                return None
        return None

    # ------------------------------------------------------------------ calls
    def call(self, f, args, kwargs, node=None):
        self.st.steps += 1
        if isinstance(f, BoundMethod):
            return self.call(f.func, [f.self_val] + list(args), kwargs, node)
        if isinstance(f, FuncRef):
            return self.call_funcref(f, args, kwargs, node)
        if isinstance(f, BuiltinMethod):
            return self.models.call_method(self, f.obj, f.name, args, kwargs, node)
        if isinstance(f, SSuper):
            self.unsupported("call of super object", node)
        model = self.world.lib_model(f)
        if model is not None:
            return model(self, args, kwargs)
        if isinstance(f, type):
            return self.instantiate(f, args, kwargs, node)
        if isinstance(f, (types.BuiltinFunctionType, types.FunctionType)):
            return self.models.call_builtin(self, f, args, kwargs, node)
        if isinstance(f, SObj):
            m = self.find_method(f.cls, '__call__')
            if m is not None:
                return self.call(BoundMethod(m, f), args, kwargs, node)
        if hasattr(f, 'call_model'):
            return f.call_model(self, args, kwargs)
        self.unsupported(f"call of {f!r}", node)

    def call_funcref(self, f, args, kwargs, node=None):
        key = (f.modname, f.qualname)
        c = self.use_contracts.get(key)
        if c is not None and not (self.top is not None and key == self.top and self.depth == 0):
            from .verify import apply_contract_at_call
            if isinstance(c, list):
                # several contracts describe this function: the first one whose parameter kinds fit the arguments
                bound = self.bind_args(f, args, kwargs)
                fit = [k for k in c if all(k.params[n].accepts(v) for n, v in bound.items() if n in k.params)]
                if not fit:
                    self.unsupported(f"call of {f.qualname}: none of its contracts ({', '.join(k.name for k in c)}) "
                                     f"covers these argument kinds", node)
                # every fitting contract speaks about this call: the first provides the result and the effects,
                # the others add their pre-conditions (obligations) and post-conditions (facts) about the same result
                return apply_contract_at_call(self, fit[0], f, args, kwargs, node, also=fit[1:])
            return apply_contract_at_call(self, c, f, args, kwargs, node)
        # pure spec functions (defined in contract / spec modules) called again with the very same
        # immutable arguments give the same value: memoised per path
        memo_key = None
        if f.modname in self.config.get('spec_modules', ()) and not kwargs \
                and any(isinstance(a, SymList) or (isinstance(a, SList) and any(isinstance(x, ListSeg) for x in a.items))
                        for a in args):
            model = self.config.get('symlist_models', {}).get(f.qualname)
            if model is not None:       # without a model the body is interpreted (generators become folds/quantifiers)
                r = model(self, list(args))
                if r is not NotImplemented:
                    return r
        if f.modname in self.config.get('spec_modules', ()) and not kwargs and f.closure is None \
                and not f.is_generator:
            ks = []
            for a in args:
                k = _memo_id(a)
                if k is None:
                    ks = None
                    break
                ks.append(k)
            if ks is not None:
                memo_key = (f.modname, f.qualname, tuple(ks))
                memo = self.st.notes.setdefault('spec_memo', {})
                if memo_key in memo:
                    return memo[memo_key][0]
        if memo_key is not None:
            r = self._call_funcref_body(f, args, kwargs, node)
            self.st.notes.setdefault('spec_memo', {})[memo_key] = (r, args)
            return r
        return self._call_funcref_body(f, args, kwargs, node)

    def _call_funcref_body(self, f, args, kwargs, node=None):
        if f.modname in self.config.get('spec_modules', ()):
            self.spec_depth += 1
            try:
                return self._call_funcref_body2(f, args, kwargs, node)
            finally:
                self.spec_depth -= 1
        return self._call_funcref_body2(f, args, kwargs, node)

    def _call_funcref_body2(self, f, args, kwargs, node=None):
        env = Env(self.bind_args(f, args, kwargs), parent=f.closure, pyglobals=f.pyglobals, func=f)
        if self.depth > self.MAX_DEPTH:
            self.unsupported(f"call depth > {self.MAX_DEPTH} in {f.qualname}")
        self.depth += 1
        try:
            if isinstance(f.node, ast.Lambda):
                return self.eval(f.node.body, env)
            if f.is_generator:
                out = []
                self.gen_stack.append(out)
                try:
                    try:
                        self.exec_block(f.node.body, env)
                    except _Return:
                        pass
                finally:
                    self.gen_stack.pop()
                return SGen(out)
            try:
                self.exec_block(f.node.body, env)
            except _Return as r:
                return r.value
            return None
        finally:
            self.depth -= 1

    def bind_args(self, f, args, kwargs):
        a = f.node.args
        env = {}
        params = [p.arg for p in a.posonlyargs + a.args]
        args = list(args)
        kwargs = dict(kwargs)
        nparams = len(params)
        for i, name in enumerate(params):
            if i < len(args):
                env[name] = args[i]
        extra = args[nparams:]
        if any(isinstance(x, StarSym) for x in args):
            # f(*xs) with xs of symbolic length: only when xs alone makes up the *args parameter
            if not (a.vararg and len(extra) == 1 and isinstance(extra[0], StarSym)
                    and not any(isinstance(x, StarSym) for x in args[:nparams])):
                self.unsupported("*<list of symbolic length> not matching a *args parameter exactly")
            c = extra[0].lst.snapshot()      # the callee sees a tuple: an immutable copy
            c.origin = None
            c.pytype = tuple
            env[a.vararg.arg] = c
        elif a.vararg:
            env[a.vararg.arg] = tuple(extra)
        elif extra:
            raise PyRaise(TypeError)
        for name in params[min(len(args), nparams):]:
            if name in kwargs:
                env[name] = kwargs.pop(name)
        # defaults
        defaults = a.defaults
        defenv = Env({}, parent=f.closure, pyglobals=f.pyglobals, func=f)
        for name, d in zip(params[nparams - len(defaults):], defaults):
            if name not in env:
                env[name] = self.eval(d, defenv)
        for p, d in zip(a.kwonlyargs, a.kw_defaults):
            if p.arg in kwargs:
                env[p.arg] = kwargs.pop(p.arg)
            elif d is not None:
                env[p.arg] = self.eval(d, defenv)
            else:
                raise PyRaise(TypeError)
        for name in params:
            if name in kwargs:
                raise PyRaise(TypeError)      # multiple values
            if name not in env:
                raise PyRaise(TypeError)      # missing argument
        if a.kwarg:
            env[a.kwarg.arg] = SDict(kwargs)
        elif kwargs:
            raise PyRaise(TypeError)
        return env

    def instantiate(self, cls, args, kwargs, node=None):
        if isinstance(cls, type) and issubclass(cls, BaseException):
            return SExc(cls, tuple(args))
        model = self.models.class_model(self, cls)
        if model is not None:
            return model(self, args, kwargs)
        if cls.__module__ in self.world.sources:
            obj = SObj(cls, {})
            init = self.find_method(cls, '__init__')
            if init is not None:
                self.call(BoundMethod(init, obj), args, kwargs, node)
                return obj
            if dataclasses.is_dataclass(cls):
                flds = [fl.name for fl in dataclasses.fields(cls)]
                vals = dict(zip(flds, args))
                if len(args) > len(flds):
                    raise PyRaise(TypeError)
                for k, v in kwargs.items():
                    if k in vals or k not in flds:
                        raise PyRaise(TypeError)
                    vals[k] = v
                for fl in dataclasses.fields(cls):
                    if fl.name not in vals:
                        if fl.default is not dataclasses.MISSING:
                            vals[fl.name] = self.wrap(fl.default)
                        else:
                            raise PyRaise(TypeError)
                obj.fields.update(vals)
                return obj
            if cls.__init__ is object.__init__:
                if args or kwargs:
                    raise PyRaise(TypeError)
                return obj
        return self.models.call_builtin(self, cls, args, kwargs, node)

    # ------------------------------------------------------------------ statements
    def exec_block(self, stmts, env):
        for s in stmts:
            self.exec_stmt(s, env)

    def exec_stmt(self, node, env):
        self.st.steps += 1
        if self.st.steps > self.MAX_STEPS:
            self.unsupported("step budget exceeded")
        m = getattr(self, 'x_' + type(node).__name__, None)
        if m is None:
            self.unsupported(f"statement {type(node).__name__}", node)
        return m(node, env)

    def x_Expr(self, node, env):
        if isinstance(node.value, ast.Constant):
            return      # docstring
        if self._is_dropped_call(node.value, env):
            return
        self.eval(node.value, env)

    def _is_dropped_call(self, e, env):
        # logger.* / logging.* calls are dropped by the extraction (no-ops)
        if isinstance(e, ast.Call) and isinstance(e.func, ast.Attribute) \
                and isinstance(e.func.value, ast.Name) and e.func.value.id in ('logger', 'logging', 'log'):
            if 'logger calls' not in self.world.dropped:
                self.world.dropped.append('logger calls')
            return True
        return False

    def x_Pass(self, node, env):
        pass

    def x_Assign(self, node, env):
        v = self.eval(node.value, env)
        for t in node.targets:
            self.assign(t, v, env)

    def x_AnnAssign(self, node, env):
        if node.value is not None:
            self.assign(node.target, self.eval(node.value, env), env)

    def x_AugAssign(self, node, env):
        t = node.target
        if isinstance(t, ast.Name):
            cur = self.eval(ast.Name(id=t.id, ctx=ast.Load()), env)
            new = self.binop(node.op, cur, self.eval(node.value, env), node, inplace=True)
            self.assign(t, new, env)
        elif isinstance(t, ast.Attribute):
            obj = self.eval(t.value, env)
            cur = self.getattr(obj, t.attr, node)
            new = self.binop(node.op, cur, self.eval(node.value, env), node, inplace=True)
            self.setattr(obj, t.attr, new, node)
        elif isinstance(t, ast.Subscript):
            obj = self.eval(t.value, env)
            idx = self.eval_index(t.slice, env)
            cur = self.subscript(obj, idx, node)
            new = self.binop(node.op, cur, self.eval(node.value, env), node, inplace=True)
            self.store_subscript(obj, idx, new, node)
        else:
            self.unsupported("augmented assignment target", node)

    def assign(self, target, v, env):
        if isinstance(target, ast.Name):
            if env.func is not None and target.id in getattr(env.func, 'global_names', ()):
                self.global_over[(env.func.modname, target.id)] = v
            else:
                env.vars[target.id] = v
        elif isinstance(target, (ast.Tuple, ast.List)):
            items = self.iterate(v, target)
            if any(isinstance(e, ast.Starred) for e in target.elts):
                self.unsupported("starred assignment", target)
            if len(items) != len(target.elts):
                raise PyRaise(ValueError, lineno=target.lineno)
            for e, x in zip(target.elts, items):
                self.assign(e, x, env)
        elif isinstance(target, ast.Attribute):
            self.setattr(self.eval(target.value, env), target.attr, v, target)
        elif isinstance(target, ast.Subscript):
            obj = self.eval(target.value, env)
            idx = self.eval_index(target.slice, env)
            self.store_subscript(obj, idx, v, target)
        else:
            self.unsupported("assignment target", target)

    def x_Return(self, node, env):
        raise _Return(self.eval(node.value, env) if node.value is not None else None)

    def x_If(self, node, env):
        if self.branch(self.truth(self.eval(node.test, env))):
            self.exec_block(node.body, env)
        else:
            self.exec_block(node.orelse, env)

    def x_Assert(self, node, env):
        if not self.branch(self.truth(self.eval(node.test, env))):
            raise PyRaise(AssertionError, lineno=node.lineno)

    def x_Raise(self, node, env):
        if node.exc is None:
            if self.cur_exc:
                raise self.cur_exc[-1]
            raise PyRaise(RuntimeError, lineno=node.lineno)
        e = node.exc
        # the message operand is dropped: only the exception type is modelled
        if isinstance(e, ast.Call):
            cls = self.eval(e.func, env)
            if isinstance(cls, type) and issubclass(cls, BaseException):
                raise PyRaise(cls, lineno=node.lineno)
        v = self.eval(e, env)
        if isinstance(v, type) and issubclass(v, BaseException):
            raise PyRaise(v, lineno=node.lineno)
        if isinstance(v, SExc):
            raise PyRaise(v.exc_type, v, lineno=node.lineno)
        self.unsupported("raise of a non-exception", node)

    def x_Try(self, node, env):
        try:
            try:
                self.exec_block(node.body, env)
            except PyRaise as e:
                for h in node.handlers:
                    if h.type is None:
                        match = True
                    else:
                        t = self.eval(h.type, env)
                        ts = t if isinstance(t, tuple) else (t,)
                        match = any(isinstance(k, type) and issubclass(e.exc_type, k) for k in ts)
                    if match:
                        if h.name:
                            env.vars[h.name] = e.value if e.value is not None else SExc(e.exc_type)
                        self.cur_exc.append(e)
                        try:
                            self.exec_block(h.body, env)
                        finally:
                            self.cur_exc.pop()
                        break
                else:
                    raise
            else:
                self.exec_block(node.orelse, env)
        finally:
            if node.finalbody:
                self.exec_block(node.finalbody, env)

    def loop_ordinal(self, node, env):
        f = env.func
        if f is None:
            return None, 0
        if not hasattr(f, '_loops'):
            loops = [n for n in ast.walk(f.node) if isinstance(n, (ast.While, ast.For))]
            loops.sort(key=lambda n: (n.lineno, n.col_offset))
            f._loops = {id(n): i for i, n in enumerate(loops)}
        return f.qualname, f._loops.get(id(node), -1)

    def x_While(self, node, env):
        qn, k = self.loop_ordinal(node, env)
        inv = self.config.get('invariants', {}).get((qn, k))
        if inv is not None:
            from .verify import exec_loop_with_invariant
            return exec_loop_with_invariant(self, node, env, inv, qn, k)
        bound = self.unwind.get((qn, k), self.DEFAULT_UNWIND)
        count = 0
        while True:
            c = self.truth(self.eval(node.test, env))
            if count >= bound and not isinstance(c, bool):
                # unwinding assertion: the loop condition is false after `bound` iterations
                self.st.add_vc(f"unwind{bound}.loop{k}", 'unwind', znot(c),
                               {'function': qn, 'loop': k, 'bound': bound, 'line': node.lineno})
                self.st.assume(znot(c))
                if self.st.check() == z3.unsat:
                    raise Infeasible()
                self.exec_block(node.orelse, env)
                return
            if count >= max(bound, 1) * 50:
                self.unsupported("concrete loop too long", node)
            if not self.branch(c):
                self.exec_block(node.orelse, env)
                return
            try:
                self.exec_block(node.body, env)
            except _Break:
                return
            except _Continue:
                pass
            count += 1

    def x_For(self, node, env):
        qn, k = self.loop_ordinal(node, env)
        inv = self.config.get('invariants', {}).get((qn, k))
        if inv is not None:
            from .verify import exec_for_with_invariant
            return exec_for_with_invariant(self, node, env, inv, qn, k)
        itv = self.eval(node.iter, env)
        if isinstance(itv, (SymList, EnumSym, RevSym, SymRange, SliceSym)):
            self.unsupported("loop over a list / range of symbolic length without an invariant", node)
        items = self.iterate(itv, node)
        for x in items:
            self.assign(node.target, x, env)
            try:
                self.exec_block(node.body, env)
            except _Break:
                return
            except _Continue:
                continue
        self.exec_block(node.orelse, env)

    def x_Break(self, node, env):
        raise _Break()

    def x_Continue(self, node, env):
        raise _Continue()

    def x_With(self, node, env):
        ctxs = []
        for item in node.items:
            cm = self.eval(item.context_expr, env)
            ent = self.models.with_enter(self, cm, item)
            if item.optional_vars is not None:
                self.assign(item.optional_vars, ent, env)
            ctxs.append(cm)
        try:
            self.exec_block(node.body, env)
        finally:
            for cm in reversed(ctxs):
                self.models.with_exit(self, cm)

    def x_FunctionDef(self, node, env):
        qn = (env.func.qualname + '.<locals>.' if env.func else '') + node.name
        f = FuncRef(node, env.func.modname if env.func else '?', qn, closure=env, pyglobals=env.pyglobals)
        if node.decorator_list:
            self.unsupported("decorated nested function", node)
        env.vars[node.name] = f

    def x_Global(self, node, env):
        if env.func is not None:
            env.func.global_names = set(getattr(env.func, 'global_names', ())) | set(node.names)

    def x_Nonlocal(self, node, env):
        self.unsupported("nonlocal", node)

    def x_Delete(self, node, env):
        for t in node.targets:
            if isinstance(t, ast.Name):
                env.vars.pop(t.id, None)
            elif isinstance(t, ast.Subscript):
                obj = self.eval(t.value, env)
                idx = self.eval_index(t.slice, env)
                self.models.delete_subscript(self, obj, idx, node)
            else:
                self.unsupported("del target", node)

    def x_Import(self, node, env):
        import importlib
        for a in node.names:
            mod = importlib.import_module(a.name)
            env.vars[a.asname or a.name.split('.')[0]] = mod if a.asname else importlib.import_module(a.name.split('.')[0])

    def x_ImportFrom(self, node, env):
        import importlib
        if node.level:
            self.unsupported("relative import inside function", node)
        mod = importlib.import_module(node.module)
        for a in node.names:
            env.vars[a.asname or a.name] = self.wrap(getattr(mod, a.name))

    # ------------------------------------------------------------------ iteration
    def iterate(self, v, node=None):
        """items of an iterable of concrete length"""
        if isinstance(v, tuple):
            return list(v)
        if isinstance(v, SList):
            if any(isinstance(x, SeqPart) for x in v.items):
                self.unsupported("iteration over a list with a segment of symbolic length", node)
            return list(v.items)
        if isinstance(v, SymColl):
            return [Repeat(None, v.part)]        # only meaningful to comprehensions (see comp_iter)
        if isinstance(v, SDict):
            return list(v.d.keys())
        if isinstance(v, SSet):
            return list(v.items)
        if isinstance(v, SGen):
            return list(v.items)
        if isinstance(v, str):
            return list(v)
        if isinstance(v, SStr):
            v = self.force_known_len(v, node)
            return [c if isinstance(c, str) else SStr([c]) for c in str_chars(v)]
        if isinstance(v, range):
            return list(v)
        if isinstance(v, list):      # produced by builtin models (enumerate, zip...)
            return list(v)
        if hasattr(v, 'iter_items'):
            return v.iter_items(self)
        self.unsupported(f"iteration over {type(v).__name__}", node)

    def expand_known(self, s):
        """replace unknown-length parts that were already expanded into characters"""
        if not isinstance(s, SStr) or not any(isinstance(p, Sq) for p in s.parts):
            return s
        new = []
        for p in s.parts:
            if isinstance(p, Sq):
                ex = self.st.notes.get(('expand', p.z.sexpr()))
                if ex is not None:
                    new.extend(ex)
                    continue
            new.append(p)
        return mk_str(new)

    def force_known_len(self, s, node=None):
        """if the path condition fixes the length of every unknown-length part of s, expand
        them to symbolic characters (s is left unchanged, an equal SStr is returned)"""
        if str_known_len(s) is not None:
            return s
        new = []
        for p in s.parts:
            if not isinstance(p, Sq):
                new.append(p)
                continue
            key = ('expand', p.z.sexpr())
            if key in self.st.notes:
                new.extend(self.st.notes[key])
                continue
            L = z3.Length(p.z)
            n = self.st.forced_int(L)
            if n is None:
                self.unsupported("iteration/indexing over a string whose length is not fixed", node)
            chars = []
            for i in range(n):
                c = self.st.fresh_int('c')
                self.st.assume(z3.And(c >= 0, c <= MAXCODE))
                chars.append(Ch(c))
            if n:
                self.st.assume(p.z == z3.Concat(*[z3.StrFromCode(c.code) for c in chars])
                               if n > 1 else p.z == z3.StrFromCode(chars[0].code), lazy=True)
            self.st.notes[key] = chars
            new.extend(chars)
        return mk_str(new)

    # ------------------------------------------------------------------ expressions
    def eval(self, node, env):
        m = getattr(self, 'e_' + type(node).__name__, None)
        if m is None:
            self.unsupported(f"expression {type(node).__name__}", node)
        return m(node, env)

    def e_Constant(self, node, env):
        return node.value

    def e_Name(self, node, env):
        name = node.id
        ok, v = env.lookup(name)
        if ok:
            return v
        modname = env.func.modname if env.func else None
        if (modname, name) in self.global_over:
            return self.global_over[(modname, name)]
        g = env.pyglobals
        if name in g:
            return self.wrap(g[name])
        if hasattr(_bi, name):
            return getattr(_bi, name)
        spec = self.config.get('spec_builtins', {})
        if name in spec:
            return spec[name]
        raise PyRaise(NameError, lineno=node.lineno)

    def e_Tuple(self, node, env):
        return tuple(self.eval_elts(node.elts, env))

    def e_List(self, node, env):
        return SList(self.eval_elts(node.elts, env))

    def e_Set(self, node, env):
        return SSet(self.eval_elts(node.elts, env))

    def eval_elts(self, elts, env):
        out = []
        for e in elts:
            if isinstance(e, ast.Starred):
                out.extend(self.iterate(self.eval(e.value, env), e))
            else:
                out.append(self.eval(e, env))
        return out

    def e_Dict(self, node, env):
        d = SDict()
        for k, v in zip(node.keys, node.values):
            if k is None:
                src = self.eval(v, env)
                if not isinstance(src, SDict):
                    self.unsupported("** of a non-dict", node)
                d.d.update(src.d)
            else:
                kv = self.eval(k, env)
                if not is_concrete(kv):
                    self.unsupported("dict display with symbolic key", node)
                d.d[kv] = self.eval(v, env)
        return d

    def e_JoinedStr(self, node, env):
        parts = []
        for v in node.values:
            if isinstance(v, ast.Constant):
                parts.append(v.value)
            else:
                parts.extend(str_parts(self.eval(v, env)))
        return mk_str(parts)

    def e_FormattedValue(self, node, env):
        v = self.eval(node.value, env)
        spec = ""
        if node.format_spec is not None:
            spec = self.eval(node.format_spec, env)
        if node.conversion == ord('r'):
            v = self.models.py_repr(self, v)
        elif node.conversion == ord('s'):
            v = self.models.py_str(self, v)
        elif node.conversion not in (-1, None):
            self.unsupported("f-string conversion", node)
        return self.models.py_format(self, v, spec, node)

    def e_Lambda(self, node, env):
        return FuncRef(node, env.func.modname if env.func else '?', '<lambda>', closure=env,
                       pyglobals=env.pyglobals)

    def e_IfExp(self, node, env):
        if self.branch(self.truth(self.eval(node.test, env))):
            return self.eval(node.body, env)
        return self.eval(node.orelse, env)

    def e_UnaryOp(self, node, env):
        v = self.eval(node.operand, env)
        if isinstance(node.op, ast.Not):
            t = self.truth(v)
            return bool_value(znot(t))
        if isinstance(node.op, ast.USub):
            if is_intlike(v):
                return int_binop(self.st, '-', 0, v)
            if isinstance(v, float):
                return -v
        if isinstance(node.op, ast.UAdd) and is_intlike(v):
            return v
        self.unsupported("unary operator", node)

    def e_BoolOp(self, node, env):
        is_and = isinstance(node.op, ast.And)
        vals = node.values
        cur = self.eval(vals[0], env)
        for nxt in vals[1:]:
            t = self.truth(cur)
            if isinstance(t, bool):
                if t != is_and:
                    return cur           # short circuit
                cur = self.eval(nxt, env)
                continue
            # symbolic left operand; already decided on this path?
            kt = self.st.known_truth(t)
            if kt is not None:
                if kt != is_and:
                    return cur if not isinstance(cur, SBool) else kt
                cur = self.eval(nxt, env)
                continue
            if isinstance(cur, SBool) and (self.spec_depth > 0 or _is_pure_expr(nxt)):
                r = self.try_pure(nxt, env, t if is_and else z3.Not(t))
                if r is not None:
                    rv = r[0]
                    if isinstance(rv, bool) or isinstance(rv, SBool):
                        zr = to_zbool(rv)
                        cur = mk_bool(z3.And(t, zr) if is_and else z3.Or(t, zr))
                        continue
            if self.branch(t) != is_and:
                return cur
            cur = self.eval(nxt, env)
        return cur

    def try_pure(self, node, env, assumption):
        """evaluate a side-effect free expression under a temporary assumption, without
        forking; returns (value,) or None when a fork / exception would be needed"""
        return self.try_pure_call(lambda: self.eval(node, env), assumption)

    def try_pure_call(self, fn, assumption):
        st = self.st
        n_pc = len(st.pc)
        n_taken, n_idx, n_alts = len(st.taken), st.idx, len(st.alts)
        n_vcs = len(st.vcs)
        counter = st.counter
        n_undo = len(st.undo_log)
        n_keep = len(st.keep)
        st.solver.push()
        st.pc.append(assumption)
        st.solver_add(assumption)
        self.nofork += 1
        kept = None
        try:
            v = fn()
            if len(st.taken) != n_taken:
                raise NeedFork()
            # definitions of fresh symbols introduced inside are kept
            kept = list(st.pc[n_pc + 1:])
            return (v,)
        except (NeedFork, PyRaise, Infeasible):
            st.notes.pop('spec_memo', None)      # values computed inside may rest on dropped definitions
            while len(st.undo_log) > n_undo:
                st.undo_log.pop()()
            del st.taken[n_taken:]
            st.idx = n_idx
            del st.alts[n_alts:]
            del st.vcs[n_vcs:]
            st.counter = counter
            return None
        finally:
            self.nofork -= 1
            # decisions cached inside were taken under the temporary assumption: they must not outlive it
            for cnd in st.keep[n_keep:]:
                st.decided.pop(cnd.get_id(), None)
            del st.keep[n_keep:]
            del st.pc[n_pc:]
            st.solver.pop()
            if kept:
                for c in kept:
                    st.pc.append(c)
                    st.solver_add(c)

    def e_Compare(self, node, env):
        left = self.eval(node.left, env)
        acc = True
        for op, rn in zip(node.ops, node.comparators):
            right = self.eval(rn, env)
            r = self.compare(op, left, right, node)
            if len(node.ops) == 1:
                return r
            t = self.truth(r)
            acc = zand(acc, t)
            if acc is False:
                return False
            left = right
        return bool_value(acc)

    def compare(self, op, a, b, node=None):
        if isinstance(op, ast.Is):
            return identical(a, b)
        if isinstance(op, ast.IsNot):
            r = identical(a, b)
            return bool_value(znot(self.truth(r)))
        if isinstance(op, ast.Eq):
            return bool_value(self.equals(a, b))
        if isinstance(op, ast.NotEq):
            return bool_value(znot(self.equals(a, b)))
        if isinstance(op, ast.In):
            return bool_value(self.contains(b, a, node))
        if isinstance(op, ast.NotIn):
            return bool_value(znot(self.contains(b, a, node)))
        sym = {ast.Lt: '<', ast.LtE: '<=', ast.Gt: '>', ast.GtE: '>='}[type(op)]
        if is_intlike(a) and is_intlike(b):
            return bool_value(int_cmp(sym, a, b))
        if is_concrete(a) and is_concrete(b):
            try:
                return {'<': a < b, '<=': a <= b, '>': a > b, '>=': a >= b}[sym]
            except TypeError:
                raise PyRaise(TypeError)
        if is_strlike(a) and is_strlike(b):
            # python orders str by code points, lexicographically: the same order as SMT-LIB str.< / str.<=
            za, zb = str_z3(a), str_z3(b)
            return bool_value({'<': za < zb, '<=': za <= zb, '>': zb < za, '>=': zb <= za}[sym])
        if isinstance(a, tuple) and isinstance(b, tuple) and len(a) == len(b) \
                and all(is_intlike(x) and is_intlike(y) for x, y in zip(a, b)):
            # lexicographic order of equal-length tuples of integers
            strict = sym in ('<', '>')
            xs, ys = (a, b) if sym in ('<', '<=') else (b, a)
            acc = z3.BoolVal(not strict)            # all components equal
            for x, y in reversed(list(zip(xs, ys))):
                zx, zy = to_zint(x), to_zint(y)
                acc = z3.Or(zx < zy, z3.And(zx == zy, acc))
            return bool_value(z3.simplify(acc))
        if a is None or b is None or (kind_of(a) != kind_of(b) and {kind_of(a), kind_of(b)} != {'int', 'float'}):
            if kind_of(a) in ('obj', 'opaque', 'other') or kind_of(b) in ('obj', 'opaque', 'other'):
                self.unsupported("ordering comparison on objects", node)
            raise PyRaise(TypeError)
        self.unsupported(f"ordering comparison of {kind_of(a)} values", node)

    def equals(self, a, b):
        """python == : bool or z3 Bool"""
        for x, y, refl in ((a, b, False), (b, a, True)):
            if isinstance(x, SObj):
                m = self.find_method(x.cls, '__eq__')
                if m is not None:
                    r = self.call(BoundMethod(m, x), [y], {})
                    if r is NotImplemented:
                        continue
                    return self.truth(r)
                elif '__eq__' in x.cls.__dict__ or dataclasses.is_dataclass(x.cls):
                    if dataclasses.is_dataclass(x.cls) and isinstance(y, SObj) and y.cls is x.cls:
                        return zand(*[self.equals(x.fields[f.name], y.fields[f.name])
                                      for f in dataclasses.fields(x.cls) if f.compare])
                    if dataclasses.is_dataclass(x.cls):
                        continue
        if isinstance(a, SObj) or isinstance(b, SObj):
            return identical(a, b) if isinstance(a, SObj) and isinstance(b, SObj) else False
        if isinstance(a, SStr) or isinstance(b, SStr):
            if is_strlike(a) and is_strlike(b):
                return str_eq(self.expand_known(a), self.expand_known(b))
        if isinstance(a, (tuple, SList)) and isinstance(b, (tuple, SList)) and kind_of(a) == kind_of(b):
            ia = a if isinstance(a, tuple) else a.items
            ib = b if isinstance(b, tuple) else b.items
            if any(isinstance(x, SeqPart) for x in ia) or any(isinstance(x, SeqPart) for x in ib):
                return values_eq(self.st, a, b)
            if len(ia) != len(ib):
                return False
            return zand(*[self.equals(x, y) for x, y in zip(ia, ib)])
        return values_eq(self.st, a, b)

    def contains(self, container, x, node=None):
        if isinstance(container, (tuple, SList, SSet)):
            items = container if isinstance(container, tuple) else container.items
            return zor(*[self.equals(x, i) for i in items])
        if isinstance(container, SDict):
            if isinstance(x, SObj):
                return x in container.d          # heap objects are keys by identity
            if is_concrete(x):
                try:
                    return x in container.d
                except TypeError:
                    raise PyRaise(TypeError)
            if isinstance(x, (tuple, SList, SDict, SObj)) and not isinstance(x, tuple):
                raise PyRaise(TypeError)     # unhashable
            dom = known_domain(self.st, x) if isinstance(x, (SInt, SStr)) else None
            if dom is not None:
                inside = [k for k in container.d if k in dom]
                if len(inside) == len(dom):
                    return True
                return zor(*[self.equals(x, k) for k in inside])
            return zor(*[self.equals(x, k) for k in container.d])
        if is_strlike(container):
            if not is_strlike(x):
                raise PyRaise(TypeError)
            return str_contains(container, x)
        if hasattr(container, 'contains_model'):
            return container.contains_model(self, x)
        self.unsupported(f"'in' on {type(container).__name__}", node)

    def e_BinOp(self, node, env):
        return self.binop(node.op, self.eval(node.left, env), self.eval(node.right, env), node)

    def binop(self, op, a, b, node=None, inplace=False):
        sym = {ast.Add: '+', ast.Sub: '-', ast.Mult: '*', ast.FloorDiv: '//', ast.Mod: '%',
               ast.Pow: '**', ast.BitOr: '|', ast.Div: '/', ast.BitAnd: '&'}.get(type(op))
        if sym is None:
            self.unsupported("binary operator", node)
        # user-defined operators
        if isinstance(a, SObj) or isinstance(b, SObj):
            names = {'+': ('__add__', '__radd__', '__iadd__'), '-': ('__sub__', '__rsub__', '__isub__'),
                     '*': ('__mul__', '__rmul__', '__imul__'), '|': ('__or__', '__ror__', '__ior__')}.get(sym)
            if names:
                if isinstance(a, SObj):
                    if inplace:
                        m = self.find_method(a.cls, names[2])
                        if m is not None:
                            return self.call(BoundMethod(m, a), [b], {})
                    m = self.find_method(a.cls, names[0])
                    if m is not None:
                        r = self.call(BoundMethod(m, a), [b], {})
                        if r is not NotImplemented:
                            return r
                if isinstance(b, SObj):
                    m = self.find_method(b.cls, names[1])
                    if m is not None:
                        r = self.call(BoundMethod(m, b), [a], {})
                        if r is not NotImplemented:
                            return r
                raise PyRaise(TypeError)
            self.unsupported("operator on objects", node)
        if is_intlike(a) and is_intlike(b) and sym in ('+', '-', '*', '//', '%', '**'):
            return int_binop(self.st, sym, a, b)
        if sym == '+':
            if is_strlike(a) and is_strlike(b):
                return str_concat(a, b)
            if (isinstance(a, SymList) and a.pytype is list and isinstance(b, (SList, SymList))) or \
                    (isinstance(a, SList) and isinstance(b, SymList) and b.pytype is list):
                def seg(x):
                    return [ListSeg(x.snapshot())] if isinstance(x, SymList) else list(x.items)
                if inplace and isinstance(a, SList):
                    a.items.extend(seg(b))
                    return a
                if inplace:
                    self.unsupported("+= on a list of symbolic length", node)
                return SList(seg(a) + seg(b))
            if isinstance(a, SList) and isinstance(b, SList):
                if inplace:
                    a.items.extend(b.items)
                    return a
                return SList(a.items + b.items)
            if isinstance(a, SList) and inplace:
                a.items.extend(self.iterate(b, node))
                return a
            if isinstance(a, tuple) and isinstance(b, tuple):
                return a + b
            if isinstance(a, (bytes, SBytes)) and isinstance(b, (bytes, SBytes)):
                return self.models.bytes_concat(self, a, b)
            if isinstance(a, float) or isinstance(b, float):
                if is_concrete(a) and is_concrete(b):
                    return a + b
            if kind_of(a) != kind_of(b) and kind_of(a) in ('str', 'int', 'list', 'tuple', 'none', 'bytes') \
                    and kind_of(b) in ('str', 'int', 'list', 'tuple', 'none', 'bytes'):
                raise PyRaise(TypeError)
        if sym == '*':
            if is_strlike(a) and is_intlike(b):
                return str_repeat(self.st, a, b)
            if is_strlike(b) and is_intlike(a):
                return str_repeat(self.st, b, a)
            if isinstance(a, SList) and isinstance(b, int):
                return SList(a.items * b)
            if isinstance(a, tuple) and isinstance(b, int):
                return a * b
        if sym == '|':
            if isinstance(a, SSet) and isinstance(b, SSet):
                return SSet(a.items + [x for x in b.items if self.contains(a, x) is not True])
            if isinstance(a, SDict) and isinstance(b, SDict):
                d = SDict(a.d)
                d.d.update(b.d)
                return d
        if sym == '%' and is_strlike(a):
            self.unsupported("% string formatting", node)
        if is_concrete(a) and is_concrete(b):
            try:
                import operator
                return {'+': operator.add, '-': operator.sub, '*': operator.mul, '/': operator.truediv,
                        '//': operator.floordiv, '%': operator.mod, '**': operator.pow,
                        '|': operator.or_, '&': operator.and_}[sym](a, b)
            except TypeError:
                raise PyRaise(TypeError)
            except ZeroDivisionError:
                raise PyRaise(ZeroDivisionError)
        self.unsupported(f"operator {sym} on {kind_of(a)}/{kind_of(b)}", node)

    # ------------------------------------------------------------------ attributes
    def e_Attribute(self, node, env):
        return self.getattr(self.eval(node.value, env), node.attr, node)

    def getattr(self, obj, name, node=None):
        if name in self.config.get('watch_attrs', ()) and isinstance(obj, SObj) and self.spec_depth == 0:
            self.st.events.append(('load', name, obj.tag, tuple(sorted(k for k, v in getattr(self, 'lock_depth', {}).items() if v > 0))))
        if isinstance(obj, SObj):
            if name in obj.fields:
                return obj.fields[name]
            return self.class_attr(obj.cls, name, obj, node)
        if isinstance(obj, type):
            if (obj, name) in self.class_attrs:
                return self.class_attrs[(obj, name)]
            if obj.__module__ in self.world.sources or self.models.class_model(self, obj) is None:
                return self.class_attr(obj, name, None, node)
        if isinstance(obj, types.ModuleType):
            if (obj.__name__, name) in self.global_over:
                return self.global_over[(obj.__name__, name)]
            if not hasattr(obj, name):
                raise PyRaise(AttributeError)
            return self.wrap(getattr(obj, name))
        if isinstance(obj, SSuper):
            for k in obj.obj.cls.__mro__[obj.obj.cls.__mro__.index(obj.cls) + 1:] if isinstance(obj.obj, SObj) \
                    else obj.cls.__mro__[1:]:
                if name in k.__dict__:
                    raw = k.__dict__[name]
                    f = raw.__func__ if isinstance(raw, (classmethod, staticmethod)) else raw
                    if isinstance(f, types.FunctionType) and self.world.is_source_func(f):
                        fr = self.funcref_of(f, k)
                        if isinstance(raw, staticmethod):
                            return fr
                        if isinstance(raw, classmethod):
                            return BoundMethod(fr, obj.obj.cls if isinstance(obj.obj, SObj) else obj.obj)
                        return BoundMethod(fr, obj.obj)
                    if k is object and name == '__init__':
                        return _bi.object.__init__
                    lm = self.world.lib_model(f)
                    if lm is not None:
                        target = obj.obj
                        return _LibBound(lm, target)
                    self.unsupported(f"super().{name} not in source", node)
            raise PyRaise(AttributeError)
        r = self.models.get_attr(self, obj, name, node)
        if r is not NotImplemented:
            return r
        if isinstance(obj, Sym) or obj is None or isinstance(obj, (int, str, float, tuple, bytes)):
            return BuiltinMethod(obj, name) if self.models.has_method(obj, name) else self._attr_error(obj, name)
        self.unsupported(f"attribute {name} of {type(obj).__name__}", node)

    def _attr_error(self, obj, name):
        # the real type has this attribute but it is not modelled: outside the subset (never a
        # made-up AttributeError)
        try:
            t = type_of(obj)
        except Unsupported:
            t = None
        if t is None or hasattr(t, name):
            raise Unsupported(f"attribute/method '{name}' of {getattr(t, '__name__', '?')} is not modelled")
        raise PyRaise(AttributeError)

    def class_attr(self, cls, name, instance, node=None):
        if (cls, name) in self.class_attrs:
            return self.class_attrs[(cls, name)]
        for k in cls.__mro__:
            if (k, name) in self.class_attrs:
                return self.class_attrs[(k, name)]
            if name in k.__dict__:
                raw = k.__dict__[name]
                if isinstance(raw, staticmethod):
                    f = raw.__func__
                    return self.funcref_of(f, k) if self.world.is_source_func(f) else self.wrap(f)
                if isinstance(raw, classmethod):
                    f = raw.__func__
                    if self.world.is_source_func(f):
                        return BoundMethod(self.funcref_of(f, k), cls)
                    self.unsupported(f"classmethod {name} not in source", node)
                if isinstance(raw, types.FunctionType):
                    if self.world.is_source_func(raw):
                        fr = self.funcref_of(raw, k)
                        return BoundMethod(fr, instance) if instance is not None else fr
                    if instance is not None:
                        self.unsupported(f"method {k.__name__}.{name} not in source", node)
                    return raw
                if isinstance(raw, property):
                    if instance is None:
                        return raw
                    if self.world.is_source_func(raw.fget):
                        return self.call(BoundMethod(self.funcref_of(raw.fget, k), instance), [], {})
                    self.unsupported("property not in source", node)
                if type(raw).__name__ in ('member_descriptor', 'getset_descriptor'):
                    if instance is not None:
                        raise PyRaise(AttributeError)     # unset slot
                    return PyOpaque(raw)
                return self.wrap(raw)
        if name == '__name__':
            return cls.__name__
        raise PyRaise(AttributeError)

    def setattr(self, obj, name, v, node=None):
        if name in self.config.get('watch_attrs', ()) and isinstance(obj, SObj):
            self.st.events.append(('store', name, obj.tag, tuple(sorted(k for k, v2 in getattr(self, 'lock_depth', {}).items() if v2 > 0))))
        if isinstance(obj, SObj):
            if obj.tag in ('symlist-element', 'symlist-element-part') or id(obj) in self.st.notes.get('frozen', ()):
                self.unsupported("store into an element of a list of symbolic length (elements are read-only views)", node)
            obj.fields[name] = v
            return
        if isinstance(obj, type):
            self.class_attrs[(obj, name)] = v
            return
        if isinstance(obj, types.ModuleType):
            self.global_over[(obj.__name__, name)] = v
            return
        if obj is None or isinstance(obj, (int, str, SInt, SStr, SBool, tuple, SList, SDict)):
            raise PyRaise(AttributeError)
        self.unsupported(f"attribute store on {type(obj).__name__}", node)

    # ------------------------------------------------------------------ subscripts
    def e_Slice(self, node, env):
        return slice(self.eval(node.lower, env) if node.lower else None,
                     self.eval(node.upper, env) if node.upper else None,
                     self.eval(node.step, env) if node.step else None)

    def eval_index(self, node, env):
        return self.eval(node, env)

    def e_Subscript(self, node, env):
        obj = self.eval(node.value, env)
        idx = self.eval_index(node.slice, env)
        return self.subscript(obj, idx, node)

    def subscript(self, obj, idx, node=None):
        return self.models.subscript(self, obj, idx, node)

    def store_subscript(self, obj, idx, v, node=None):
        return self.models.store_subscript(self, obj, idx, v, node)

    # ------------------------------------------------------------------ calls / comprehensions
    def e_Call(self, node, env):
        # special forms
        if isinstance(node.func, ast.Name):
            nm = node.func.id
            if nm == 'old' and 'old_env' in self.config and not env.lookup('old')[0]:
                return self.eval(node.args[0], self.config['old_env'])
            if nm == 'super' and not node.args:
                ok, selfv = env.lookup(env.func.node.args.args[0].arg) if env.func else (False, None)
                return SSuper(env.func.cls, selfv)
        f = self.eval(node.func, env)
        args = []
        for a in node.args:
            if isinstance(a, ast.Starred):
                sv = self.eval(a.value, env)
                if isinstance(sv, SymList):
                    args.append(StarSym(sv))
                else:
                    args.extend(self.iterate(sv, a))
            else:
                args.append(self.eval(a, env))
        kwargs = {}
        for k in node.keywords:
            if k.arg is None:
                d = self.eval(k.value, env)
                if not isinstance(d, SDict):
                    self.unsupported("** of non-dict", node)
                for kk, vv in d.d.items():
                    kwargs[kk] = vv
            else:
                kwargs[k.arg] = self.eval(k.value, env)
        return self.call(f, args, kwargs, node)

    def comp_iter(self, generators, env, body):
        def rec(i, e):
            if i == len(generators):
                body(e)
                return
            g = generators[i]
            pre = getattr(self, '_iter_cache', None)
            if i == 0 and pre and id(g) in pre:
                itv = pre.pop(id(g))
            else:
                itv = self.eval(g.iter, e)
            if isinstance(itv, (SymList, EnumSym, SymRange, ZipSym, SliceSym)):
                self.unsupported("comprehension over a list of symbolic length", g)
            for x in self.iterate(itv, g):
                e2 = Env({}, parent=e)
                if isinstance(x, Repeat):
                    # one generic (opaque) element stands for every element of the symbolic segment;
                    # supported for a single generator without conditions only
                    if len(generators) != 1 or g.ifs:
                        self.unsupported("comprehension over a symbolic-length collection with conditions", g)
                    self.assign(g.target, SOpaque(self.st.fresh_name('elem'), None, self.st.fresh_bool('t')), e2)
                    n0 = len(self._comp_out) if hasattr(self, '_comp_out') else None
                    marker = _RepeatBody(x.part)
                    self._repeat_stack = getattr(self, '_repeat_stack', [])
                    self._repeat_stack.append(marker)
                    try:
                        rec(i + 1, e2)
                    finally:
                        self._repeat_stack.pop()
                    continue
                self.assign(g.target, x, e2)
                ok = True
                for cond in g.ifs:
                    if not self.branch(self.truth(self.eval(cond, e2))):
                        ok = False
                        break
                if ok:
                    rec(i + 1, e2)
        rec(0, env)

    def e_ListComp(self, node, env):
        out = []
        self.comp_iter(node.generators, env, lambda e: out.append(self.eval(node.elt, e)))
        return SList(out)

    def _comp_value(self, node, e):
        v = self.eval(node.elt, e)
        rs = getattr(self, '_repeat_stack', [])
        if rs:
            return Repeat(v, rs[-1].part)
        return v

    def sym_generator(self, node, env, itv):
        """generator expression over a list / range of symbolic length: one element expression over a bound index"""
        g = node.generators[0]
        if len(node.generators) != 1 or g.ifs:
            self.unsupported("generator over a list of symbolic length with conditions / nested loops", node)
        st = self.st
        j = st.fresh_int('j')
        e2 = Env({}, parent=env)
        if isinstance(itv, SymRange):
            lo, hi, src = itv.lo, itv.hi, None
        elif isinstance(itv, ZipSym):
            hi = itv.lists[0].n
            for L2 in itv.lists[1:]:
                hi = z3.If(L2.n < hi, L2.n, hi)
            lo, src = z3.IntVal(0), None
        elif isinstance(itv, SliceSym):
            lo, hi, src = z3.IntVal(0), itv.n, None
        else:
            L = itv.lst if isinstance(itv, EnumSym) else itv
            lo, hi, src = z3.IntVal(0), L.n, ListView(L)
        self.generic_depth = getattr(self, 'generic_depth', 0) + 1
        self.generic_ranges = getattr(self, 'generic_ranges', []) + [z3.And(lo <= j, j < hi)]
        try:
            if isinstance(itv, SymRange):
                tv = SInt(j)
            elif isinstance(itv, ZipSym):
                tv = tuple(self.models.symlist_generic_elem(self, L2.lst, z3.simplify(L2.lo + j)) if isinstance(L2, SliceSym)
                           else self.models.symlist_generic_elem(self, L2, j) for L2 in itv.lists)
            elif isinstance(itv, SliceSym):
                tv = self.models.symlist_generic_elem(self, itv.lst, z3.simplify(itv.lo + j))
            else:
                el = self.models.symlist_generic_elem(self, L, j)
                tv = (mk_int(j + itv.start), el) if isinstance(itv, EnumSym) else el

            def body():
                self.assign(g.target, tv, e2)
                return self.eval(node.elt, e2)
            r = self.try_pure_call(body, z3.And(lo <= j, j < hi))
        finally:
            self.generic_depth -= 1
            self.generic_ranges = self.generic_ranges[:-1]
        if r is None:
            self.unsupported("element expression of a generator over a list of symbolic length needs a case split", node)
        v = r[0]
        if isinstance(v, (bool, SBool)):
            return MapSym(src, j, v.z if isinstance(v, SBool) else z3.BoolVal(v), 'bool', lo, hi)
        if is_intlike(v):
            return MapSym(src, j, to_zint(v), 'int', lo, hi)
        if is_strlike(v):
            return MapSym(src, j, str_z3(v), 'str', lo, hi)
        self.unsupported("generator over a list of symbolic length yields non-scalar values", node)

    def e_GeneratorExp(self, node, env):
        g0 = node.generators[0]
        itv = self.eval(g0.iter, env)
        if isinstance(itv, (SymList, EnumSym, SymRange, ZipSym, SliceSym)):
            return self.sym_generator(node, env, itv)
        self._iter_cache = {id(g0): itv}       # evaluated once
        out = []
        self.comp_iter(node.generators, env, lambda e: out.append(self._comp_value(node, e)))
        return SGen(out)

    def e_SetComp(self, node, env):
        out = []
        self.comp_iter(node.generators, env, lambda e: out.append(self.eval(node.elt, e)))
        return SSet(out)

    def e_DictComp(self, node, env):
        d = SDict()

        def body(e):
            k = self.eval(node.key, e)
            if not is_concrete(k):
                self.unsupported("dict comprehension with symbolic key", node)
            d.d[k] = self.eval(node.value, e)
        self.comp_iter(node.generators, env, body)
        return d

    def e_Yield(self, node, env):
        if not self.gen_stack:
            self.unsupported("yield outside generator", node)
        self.gen_stack[-1].append(self.eval(node.value, env) if node.value else None)
        return None

    def e_YieldFrom(self, node, env):
        self.gen_stack[-1].extend(self.iterate(self.eval(node.value, env), node))
        return None

    def e_Starred(self, node, env):
        self.unsupported("starred expression", node)

    def e_NamedExpr(self, node, env):
        v = self.eval(node.value, env)
        self.assign(node.target, v, env)
        return v
