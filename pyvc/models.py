"""Models of built-in functions, methods of built-in types, subscripts, formatting, `with`.
Only the forms the contracted functions use are modelled; everything else is Unsupported
(the obligation is then undecided, never 'violated')."""
import builtins as _bi
import re as _re
import types

import z3

from .values import *   # noqa
from .ops import *      # noqa
from .ops import PyRaise


def _I():
    from . import interp
    return interp


# ---------------------------------------------------------------------------------------
# special python objects

class RePattern(Sym):
    """compiled regular expression, known by its pattern string"""

    def __init__(self, pattern, flags=0):
        self.pattern = pattern
        self.flags = flags
        self.pytype = _re.Pattern


class LockObj(Sym):
    def __init__(self, name):
        self.name = name
        self.pytype = type(None)


def wrap_special(I, x):
    if isinstance(x, _re.Pattern):
        return RePattern(x.pattern, x.flags)
    return None


def class_model(I, cls):
    return I.world.lib_model(cls)


# ---------------------------------------------------------------------------------------
# str / repr / format

def py_str(I, v, node=None):
    if isinstance(v, (str, SStr)):
        return v
    if v is None:
        return "None"
    if is_intlike(v):
        return int_to_str(I.st, v)
    if isinstance(v, float):
        return str(v)
    if isinstance(v, SObj):
        m = I.find_method(v.cls, '__str__')
        if m is not None:
            return I.call(_I().BoundMethod(m, v), [], {})
        m = I.find_method(v.cls, '__repr__')
        if m is not None:
            return I.call(_I().BoundMethod(m, v), [], {})
    if isinstance(v, SOpaque):
        f = z3.Function('str_of', OPAQUE, z3.StringSort())
        return SStr([Sq(f(z3.Const('val_' + v.name, OPAQUE)))])
    if isinstance(v, type):
        return str(v)
    if is_concrete(v):
        return str(v)
    raise Unsupported(f"str() of {type(v).__name__}")


def py_repr(I, v):
    if is_concrete(v):
        return repr(v)
    raise Unsupported("repr() of a symbolic value")


def py_format(I, v, spec, node=None):
    if spec == "" or spec is None:
        if isinstance(v, SObj):
            m = I.find_method(v.cls, '__format__')
            if m is not None:
                return I.call(_I().BoundMethod(m, v), [""], {})
        return py_str(I, v, node)
    if isinstance(v, SObj):
        m = I.find_method(v.cls, '__format__')
        if m is not None:
            return I.call(_I().BoundMethod(m, v), [spec], {})
    if is_concrete(v) and isinstance(spec, str):
        try:
            return format(v, spec)
        except (ValueError, TypeError) as e:
            raise PyRaise(type(e))
    if isinstance(spec, str) and is_intlike(v) and not isinstance(v, (bool, SBool)):
        m = _re.fullmatch(r'0(\d+)d?', spec)
        if m:
            # zero padded decimal of a non-negative int: uninterpreted, injective on n >= 0
            # (assumption recorded); exact digits are not needed by any obligation
            width = int(m.group(1))
            zv = to_zint(v)
            if not I.st.implied(zv >= 0):
                raise Unsupported("zero-padded format of a possibly negative int")
            note = (f"format(n, '0{width}') for n >= 0 is an uninterpreted function: injective, at least {width} "
                    f"characters, exactly {width} when n < 10**{width} (assumed; true of python's format)")
            if note not in I.st.assumed:
                I.st.assumed.append(note)
            f = z3.Function(f'fmt0_{width}', z3.IntSort(), z3.StringSort())
            t = f(zv)
            I.st.assume(z3.Length(t) >= width)
            I.st.assume(z3.Implies(zv < 10 ** width, z3.Length(t) == width))
            apps = I.st.notes.setdefault(('fmt0', width), [])
            for other in apps:
                I.st.assume(z3.Implies(other != zv, f(other) != t))
            apps.append(zv)
            return SStr([Sq(t)])
    raise Unsupported(f"format spec {spec!r} on a symbolic value")


# ---------------------------------------------------------------------------------------
# builtin functions

def call_builtin(I, f, args, kwargs, node=None):
    name = getattr(f, '__name__', None)
    h = _BUILTINS.get(f)
    if h is None:
        raise Unsupported(f"call of builtin/library function {getattr(f, '__module__', '?')}.{name}")
    return h(I, args, kwargs, node)


def b_len(I, args, kwargs, node):
    (v,) = args
    if isinstance(v, (str, SStr)):
        n = str_len(v)
        return n if isinstance(n, int) else mk_int(n)
    if isinstance(v, tuple):
        return len(v)
    if isinstance(v, SList):
        parts = [x for x in v.items if isinstance(x, SeqPart)]
        if parts:
            return mk_int(z3.Sum([z3.IntVal(len(v.items) - len(parts))] + [p.n for p in parts]))
        return len(v.items)
    if isinstance(v, SymColl):
        return mk_int(v.part.n)
    if isinstance(v, SymList):
        _alive(v)
        return mk_int(v.n)
    if isinstance(v, SliceSym):
        return mk_int(v.n)
    if isinstance(v, SDict):
        return len(v.d)
    if isinstance(v, SSet):
        return len(v.items)
    if isinstance(v, bytes):
        return len(v)
    if isinstance(v, SObj):
        m = I.find_method(v.cls, '__len__')
        if m is not None:
            return I.call(_I().BoundMethod(m, v), [], {})
        raise PyRaise(TypeError)
    if hasattr(v, 'len_model'):
        return v.len_model(I)
    if v is None or is_intlike(v) or isinstance(v, float):
        raise PyRaise(TypeError)
    raise Unsupported(f"len of {type(v).__name__}")


def _class_tuple(t):
    if isinstance(t, tuple):
        out = []
        for x in t:
            out.extend(_class_tuple(x))
        return out
    return [t]


def b_isinstance(I, args, kwargs, node):
    v, t = args
    ts = _class_tuple(t)
    vt = type_of(v)
    for k in ts:
        if not isinstance(k, type):
            raise Unsupported("isinstance with a non-class")
    return any(issubclass(vt, k) for k in ts)


def b_issubclass(I, args, kwargs, node):
    a, b = args
    return issubclass(a, tuple(_class_tuple(b)))


def b_type(I, args, kwargs, node):
    if len(args) != 1:
        raise Unsupported("type() with 3 arguments")
    return type_of(args[0])


def b_str(I, args, kwargs, node):
    if not args:
        return ""
    return py_str(I, args[0], node)


def b_repr(I, args, kwargs, node):
    return py_repr(I, args[0])


def b_int(I, args, kwargs, node):
    if not args:
        return 0
    v = args[0]
    if len(args) > 1 or kwargs:
        raise Unsupported("int() with base")
    if is_intlike(v):
        return v if not isinstance(v, (bool, SBool)) else mk_int(to_zint(v))
    if isinstance(v, str):
        try:
            return int(v)
        except ValueError:
            raise PyRaise(ValueError)
    if isinstance(v, float):
        return int(v)
    if isinstance(v, SStr):
        return int_of_str(I, v)
    if v is None:
        raise PyRaise(TypeError)
    raise Unsupported(f"int() of {type(v).__name__}")


_DIGITS = z3.Plus(z3.Range("0", "9"))


def int_of_str(I, s):
    """int(s) for a symbolic string.  Three-way split:
       plain decimal digits  -> StrToInt;   provably not an int literal -> ValueError;
       the lenient forms of int() (sign, surrounding white space, '_' separators, non-ASCII
       digits) are outside the model: that path is cut and recorded as an assumption."""
    z = str_z3(s)
    st = I.st
    if I.branch(z3.InRe(z, _DIGITS)):
        return mk_int(z3.StrToInt(z))
    # characters that can occur in a lenient int literal: digits, sign, '_', white space,
    # and anything non-ASCII (unicode digits / spaces)
    lenient_char = z3.Union(z3.Range("0", "9"), z3.Re("+"), z3.Re("-"), z3.Re("_"),
                            z3.Range("\t", "\r"), z3.Range(chr(0x1c), " "),
                            z3.Range(chr(0x80), chr(MAXCODE)))
    maybe = z3.And(z3.InRe(z, z3.Plus(lenient_char)),
                   z3.Contains(z, z3.StringVal("")),)
    # must contain at least one digit-like character
    has_digit = z3.InRe(z, z3.Concat(z3.Star(lenient_char),
                                     z3.Union(z3.Range("0", "9"), z3.Range(chr(0x80), chr(MAXCODE))),
                                     z3.Star(lenient_char)))
    if I.branch(z3.And(maybe, has_digit)):
        st.assumed.append("int(s): lenient literal forms (sign, white space, '_', non-ASCII digits) "
                          "are outside the model; path cut")
        from .explore import Infeasible
        st.notes['cut'] = st.notes.get('cut', 0) + 1
        raise CutPath()
    raise PyRaise(ValueError)


class CutPath(Exception):
    """path leaves the modelled semantics; dropped and reported as an assumption"""


def b_bool(I, args, kwargs, node):
    if not args:
        return False
    return bool_value(I.truth(args[0]))


def b_tuple(I, args, kwargs, node):
    if not args:
        return ()
    return tuple(I.iterate(args[0], node))


def b_list(I, args, kwargs, node):
    if not args:
        return SList([])
    if isinstance(args[0], SymColl):
        return SList([args[0].part])
    if isinstance(args[0], SList):
        return SList(args[0].items)
    if isinstance(args[0], SymList):
        c = args[0].snapshot()      # a copy: same elements, its own identity
        c.origin = None
        return c
    return SList(I.iterate(args[0], node))


def b_dict(I, args, kwargs, node):
    d = SDict()
    if args:
        src = args[0]
        if isinstance(src, SDict):
            d.d.update(src.d)
        else:
            for item in I.iterate(src, node):
                k, v = I.iterate(item, node)
                if not is_concrete(k):
                    raise Unsupported("dict() with symbolic key")
                d.d[k] = v
    for k, v in kwargs.items():
        d.d[k] = v
    return d


def b_set(I, args, kwargs, node):
    if not args:
        return SSet([])
    out = []
    for x in I.iterate(args[0], node):
        if not any(I.equals(x, y) is True for y in out):
            if not is_concrete(x):
                raise Unsupported("set() with symbolic members")
            out.append(x)
    return SSet(out)


def b_range(I, args, kwargs, node):
    if not all(isinstance(a, int) for a in args):
        if len(args) in (1, 2) and all(is_intlike(a) and not isinstance(a, (bool, SBool)) for a in args):
            lo, hi = (0, args[0]) if len(args) == 1 else args
            return SymRange(to_zint(lo), to_zint(hi))
        raise Unsupported("range() with symbolic bounds")
    return list(range(*args))


def symlist_base_elem(I, L, zi):
    """element zi of the ORIGINAL list (version 0; zi known to be in range and not overwritten): an object whose
    fields are function applications; the unfolding axioms of the registered folds are instantiated for this index"""
    zi = z3.simplify(zi) if z3.is_expr(zi) else z3.IntVal(zi)
    cache = I.st.notes.setdefault('symlist_elems', {})
    ck = (L.name, zi.get_id())
    if ck in cache:
        return cache[ck][1]
    e = _build_elem(L, lambda key: L.funcs[key][0](zi))
    for key, lo, hi in L.bounds:
        t = L.funcs[key][0](zi)
        if lo is not None:
            I.st.assume(t >= lo)
        if hi is not None:
            I.st.assume(t <= hi)
    for hook in I.config.get('symlist_hooks', []):
        hook(I, L, zi)
    cache[ck] = (zi, e)
    I.st.undo_log.append(lambda: cache.pop(ck, None))
    return e


def _build_elem(L, leaf):
    """element object (nested as the list's shape says); leaf(key) -> z3 expression of the scalar leaf"""
    def build(sh, top=False):
        if sh[0] == 'obj':
            return SObj(sh[1], {f: build(x) for f, x in sh[2].items()}, tag='symlist-element' if top else 'symlist-element-part')
        if sh[0] == 'tuple':
            return tuple(build(x) for x in sh[1])
        if sh[0] == 'const':
            return sh[1]
        t = leaf(sh[1])
        return SStr([Sq(t)]) if sh[2] == 'str' else (SInt(t) if sh[2] == 'int' else SBool(t))
    return build(L.shape, True)


def _alive(L):
    if L.poisoned:
        raise Unsupported(f"use of a list object after {L.poisoned} (an alias of a location that was abstracted)")


def symlist_elem(I, L, zi):
    """element zi (in range) of the current version: the object stored there by the latest write to that index
    (decided by forking on the index), else the original element"""
    _alive(L)
    zi = z3.simplify(zi) if z3.is_expr(zi) else z3.IntVal(zi)
    if getattr(I, 'generic_depth', 0):
        return symlist_generic_elem(I, L, zi)
    for idx, obj in reversed(L.over):
        if I.branch(zi == idx):
            return obj
    return symlist_base_elem(I, L, zi)


def symlist_generic_elem(I, L, zi, v=None):
    """element at an index that stands for every index (bound variable / skolem constant): a read-only view whose
    fields are If-chains over the writes; never forks"""
    return _build_elem(L, lambda key: L.field(key, zi, v))


def symlist_index(I, L, idx, node, exc=IndexError):
    """normalised position of a python index; IndexError when out of range"""
    if not is_intlike(idx):
        raise PyRaise(TypeError)
    zi = to_zint(idx)
    n = L.n
    in_range = z3.And(zi >= -n, zi < n)
    if getattr(I, 'generic_depth', 0):
        # usually a consequence of the range of the bound index alone: a tiny query, independent of the (possibly
        # string-heavy) path condition
        s0 = z3.Solver()
        s0.set('timeout', 2000)
        s0.add(*getattr(I, 'generic_ranges', []))
        s0.add(z3.Not(in_range))
        if s0.check() != z3.unsat and not I.st.implied(in_range):
            raise Unsupported("index into a list of symbolic length not known to be in range inside a quantified body")
    elif not I.branch(in_range):
        raise PyRaise(exc, lineno=getattr(node, 'lineno', None))
    if I.st.implied(zi >= 0):
        return z3.simplify(zi)
    if I.st.implied(zi < 0):
        return z3.simplify(zi + n)
    return z3.simplify(z3.If(zi >= 0, zi, zi + n))


def symlist_slice(I, L, sl):
    """L[a:b] (step 1): a window on a snapshot; bounds normalised and clamped as python does"""
    _alive(L)
    if sl.step is not None:
        raise Unsupported("extended slice of a list of symbolic length")
    n = L.n

    def clamp(b, default):
        if b is None:
            return default
        if not is_intlike(b) or isinstance(b, (bool, SBool)):
            raise Unsupported("slice bound of a list of symbolic length is not an int")
        zb = to_zint(b)
        zb = z3.If(zb < 0, zb + n, zb)
        return z3.If(zb < 0, z3.IntVal(0), z3.If(zb > n, n, zb))
    lo = z3.simplify(clamp(sl.start, z3.IntVal(0)))
    hi = z3.simplify(clamp(sl.stop, n))
    cnt = z3.simplify(z3.If(hi - lo > 0, hi - lo, z3.IntVal(0)))
    return SliceSym(L.snapshot(), lo, cnt)


def symlist_write(I, L, pos, obj, node=None):
    """one mutation = one new version: (pos == current length: append; else store at pos)"""
    if L.shape[0] == 'leaf':
        if not (is_strlike(obj) if L.shape[2] == 'str' else is_intlike(obj)):
            raise Unsupported("store of a value of another kind into a list of symbolic length")
        is_append = z3.is_expr(pos) and pos.eq(L.n) or pos is L.n
        L.over.append((pos, obj))
        L.ns.append(z3.simplify(L.n + 1) if is_append else L.n)
        return
    if not isinstance(obj, SObj) or not issubclass(obj.cls, L.cls):
        raise Unsupported("store of a value of another kind into a list of symbolic length")
    for f in L.funcs:
        try:
            _at = __import__('pyvc.values', fromlist=['_at_path'])._at_path(obj, f)
        except (KeyError, IndexError, ValueError):
            raise Unsupported(f"object stored into a list of symbolic length lacks field {f}")
    I.st.notes.setdefault('frozen', {})[id(obj)] = obj      # from now on read-only (its fields are part of the list's value)
    is_append = z3.is_expr(pos) and pos.eq(L.n) or pos is L.n
    L.over.append((pos, obj))
    L.ns.append(z3.simplify(L.n + 1) if is_append else L.n)


def b_enumerate(I, args, kwargs, node):
    start = kwargs.get('start', args[1] if len(args) > 1 else 0)
    if isinstance(args[0], SymList):
        return EnumSym(args[0], start)
    return [(start + i, x) for i, x in enumerate(I.iterate(args[0], node))]


def b_zip(I, args, kwargs, node):
    if args and all(isinstance(a, (SymList, SliceSym)) for a in args):
        return ZipSym(list(args))
    return [tuple(t) for t in zip(*[I.iterate(a, node) for a in args])]


def b_reversed(I, args, kwargs, node):
    if isinstance(args[0], SymList):
        return RevSym(args[0])
    return list(reversed(I.iterate(args[0], node)))


def b_sorted(I, args, kwargs, node):
    items = I.iterate(args[0], node)
    key = kwargs.get('key')
    rev = kwargs.get('reverse', False)
    if key is not None:
        keys = [I.call(key, [x], {}) for x in items]
    else:
        keys = items

    def conc_key(k):
        # tuples whose first components are distinct concrete values can be ordered by them
        return k
    if all(is_concrete(k) for k in keys):
        try:
            order = sorted(range(len(items)), key=lambda i: keys[i], reverse=bool(rev))
        except TypeError:
            raise PyRaise(TypeError)
        return SList([items[i] for i in order])
    # (concrete key, symbolic value) pairs with distinct concrete first components
    if all(isinstance(k, tuple) and k and is_concrete(k[0]) for k in keys):
        firsts = [k[0] for k in keys]
        if len(set(firsts)) == len(firsts):
            try:
                order = sorted(range(len(items)), key=lambda i: firsts[i], reverse=bool(rev))
            except TypeError:
                raise PyRaise(TypeError)
            return SList([items[i] for i in order])
    raise Unsupported("sorted() over symbolic keys")


def b_minmax(kind):
    def h(I, args, kwargs, node):
        vals = list(args) if len(args) > 1 else I.iterate(args[0], node)
        if 'key' in kwargs:
            raise Unsupported("min/max with key")
        if not vals:
            if 'default' in kwargs:
                return kwargs['default']
            raise PyRaise(ValueError)
        if all(is_intlike(v) for v in vals):
            return int_minmax(kind, vals)
        if all(is_concrete(v) for v in vals):
            return (min if kind == 'min' else max)(vals)
        raise Unsupported("min/max over symbolic non-ints")
    return h


def b_abs(I, args, kwargs, node):
    (v,) = args
    if is_concrete(v):
        return abs(v)
    z = to_zint(v)
    return mk_int(z3.If(z >= 0, z, -z))


def b_divmod(I, args, kwargs, node):
    a, b = args
    if is_intlike(a) and is_intlike(b):
        return int_divmod(I.st, a, b)
    raise Unsupported("divmod on non-ints")


def b_any(I, args, kwargs, node):
    if isinstance(args[0], MapSym):
        from . import folds
        return SBool(folds.exists(_bool_map(I, args[0])))
    items = I.iterate(args[0], node)
    ts = [I.truth(x) for x in items]
    return bool_value(zor(*ts))


def _bool_map(I, m):
    if m.kind == 'bool':
        return m
    if m.kind == 'int':
        return MapSym(m.src, m.j, m.expr != 0, 'bool', m.lo, m.hi)
    return MapSym(m.src, m.j, z3.Length(m.expr) > 0, 'bool', m.lo, m.hi)


def b_all(I, args, kwargs, node):
    if isinstance(args[0], MapSym):
        from . import folds
        return SBool(folds.forall(_bool_map(I, args[0])))
    items = I.iterate(args[0], node)
    ts = [I.truth(x) for x in items]
    return bool_value(zand(*ts))


def b_sum(I, args, kwargs, node):
    if isinstance(args[0], MapSym):
        from . import folds
        r = folds.sum_of(I, args[0])
        return I.binop(_ADD, args[1], r, node) if len(args) > 1 else r
    items = I.iterate(args[0], node)
    acc = args[1] if len(args) > 1 else 0
    for x in items:
        acc = I.binop(_ADD, acc, x, node)
    return acc


import ast as _ast
_ADD = _ast.Add()


def b_getattr(I, args, kwargs, node):
    obj, name = args[0], args[1]
    if not isinstance(name, str):
        raise Unsupported("getattr with symbolic name")
    try:
        return I.getattr(obj, name, node)
    except PyRaise as e:
        if e.exc_type is AttributeError and len(args) > 2:
            return args[2]
        raise


def b_hasattr(I, args, kwargs, node):
    obj, name = args
    try:
        I.getattr(obj, name, node)
        return True
    except PyRaise as e:
        if e.exc_type is AttributeError:
            return False
        raise


def b_setattr(I, args, kwargs, node):
    obj, name, v = args
    I.setattr(obj, name, v, node)


def b_print(I, args, kwargs, node):
    return None


def b_callable(I, args, kwargs, node):
    v = args[0]
    return isinstance(v, (_I().FuncRef, _I().BoundMethod, type)) or callable(v) and not isinstance(v, Sym)


def b_id(I, args, kwargs, node):
    raise Unsupported("id()")


def b_object_init(I, args, kwargs, node):
    return None


def b_slice(I, args, kwargs, node):
    return slice(*args)


def b_format(I, args, kwargs, node):
    return py_format(I, args[0], args[1] if len(args) > 1 else "", node)


def b_next(I, args, kwargs, node):
    items = I.iterate(args[0], node)
    if items:
        return items[0]
    if len(args) > 1:
        return args[1]
    raise PyRaise(StopIteration)


def b_ord(I, args, kwargs, node):
    (c,) = args
    if isinstance(c, str):
        return ord(c)
    if isinstance(c, SStr) and str_known_len(c) == 1:
        return mk_int(char_code(str_chars(c)[0]))
    raise Unsupported("ord")


def b_chr(I, args, kwargs, node):
    (c,) = args
    if isinstance(c, int):
        return chr(c)
    return SStr([Ch(to_zint(c))])


_BUILTINS = {
    _bi.len: b_len, _bi.isinstance: b_isinstance, _bi.issubclass: b_issubclass, _bi.type: b_type,
    _bi.str: b_str, _bi.repr: b_repr, _bi.int: b_int, _bi.bool: b_bool, _bi.tuple: b_tuple,
    _bi.list: b_list, _bi.dict: b_dict, _bi.set: b_set, _bi.frozenset: b_set, _bi.range: b_range,
    _bi.enumerate: b_enumerate, _bi.zip: b_zip, _bi.reversed: b_reversed, _bi.sorted: b_sorted,
    _bi.min: b_minmax('min'), _bi.max: b_minmax('max'), _bi.abs: b_abs, _bi.divmod: b_divmod,
    _bi.any: b_any, _bi.all: b_all, _bi.sum: b_sum, _bi.getattr: b_getattr, _bi.hasattr: b_hasattr,
    _bi.setattr: b_setattr, _bi.print: b_print, _bi.callable: b_callable, _bi.id: b_id,
    _bi.object.__init__: b_object_init, _bi.slice: b_slice, _bi.format: b_format,
    _bi.ord: b_ord, _bi.chr: b_chr, _bi.next: b_next,
}


# ---------------------------------------------------------------------------------------
# methods of built-in values

_STR_METHODS = {'startswith', 'endswith', 'upper', 'lower', 'join', 'split', 'strip', 'lstrip', 'rstrip',
                'replace', 'find', 'isdigit', 'encode', 'format', 'isalpha', 'isspace', 'count',
                'splitlines', 'ljust', 'rjust', 'index', 'rfind', 'isidentifier', 'title', 'capitalize'}
_LIST_METHODS = {'append', 'extend', 'insert', 'pop', 'index', 'copy', 'reverse', 'clear', 'remove',
                 'sort', 'count'}
_DICT_METHODS = {'get', 'items', 'keys', 'values', 'copy', 'pop', 'setdefault', 'update', 'clear'}
_SET_METHODS = {'add', 'update', 'discard', 'remove', 'copy', 'union', 'issubset'}


def has_method(obj, name):
    if isinstance(obj, (str, SStr)):
        return name in _STR_METHODS
    if isinstance(obj, SList):
        return name in _LIST_METHODS
    if isinstance(obj, SymList):
        return name in ('append', 'copy')
    if isinstance(obj, SDict):
        return name in _DICT_METHODS
    if isinstance(obj, SSet):
        return name in _SET_METHODS
    if isinstance(obj, tuple):
        return name in ('index', 'count')
    if isinstance(obj, (bytes, SBytes)):
        return name in ('decode',)
    if hasattr(obj, 'methods'):
        return name in obj.methods
    return False


def get_attr(I, obj, name, node):
    if isinstance(obj, slice):
        if name in ('start', 'stop', 'step'):
            return getattr(obj, name)
    if isinstance(obj, _I().SExc):
        if name == 'args':
            return tuple(obj.args)
    if isinstance(obj, SOpaque):
        if name in obj.attrs:
            return obj.attrs[name]
        if obj.pytype is not None and not hasattr(obj.pytype, name):
            raise PyRaise(AttributeError)
        raise Unsupported(f"attribute {name} of opaque value {obj.name}")
    if hasattr(obj, 'get_attr_model'):
        return obj.get_attr_model(I, name)
    return NotImplemented


def call_method(I, obj, name, args, kwargs, node):
    if isinstance(obj, (str, SStr)):
        return str_method(I, obj, name, args, kwargs, node)
    if isinstance(obj, SList):
        return list_method(I, obj, name, args, kwargs, node)
    if isinstance(obj, SymList):
        if name == 'copy' and not args and not kwargs:
            c = obj.snapshot()
            c.origin = None
            return c
        if name == 'append' and len(args) == 1 and not kwargs:
            if getattr(I, 'generic_depth', 0) or I.spec_depth:
                raise Unsupported("mutation of a list inside a specification")
            symlist_write(I, obj, obj.n, args[0], node)
            return None
        raise Unsupported(f"method {name} of a list of symbolic length")
    if isinstance(obj, SDict):
        return dict_method(I, obj, name, args, kwargs, node)
    if isinstance(obj, SSet):
        return set_method(I, obj, name, args, kwargs, node)
    if isinstance(obj, tuple):
        if name == 'index' and is_concrete(obj) and is_concrete(args[0]):
            try:
                return obj.index(args[0])
            except ValueError:
                raise PyRaise(ValueError)
    if isinstance(obj, bytes) and name == 'decode':
        return obj.decode(*args)
    if isinstance(obj, SBytes) and name == 'decode':
        return obj.text
    if hasattr(obj, 'call_method_model'):
        return obj.call_method_model(I, name, args, kwargs)
    raise Unsupported(f"method {name} of {type(obj).__name__}")


_UPPER = z3.Function('str_upper', z3.StringSort(), z3.StringSort())


def str_method(I, s, name, args, kwargs, node):
    conc = isinstance(s, str) and all(is_concrete(a) for a in args)
    if name == 'join' and isinstance(args[0], SymList) and args[0].shape[0] == 'leaf' and args[0].shape[2] == 'str':
        # sep.join(xs) = (x0 + sep + x1 + sep ...) without the last separator: the prefix fold of (x + sep), cut
        from . import folds
        if not isinstance(s, str) or s == "":
            raise Unsupported("join over a list of strings of symbolic length: separator must be a non-empty constant")
        L = args[0]
        view = ListView(L)
        fold = folds.sep_fold(I, s)
        whole = str_z3(fold.whole(I, view))
        cut = z3.SubString(whole, 0, z3.Length(whole) - len(s))
        return SStr([Sq(z3.If(view.n > 0, cut, z3.StringVal("")))])
    if name == 'join' and isinstance(args[0], MapSym):
        if not (isinstance(s, str) and s == ""):
            raise Unsupported("join with a non-empty separator over a list of symbolic length")
        from . import folds
        return folds.join_of(I, args[0])
    if name == 'join':
        items = I.iterate(args[0], node)
        if len(items) == 1 and isinstance(items[0], Repeat):
            # sep.join(elem for _ in <n opaque elements>): an uninterpreted function of (sep, elem, n)
            rp = items[0]
            if not is_strlike(rp.value):
                raise PyRaise(TypeError)
            f = z3.Function('join_rep', z3.StringSort(), z3.StringSort(), z3.IntSort(), z3.StringSort())
            note = "sep.join(e for _ in xs) over a collection of symbolic length n is the uninterpreted join_rep(sep, e, n)"
            if note not in I.st.assumed:
                I.st.assumed.append(note)
            return SStr([Sq(f(str_z3(s), str_z3(rp.value), rp.part.n))])
        if any(isinstance(it, Repeat) for it in items):
            raise Unsupported("join over a mix of concrete items and a symbolic segment")
        parts = []
        for i, it in enumerate(items):
            if not is_strlike(it):
                raise PyRaise(TypeError)
            if i:
                parts.extend(str_parts(s))
            parts.extend(str_parts(it))
        return mk_str(parts)
    if name == 'startswith':
        p = args[0]
        if isinstance(p, tuple):
            return bool_value(zor(*[str_startswith(s, q) for q in p]))
        return bool_value(str_startswith(s, p))
    if name == 'endswith':
        p = args[0]
        if isinstance(p, tuple):
            return bool_value(zor(*[str_endswith(s, q) for q in p]))
        return bool_value(str_endswith(s, p))
    if name == 'encode':
        enc = args[0] if args else kwargs.get('encoding', 'utf-8')
        if enc not in ('utf-8', 'utf8', 'UTF-8'):
            raise Unsupported("encode with a non utf-8 encoding")
        if isinstance(s, str):
            return s.encode('utf-8')
        return SBytes(s)
    if name == 'upper':
        if isinstance(s, str):
            return s.upper()
        I.st.assumed.append("str.upper() of a symbolic string is an uninterpreted function")
        return SStr([Sq(_UPPER(str_z3(s)))])
    if name == 'isdigit':
        if isinstance(s, str):
            return s.isdigit()
        if str_known_len(s) == 1:
            c = char_code(str_chars(s)[0])
            # ASCII digits; non-ASCII decimal digits exist: characters >= 0x80 are outside the model
            if I.branch(c >= 0x80):
                I.st.assumed.append("str.isdigit() on non-ASCII characters is outside the model; path cut")
                raise CutPath()
            return bool_value(z3.And(c >= 48, c <= 57))
        raise Unsupported("isdigit on a symbolic string")
    if name == 'format':
        return str_format_method(I, s, args, kwargs, node)
    if conc and not kwargs:
        try:
            r = getattr(s, name)(*args)
        except (ValueError, TypeError, IndexError) as e:
            raise PyRaise(type(e))
        if isinstance(r, list):
            return SList(r)
        return r
    raise Unsupported(f"str.{name} on a symbolic string")


def str_format_method(I, s, args, kwargs, node):
    if not isinstance(s, str):
        raise Unsupported("format on symbolic template")
    import string
    out = []
    auto = 0
    for lit, field, spec, conv in string.Formatter().parse(s):
        if lit:
            out.append(lit)
        if field is None:
            continue
        if field == "":
            v = args[auto]
            auto += 1
        elif field.isdigit():
            v = args[int(field)]
        elif field in kwargs:
            v = kwargs[field]
        else:
            raise Unsupported("format field expression")
        if conv == 'r':
            v = py_repr(I, v)
        elif conv == 's':
            v = py_str(I, v)
        out.extend(str_parts(py_format(I, v, spec or "", node)))
    return mk_str(out)


def list_method(I, L, name, args, kwargs, node):
    if name == 'append':
        L.items.append(args[0])
        return None
    if name == 'extend':
        if isinstance(args[0], SymColl):
            L.items.append(args[0].part)
            return None
        if isinstance(args[0], SList):
            L.items.extend(args[0].items)
            return None
        if isinstance(args[0], SymList):
            L.items.append(ListSeg(args[0].snapshot()))
            return None
        L.items.extend(I.iterate(args[0], node))
        return None
    if name == 'insert':
        i = args[0]
        if not isinstance(i, int):
            raise Unsupported("list.insert with symbolic index")
        L.items.insert(i, args[1])
        return None
    if name == 'pop':
        i = args[0] if args else -1
        if not isinstance(i, int):
            raise Unsupported("list.pop with symbolic index")
        try:
            return L.items.pop(i)
        except IndexError:
            raise PyRaise(IndexError)
    if name == 'copy':
        return SList(L.items)
    if name == 'reverse':
        L.items.reverse()
        return None
    if name == 'clear':
        L.items.clear()
        return None
    if name == 'index':
        for i, x in enumerate(L.items):
            e = I.equals(x, args[0])
            if e is True:
                return i
            if e is not False:
                if I.branch(e):
                    return i
        raise PyRaise(ValueError)
    if name == 'remove':
        for i, x in enumerate(L.items):
            e = I.equals(x, args[0])
            if e is True or (e is not False and I.branch(e)):
                del L.items[i]
                return None
        raise PyRaise(ValueError)
    if name == 'sort':
        r = b_sorted(I, [L], kwargs, node)
        L.items[:] = r.items
        return None
    raise Unsupported(f"list.{name}")


def dict_method(I, D, name, args, kwargs, node):
    if name == 'get':
        k = args[0]
        default = args[1] if len(args) > 1 else None
        if is_concrete(k) or isinstance(k, SObj):
            return D.d.get(k, default)
        return dict_lookup(I, D, k, node, default=(default,))
    if name == 'items':
        return [(k, v) for k, v in D.d.items()]
    if name == 'keys':
        return list(D.d.keys())
    if name == 'values':
        return list(D.d.values())
    if name == 'copy':
        return SDict(D.d)
    if name == 'pop':
        k = args[0]
        if not is_concrete(k):
            raise Unsupported("dict.pop with symbolic key")
        if k in D.d:
            return D.d.pop(k)
        if len(args) > 1:
            return args[1]
        raise PyRaise(KeyError)
    if name == 'setdefault':
        k = args[0]
        if not is_concrete(k):
            raise Unsupported("dict.setdefault with symbolic key")
        if k not in D.d:
            D.d[k] = args[1] if len(args) > 1 else None
        return D.d[k]
    if name == 'update':
        if args:
            src = args[0]
            if isinstance(src, SDict):
                D.d.update(src.d)
            else:
                for item in I.iterate(src, node):
                    k, v = I.iterate(item, node)
                    if not is_concrete(k):
                        raise Unsupported("dict.update with symbolic key")
                    D.d[k] = v
        for k, v in kwargs.items():
            D.d[k] = v
        return None
    if name == 'clear':
        D.d.clear()
        return None
    raise Unsupported(f"dict.{name}")


def set_method(I, S, name, args, kwargs, node):
    if name == 'add':
        x = args[0]
        if not is_concrete(x):
            raise Unsupported("set.add of symbolic value")
        if x not in S.items:
            S.items.append(x)
        return None
    if name == 'copy':
        return SSet(S.items)
    raise Unsupported(f"set.{name}")


# ---------------------------------------------------------------------------------------
# subscripts

def dict_lookup(I, D, k, node, default=None):
    """D[k] (default None) or D.get(k, default[0]) for a symbolic key over concrete keys"""
    pairs = list(D.d.items())
    found, res = lookup_table(I.st, k, pairs)
    if found is None:
        raise Unsupported("dict lookup with a key of unsupported kind")
    if found is False:
        pass
    elif res is not None:
        if I.branch(found):
            val, cons = res
            I.st.assume(cons)
            return val
    else:
        # values of mixed kinds: fork per key
        for key, val in pairs:
            e = I.equals(k, key)
            if e is True or (e is not False and I.branch(e)):
                return val
    if default is not None:
        return default[0]
    raise PyRaise(KeyError, lineno=getattr(node, 'lineno', None))


def norm_index(I, i, n, node):
    """python index normalisation for a sequence of concrete length n; concrete result or
    symbolic z3 index known to be in range"""
    if isinstance(i, bool):
        i = int(i)
    if isinstance(i, int):
        if i < -n or i >= n:
            raise PyRaise(IndexError, lineno=getattr(node, 'lineno', None))
        return i % n if n else i
    z = to_zint(i)
    dom = I.st.notes.get('domains', {}).get(z.get_id())
    if dom is not None and all(0 <= d < n for d in dom):
        return z
    if not I.branch(z3.And(z >= -n, z < n)):
        raise PyRaise(IndexError, lineno=getattr(node, 'lineno', None))
    if I.st.implied(z >= 0):
        return z
    return z3.If(z >= 0, z, z + n)


def seq_index(I, items, i, node):
    n = len(items)
    j = norm_index(I, i, n, node)
    if isinstance(j, int):
        return items[j]
    # symbolic in-range index
    pairs = [(k, items[k]) for k in range(n)]
    found, res = lookup_table(I.st, SInt(j), pairs)
    if res is not None:
        val, cons = res
        I.st.assume(cons)
        return val
    for k in range(n):
        if k == n - 1 or I.branch(j == k):
            return items[k]


def subscript(I, obj, idx, node):
    if isinstance(idx, slice):
        lo, hi, step = idx.start, idx.stop, idx.step
        if isinstance(obj, (str, SStr)):
            if str_known_len(obj) is None and not (step is None):
                obj = I.force_known_len(obj, node)
            if all(x is None or isinstance(x, int) for x in (lo, hi, step)):
                return str_slice(I.st, obj, lo, hi, step)
            return str_slice_symbolic(I, obj, lo, hi, step, node)
        if isinstance(obj, (tuple, SList)):
            items = obj if isinstance(obj, tuple) else obj.items
            if not all(x is None or isinstance(x, int) for x in (lo, hi, step)):
                raise Unsupported("list slice with symbolic bounds")
            r = items[slice(lo, hi, step)]
            return tuple(r) if isinstance(obj, tuple) else SList(r)
        if isinstance(obj, SObj):
            m = I.find_method(obj.cls, '__getitem__')
            if m is not None:
                return I.call(_I().BoundMethod(m, obj), [idx], {})
        if hasattr(obj, 'subscript_model'):
            return obj.subscript_model(I, idx)
        if isinstance(obj, SymList):
            return symlist_slice(I, obj, idx)
        raise Unsupported(f"slice of {type(obj).__name__}")
    if isinstance(obj, (str, SStr)):
        if not is_intlike(idx):
            raise PyRaise(TypeError)
        if str_known_len(obj) is None:
            if isinstance(idx, int) and idx >= 0:
                # s[i] of unknown-length string: IndexError when i >= len
                z = str_z3(obj)
                if not I.branch(z3.Length(z) > idx):
                    raise PyRaise(IndexError)
                c = I.st.fresh_int('c')
                I.st.assume(z3.And(c >= 0, c <= MAXCODE))
                I.st.assume(z3.SubString(z, idx, 1) == z3.StrFromCode(c))
                return SStr([Ch(c)])
            if isinstance(idx, int) and idx < 0:
                z = str_z3(obj)
                k = -idx
                if not I.branch(z3.Length(z) >= k):
                    raise PyRaise(IndexError)
                c = I.st.fresh_int('c')
                I.st.assume(z3.And(c >= 0, c <= MAXCODE))
                I.st.assume(z3.SubString(z, z3.Length(z) - k, 1) == z3.StrFromCode(c))
                return SStr([Ch(c)])
            if isinstance(idx, (int, bool)):
                obj = I.force_known_len(obj, node)
        if str_known_len(obj) is None:
            # symbolic index into a string of unknown length: IndexError outside [-len, len)
            z = str_z3(obj)
            L = z3.Length(z)
            zi = to_zint(idx)
            if not I.branch(z3.And(zi >= -L, zi < L)):
                raise PyRaise(IndexError)
            pos = zi if I.st.implied(zi >= 0) else z3.If(zi >= 0, zi, zi + L)
            c = I.st.fresh_int('c')
            I.st.assume(z3.And(c >= 0, c <= MAXCODE))
            I.st.assume(z3.SubString(z, pos, 1) == z3.StrFromCode(c), lazy=True)
            return SStr([Ch(c)])
        chars = [c if isinstance(c, str) else SStr([c]) for c in str_chars(obj)]
        if isinstance(idx, (int, bool)):
            return str_index(I.st, obj, idx)
        j = norm_index(I, idx, len(chars), node)
        if isinstance(j, int):
            return chars[j]
        code = I.st.fresh_int('c')
        I.st.assume(zor(*[zand(j == k, code == char_code(str_chars(obj)[k])) for k in range(len(chars))]))
        return SStr([Ch(code)])
    if isinstance(obj, tuple):
        if not is_intlike(idx):
            raise PyRaise(TypeError)
        return seq_index(I, list(obj), idx, node)
    if isinstance(obj, SList):
        if not is_intlike(idx):
            raise PyRaise(TypeError)
        return seq_index(I, obj.items, idx, node)
    if isinstance(obj, SDict):
        if is_concrete(idx) or isinstance(idx, SObj):      # heap objects are keys by identity
            try:
                if idx in obj.d:
                    return obj.d[idx]
            except TypeError:
                raise PyRaise(TypeError)
            raise PyRaise(KeyError, lineno=getattr(node, 'lineno', None))
        if isinstance(idx, (SList, SDict)):
            raise PyRaise(TypeError)
        return dict_lookup(I, obj, idx, node)
    if isinstance(obj, SObj):
        m = I.find_method(obj.cls, '__getitem__')
        if m is not None:
            return I.call(_I().BoundMethod(m, obj), [idx], {})
        raise PyRaise(TypeError)
    if isinstance(obj, SymList):
        if isinstance(idx, slice):
            return symlist_slice(I, obj, idx)
        return symlist_elem(I, obj, symlist_index(I, obj, idx, node))
    if isinstance(obj, list):
        return obj[idx]
    if hasattr(obj, 'subscript_model'):
        return obj.subscript_model(I, idx)
    if obj is None or is_intlike(obj):
        raise PyRaise(TypeError)
    raise Unsupported(f"subscript of {type(obj).__name__}")


def str_slice_symbolic(I, s, lo, hi, step, node):
    """s[lo:hi] with symbolic int bounds (None allowed), python clamping semantics"""
    if step is not None:
        raise Unsupported("symbolic extended slice")
    z = str_z3(s)
    L = str_len(s)
    L = z3.IntVal(L) if isinstance(L, int) else L

    def clamp(b, default):
        if b is None:
            return default
        zb = to_zint(b)
        zb = z3.If(zb < 0, zb + L, zb)
        return z3.If(zb < 0, 0, z3.If(zb > L, L, zb))
    a = clamp(lo, z3.IntVal(0))
    b = clamp(hi, L)
    n = z3.If(b - a > 0, b - a, 0)
    return SStr([Sq(z3.SubString(z, a, n))])


def store_subscript(I, obj, idx, v, node):
    if isinstance(obj, SymList):
        if isinstance(idx, slice):
            raise Unsupported("slice store into a list of symbolic length")
        if I.spec_depth:
            raise Unsupported("mutation of a list inside a specification")
        pos = symlist_index(I, obj, idx, node)
        symlist_write(I, obj, pos, v, node)
        return
    if isinstance(obj, SList):
        if isinstance(idx, slice):
            if not all(x is None or isinstance(x, int) for x in (idx.start, idx.stop, idx.step)):
                raise Unsupported("slice store with symbolic bounds")
            obj.items[idx] = I.iterate(v, node)
            return
        j = norm_index(I, idx, len(obj.items), node)
        if not isinstance(j, int):
            raise Unsupported("list store with symbolic index")
        obj.items[j] = v
        return
    if isinstance(obj, SDict):
        if not is_concrete(idx) and not isinstance(idx, SObj):
            raise Unsupported("dict store with symbolic key")
        try:
            obj.d[idx] = v
        except TypeError:
            raise PyRaise(TypeError)
        return
    if isinstance(obj, SObj):
        m = I.find_method(obj.cls, '__setitem__')
        if m is not None:
            I.call(_I().BoundMethod(m, obj), [idx, v], {})
            return
    if hasattr(obj, 'store_subscript_model'):
        return obj.store_subscript_model(I, idx, v)
    if isinstance(obj, (tuple, str, SStr)) or obj is None:
        raise PyRaise(TypeError)
    raise Unsupported(f"subscript store on {type(obj).__name__}")


def delete_subscript(I, obj, idx, node):
    if isinstance(obj, SDict) and is_concrete(idx):
        if idx in obj.d:
            del obj.d[idx]
            return
        raise PyRaise(KeyError)
    if isinstance(obj, SList) and isinstance(idx, int):
        try:
            del obj.items[idx]
            return
        except IndexError:
            raise PyRaise(IndexError)
    raise Unsupported("del subscript")


# ---------------------------------------------------------------------------------------
# bytes

def bytes_concat(I, a, b):
    if isinstance(a, bytes) and isinstance(b, bytes):
        return a + b
    ta = a.text if isinstance(a, SBytes) else a.decode('utf-8')
    tb = b.text if isinstance(b, SBytes) else b.decode('utf-8')
    return SBytes(str_concat(ta, tb))


# ---------------------------------------------------------------------------------------
# with

def with_enter(I, cm, item):
    if isinstance(cm, LockObj):
        I.st.events.append(('lock_enter', cm.name))
        I.lock_depth = getattr(I, 'lock_depth', {})
        I.lock_depth[cm.name] = I.lock_depth.get(cm.name, 0) + 1
        return True
    if hasattr(cm, 'enter_model'):
        return cm.enter_model(I)
    raise Unsupported(f"with on {type(cm).__name__}")


def with_exit(I, cm):
    if isinstance(cm, LockObj):
        I.st.events.append(('lock_exit', cm.name))
        I.lock_depth[cm.name] -= 1
        return
    if hasattr(cm, 'exit_model'):
        return cm.exit_model(I)
