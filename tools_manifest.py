#!/usr/bin/env python3
"""maintenance helper: add/replace a check entry in MANIFEST.json and drop it from not_applicable
usage: tools_manifest.py <ID> <category> <technique> <text> <note>"""
import json, sys
pid, cat, tech, text, note = sys.argv[1:6]
m = json.load(open('/verif/MANIFEST.json'))
m['checks'] = [c for c in m['checks'] if c['property_id'] != pid]
m['checks'].append({
    "property_id": pid, "quick_cmd": f"./check {pid} --tier quick", "thorough_cmd": f"./check {pid} --tier thorough",
    "evidence_file": f"/verif/evidence/{pid}.json", "replay_cmd_template": "./check --replay {path}",
    "engine": "pyvc", "level_claimed": {"category": cat, "text": text, "design_ref": f"DESIGN.md section 6 ({pid})"},
    "level_note": note, "technique": tech})
m['checks'].sort(key=lambda c: c['property_id'])
m['not_applicable'] = [x for x in m.get('not_applicable', []) if x['property_id'] != pid]
for e in m.get('engines', []):
    if pid not in e['serves_properties']:
        e['serves_properties'].append(pid); e['serves_properties'].sort()
json.dump(m, open('/verif/MANIFEST.json', 'w'), indent=1)
