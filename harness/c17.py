"""C17 bounded complement: layered HTTP connections (ak/conn_http.py, ak/mcaller_http.py).

Random sequences of <= 6 operations on a shared root connection - wrap (path prefix / basic auth /
bearer token / client auth / plain / own adapters), add_adapter, MCallerHttp creation,
clone(None / one adapter / list / tuple), wrapper-method calls that use get_conn() (component
prefixes, cached connections), requests (verb x params x body kind x caller headers) - with a stub
opener capturing the urllib Request objects.  After every operation every connection that existed
before it is probed again with a fixed request.

Model of a connection: `must` = adapters that have to be applied (own ++ parent's at derivation
time, + adapters added to itself later), `may` = adapters added to an ancestor after the derivation
(the statement does not say whether they apply; nothing is demanded about them).

Top-level clauses:
  chain_applied_once        every adapter of the whole chain is applied exactly once per request; the path
                            is the caller's path with the prefixes of the chain, inner connections' outermost
  one_authorization         exactly one Authorization header iff the chain authenticates; value decodes to
                            the configured credentials
  url                       full_url == address + path' [+ '?' + urlencode(params)], method == the verb
  body_by_type              None -> no body; bytes as is; str -> utf-8; other -> json.dumps + Content-Type
                            application/json unless the caller gave one
  response_processors_reverse_order   responses processed by the same adapters in reverse order
  original_unaffected       a fixed probe request through any pre-existing connection / caller is the same
                            before and after every derivation, clone and foreign request
  caller_objects_untouched  headers / params / data objects passed by the caller are unchanged
  clone_accepts_adapter_or_list   clone(None | adapter | list | tuple of adapters) returns a caller whose
                            connection has the adapters in front of the original chain
Credential dimension (harness/c17_creds.py): the value of a Basic-flavoured Authorization header must be the
STANDARD base64 (RFC 4648 section 4: 62 -> '+', 63 -> '/') of utf-8("id:password"); which characters occur depends
on the bytes of the credentials and on their offset modulo 3.  A grid of credentials (every special ASCII /
multi-byte utf-8 character at every offset modulo 3 in login / password / client id / client secret, bearer tokens
with '+', '/', '=') goes through four deployment shapes (wrapper class inside a 3-layer chain, method-caller clone
with the adapter, adapter inside a list + caller + clone, add_adapter on a derived connection), and half of the
random sequences get their credentials replaced by grid credentials.  The header value is decoded with the strict
standard-alphabet decoder and compared with the configured bytes.

Pre-conditions: at most one authenticating adapter per chain, no caller-supplied Authorization,
paths and prefixes start with '/' and do not end with '/', address without trailing '/'.
"""
import base64
import copy
import json
import multiprocessing
import random
from unittest.mock import patch
from urllib.parse import urlencode

from ak import conn_http
from harness import c17_creds
from ak.mcaller_http import MCallerHttp, method_http

ADDRESS = 'http://api.test:8080'
TRACE = []
RESPONSE = b'{"r": 1}'
PREFIX_MAP = {'compA': '/ca', 'compB': '/cb/v2', 'compE': ''}


class Mark(conn_http.RequestAdapter):
    """test adapter: leaves a header, logs its calls, wraps the response"""
    def __init__(self, k):
        self.k = k

    def process_req_args(self, req_args):
        TRACE.append(('req', self.k))
        req_args.headers['X-Mark-%d' % self.k] = '1'

    def process_response(self, return_value):
        TRACE.append(('resp', self.k))
        return {'m': self.k, 'v': return_value}


class Caller(MCallerHttp):
    """method caller with component prefixes"""
    _HTTP_PREFIX_MAP = PREFIX_MAP

    @method_http(None)
    def call_plain(self, verb, path, kw):
        """no component"""
        conn = self.get_conn()
        return conn, getattr(conn, verb)(path, **kw)

    @method_http(None, 'compA')
    def call_a(self, verb, path, kw):
        """component A"""
        conn = self.get_conn()
        return conn, getattr(conn, verb)(path, **kw)

    @method_http(None, ['compX', 'compB'])
    def call_b(self, verb, path, kw):
        """component B (one of two acceptable components is configured)"""
        conn = self.get_conn()
        return conn, getattr(conn, verb)(path, **kw)

    @method_http(None, 'compE')
    def call_e(self, verb, path, kw):
        """component with an empty prefix"""
        conn = self.get_conn()
        return conn, getattr(conn, verb)(path, **kw)


METHOD_COMPONENT = {'plain': None, 'a': 'compA', 'b': 'compB', 'e': 'compE'}


class _Resp:
    def __init__(self, method):
        self.data = RESPONSE
        self._method = method
        self.code = 200

    def __enter__(self):
        return self

    def __exit__(self, *a):
        return False

    def read(self):
        return self.data

    def getheaders(self):
        return {}


def stub_opener(captured):
    def _open(self, request, *a, **kw):
        captured.append(request)
        return _Resp(request.get_method())
    return patch('urllib.request.OpenerDirector.open', _open)


class Fail(Exception):
    def __init__(self, clause, ksuf, text):
        super().__init__(text)
        self.clause, self.ksuf, self.text = clause, ksuf, text


class HarnessBug(Exception):
    pass


# ------------------------------------------------------------------ model
class MConn:
    def __init__(self, obj, must, may, parent):
        self.obj, self.must, self.may, self.parent = obj, must, may, parent

    def auth(self):
        return [a for a in self.must if a[0] in ('basic', 'token', 'client')]

    def may_auth(self):
        return [a for a in self.may if a[0] in ('basic', 'token', 'client')]


class MCaller:
    def __init__(self, obj, conn):
        self.obj, self.conn, self.cache = obj, conn, {}


class State:
    def __init__(self):
        self.conns, self.callers = [], []
        self.nmark = 0
        self.baseline = {}
        self.requests = 0
        self.feats = set()

    def descendants(self, k):
        out, todo = set(), [k]
        while todo:
            x = todo.pop()
            for i, c in enumerate(self.conns):
                if c.parent == x and i not in out:
                    out.add(i)
                    todo.append(i)
        return out


def mk_adapter(st, spec):
    """adapter description (JSON) -> (real adapter, model tuple)"""
    kind = spec[0]
    if kind == 'mark':
        st.nmark += 1
        return Mark(st.nmark), ('mark', st.nmark)
    if kind == 'prefix':
        return conn_http.RequestAdapterAddPathPrefix(spec[1]), ('prefix', spec[1])
    if kind == 'basic':
        return conn_http.BAuthConn.Adapter(spec[1], spec[2]), ('basic', spec[1], spec[2])
    if kind == 'token':
        return conn_http.TokenAuthConn.Adapter(spec[1]), ('token', spec[1])
    if kind == 'client':
        return conn_http.ClientAuthConn.Adapter(spec[1], spec[2], spec[3]), ('client', spec[1], spec[2], spec[3])
    raise HarnessBug(f"adapter spec {spec}")


def is_auth(spec):
    return spec[0] in ('basic', 'token', 'client')


def sanitize(st, parent, specs):
    """pre-condition: at most one authenticating adapter per chain"""
    has = bool(parent.auth() or parent.may_auth())
    out = []
    for s in specs:
        if is_auth(s):
            if has:
                s = ['mark']
            has = True
        out.append(s)
    return out


# ------------------------------------------------------------------ expected request
def dec_body(b_):
    k = b_[0]
    if k == 'none':
        return None
    if k == 'str':
        return b_[1]
    if k == 'bytes':
        return b_[1].encode('utf-8')
    if k == 'json':
        return copy.deepcopy(b_[1])
    raise HarnessBug(f"body {b_}")


def dec_params(p):
    if isinstance(p, list):
        return [tuple(x) for x in p]
    return copy.deepcopy(p)


def spec_body(data):
    if data is None:
        return None, False
    if isinstance(data, bytes):
        return data, False
    if isinstance(data, str):
        return data.encode('utf-8'), False
    return json.dumps(data).encode('utf-8'), True


def auth_value_ok(a, value):
    if isinstance(value, bytes):
        value = value.decode('latin-1')
    if not isinstance(value, str):
        return False
    if a[0] == 'token':
        return value == 'Bearer ' + a[1]
    if not value.startswith('Basic '):
        return False
    try:
        raw = base64.b64decode(value[6:], validate=True)
    except Exception:      # noqa
        return False
    cred = (a[1] + ':' + a[2]) if a[0] == 'basic' else (a[2] + ':' + a[3])
    return raw == cred.encode('utf-8')


def not_standard_base64(value):
    """one 'Basic xxx' value whose xxx the strict standard-alphabet decoder rejects"""
    if isinstance(value, bytes):
        value = value.decode('latin-1')
    if not isinstance(value, str) or not value.startswith('Basic '):
        return False
    try:
        base64.b64decode(value[6:], validate=True)
    except Exception:      # noqa
        return True
    return False


def check_request(mc, req, reqspec, args, ret, trace, what):
    """all per-request clauses; raises Fail.  args = (headers, params, data) as passed"""
    headers, params, data = args
    # --- chain: marks
    req_marks = [k for ev, k in trace if ev == 'req']
    resp_marks = [k for ev, k in trace if ev == 'resp']
    must_marks = [a[1] for a in mc.must if a[0] == 'mark']
    may_marks = {a[1] for a in mc.may if a[0] == 'mark'}
    for k in must_marks:
        if req_marks.count(k) != 1:
            raise Fail('chain_applied_once', 'adapter-calls', f"{what}: adapter #{k} of the chain applied "
                       f"{req_marks.count(k)} times (calls: {req_marks}, chain: {mc.must})")
    for k in set(req_marks) - set(must_marks):
        if k not in may_marks or req_marks.count(k) > 1:
            raise Fail('chain_applied_once', 'foreign-adapter', f"{what}: adapter #{k} applied {req_marks.count(k)} "
                       f"times although it is not in the chain {mc.must}")
    # --- path with prefixes
    path = reqspec['path']
    for a in mc.must:
        if a[0] == 'prefix':
            path = a[1] + path
    full = req.full_url
    q = ''
    if params:
        q = '?' + urlencode(params)
    if not isinstance(full, str) or not full.startswith(ADDRESS):
        raise Fail('url', 'address', f"{what}: goes to {full!r}, expected {ADDRESS + path + q!r}")
    rest = full[len(ADDRESS):]
    got_path, _sep, got_q = rest.partition('?')
    if got_path != path:
        raise Fail('chain_applied_once', 'prefix-path', f"{what}: path {got_path!r}, expected {path!r} (chain {mc.must})")
    if rest != path + q:
        raise Fail('url', 'query', f"{what}: url {full!r}, expected {ADDRESS + path + q!r}")
    if req.get_method() != reqspec['verb'].upper():
        raise Fail('url', 'method', f"{what}: method {req.get_method()!r}")
    # --- headers
    got = {}
    for k, v in req.header_items():
        got.setdefault(k.lower(), []).append(v)
    auths = got.get('authorization', [])
    must_auth, may_auth = mc.auth(), mc.may_auth()
    if must_auth:
        if len(auths) != 1 or not auth_value_ok(must_auth[0], auths[0]):
            ksuf, more = 'wrong-or-missing', ''
            if len(auths) == 1 and must_auth[0][0] in ('basic', 'client') and not_standard_base64(auths[0]):
                ksuf = 'basic-value-not-standard-base64'
                more = (f"; the value is not standard (RFC 4648 section 4) base64, expected 'Basic "
                        f"{c17_creds.ref_b64(c17_creds.cred_text(must_auth[0]).encode('utf-8'))}'")
            raise Fail('one_authorization', ksuf, f"{what}: Authorization headers {auths!r}, the chain "
                       f"authenticates with {must_auth[0]}{more}")
    elif auths:
        if not (may_auth and len(auths) == 1 and auth_value_ok(may_auth[0], auths[0])):
            raise Fail('one_authorization', 'unexpected', f"{what}: Authorization {auths!r} sent through a chain "
                       f"without authenticating layer ({mc.must})")
    # --- body
    want_body, structured = spec_body(data)
    if req.data != want_body:
        raise Fail('body_by_type', type(data).__name__, f"{what}: body {req.data!r}, expected {want_body!r}")
    caller_ct = [v for k, v in (headers or {}).items() if k.lower() == 'content-type']
    ct = got.get('content-type', [])
    if caller_ct:
        if ct != caller_ct[:1]:
            raise Fail('body_by_type', 'caller-content-type', f"{what}: Content-Type {ct!r}, the caller gave {caller_ct!r}")
    elif structured:
        if ct != ['application/json']:
            raise Fail('body_by_type', 'json-content-type', f"{what}: Content-Type {ct!r} for a structured body")
    diags = []
    if not caller_ct and not structured and ct:
        diags.append(f"{what}: Content-Type {ct!r} added to a {type(data).__name__} body")
    for k, v in (headers or {}).items():
        if got.get(k.lower()) != [v]:
            diags.append(f"{what}: caller header {k}: {v!r} arrives as {got.get(k.lower())!r}")
    # --- response
    if resp_marks != list(reversed(req_marks)):
        raise Fail('response_processors_reverse_order', 'order', f"{what}: request adapters ran {req_marks}, response "
                   f"processors ran {resp_marks}")
    want_ret = json.loads(RESPONSE.decode())
    for k in reversed(req_marks):
        want_ret = {'m': k, 'v': want_ret}
    if ret != want_ret:
        raise Fail('response_processors_reverse_order', 'value', f"{what}: returned {ret!r}, expected {want_ret!r}")
    if [k for k in req_marks if k in must_marks] != must_marks:
        diags.append(f"{what}: own-before-parent order of adapters not kept: ran {req_marks}, chain {must_marks}")
    return diags


def observed(req, ret, trace):
    hs = sorted((k.lower(), v.decode('latin-1') if isinstance(v, bytes) else v)
                for k, v in req.header_items() if k.lower() != 'x-request-id')
    return {'url': req.full_url, 'method': req.get_method(), 'data': req.data, 'headers': hs,
            'trace': list(trace), 'ret': ret}


def do_request(st, captured, mc, reqspec, what, via=None, diags=None):
    """issue one request through the real connection `mc.obj` (or through a caller method `via`) and check it.
    returns the normalised observation"""
    headers = copy.deepcopy(reqspec['headers'])
    params = dec_params(reqspec['params'])
    data = dec_body(reqspec['body'])
    snap = copy.deepcopy((headers, params, data))
    kw = {}
    if params is not None or reqspec.get('pass_none'):
        kw['params'] = params
    if data is not None or reqspec.get('pass_none'):
        kw['data'] = data
    if headers is not None or reqspec.get('pass_none'):
        kw['headers'] = headers
    for a in mc.auth():
        st.feats.update(c17_creds.classify(a))
    del captured[:]
    del TRACE[:]
    try:
        if via is None:
            ret = getattr(mc.obj, reqspec['verb'])(reqspec['path'], **kw)
        else:
            _conn, ret = via(reqspec['verb'], reqspec['path'], kw)
    except Exception as e:      # noqa - code under test
        if isinstance(e, AssertionError) and (mc.auth() or mc.may_auth()):
            raise Fail('one_authorization', 'adapter-assertion', f"{what} raises AssertionError {e} (chain {mc.must})")
        raise Fail('url', f"request-exception-{type(e).__name__}", f"{what} raises {type(e).__name__}: {e}")
    st.requests += 1
    trace = list(TRACE)
    if len(captured) != 1:
        raise Fail('chain_applied_once', 'requests-sent', f"{what}: {len(captured)} requests reached the opener")
    now = (headers, params, data)
    if now != snap or [type(x) for x in now] != [type(x) for x in snap]:
        which = [n for n, a, b_ in zip(('headers', 'params', 'data'), now, snap) if a != b_]
        raise Fail('caller_objects_untouched', '+'.join(which) or 'type', f"{what}: the caller's {which} changed from "
                   f"{snap} to {now}")
    d = check_request(mc, captured[0], reqspec, (headers, params, data), ret, trace, what)
    if diags is not None:
        diags.update(d)
    if mc.must and len(mc.must) >= 2:
        st.feats.add('chain>=2')
    if reqspec['body'][0] == 'json':
        st.feats.add('structured-body')
    return observed(captured[0], ret, trace)


PROBE = {'verb': 'get', 'path': '/probe', 'params': {'x': '1'}, 'body': ['none'], 'headers': {'X-P': 'p'}}
PROBE2 = {'verb': 'post', 'path': '/probe2', 'params': None, 'body': ['json', {'k': [1, 2]}], 'headers': None}


def probe_all(st, captured, existing_conns, existing_callers, skip_compare, after_what, diags):
    for i in existing_conns:
        mc = st.conns[i]
        obs = [do_request(st, captured, mc, p, f"probe {p['verb']} {p['path']} through connection #{i} after {after_what}",
                          diags=diags) for p in (PROBE, PROBE2)]
        key = ('conn', i)
        if key in st.baseline and i not in skip_compare and st.baseline[key] != obs:
            raise Fail('original_unaffected', 'connection', f"the same request through connection #{i} (chain {mc.must}) "
                       f"changed after {after_what}: before {st.baseline[key]}, after {obs}")
        st.baseline[key] = obs
    for j in existing_callers:
        cl = st.callers[j]
        mc = st.conns[cl.conn]
        obs = do_request(st, captured, mc, PROBE, f"probe through caller #{j} (call_plain) after {after_what}",
                         via=cl.obj.call_plain, diags=diags)
        key = ('caller', j)
        if key in st.baseline and cl.conn not in skip_compare and st.baseline[key] != obs:
            raise Fail('original_unaffected', 'caller', f"the same call through caller #{j} changed after {after_what}: "
                       f"before {st.baseline[key]}, after {obs}")
        st.baseline[key] = obs


# ------------------------------------------------------------------ operations
def real(f, clause, ksuf, what):
    try:
        return f()
    except Exception as e:      # noqa - code under test
        raise Fail(clause, f"{ksuf}-{type(e).__name__}", f"{what} raises {type(e).__name__}: {e}")


def introduce(st, specs, where):
    """reach events of the credential dimension, recorded when the authenticating adapter enters a chain"""
    for s in specs:
        if is_auth(s):
            evs = c17_creds.classify(s)
            st.feats.update(evs)
            if evs & {'basic-credentials-base64-has-plus', 'basic-credentials-base64-has-slash'}:
                st.feats.add('base64-62-63-credentials-introduced-by-' + where)


def step(st, captured, op, diags):
    """-> (description, set of connections whose baseline is reset)"""
    kind = op[0]
    reset = set()
    if kind == 'wrap':
        k = op[1] % len(st.conns)
        parent = st.conns[k]
        how = op[2]
        specs = sanitize(st, parent, op[3])
        made = [mk_adapter(st, s) for s in specs]
        adapters = [m[0] for m in made]
        what = f"wrap #{k} with {how} {specs}"
        if how != 'plain':
            introduce(st, specs[:1] if how in ('class', 'single') else specs,
                      'wrapper-class' if how == 'class' and is_auth(specs[0]) else 'adapters-argument')
        if how == 'class':                       # the dedicated wrapper classes
            s = specs[0]
            if s[0] == 'basic':
                obj = real(lambda: conn_http.BAuthConn(parent.obj, s[1], s[2]), 'chain_applied_once', 'wrap', what)
            elif s[0] == 'token':
                obj = real(lambda: conn_http.TokenAuthConn(parent.obj, s[1]), 'chain_applied_once', 'wrap', what)
            elif s[0] == 'client':
                obj = real(lambda: conn_http.ClientAuthConn(parent.obj, s[1], s[2], s[3]), 'chain_applied_once', 'wrap', what)
            else:
                obj = real(lambda: conn_http.HttpConn(parent.obj, adapters=adapters[0]), 'chain_applied_once', 'wrap', what)
            made = made[:1]
        elif how == 'single':
            obj = real(lambda: conn_http.HttpConn(parent.obj, adapters=adapters[0]), 'chain_applied_once', 'wrap', what)
            made = made[:1]
        elif how == 'plain':
            obj = real(lambda: conn_http.HttpConn(parent.obj), 'chain_applied_once', 'wrap', what)
            made = []
        else:                                    # list of adapters
            lst = list(adapters)
            obj = real(lambda: conn_http.HttpConn(parent.obj, adapters=lst), 'chain_applied_once', 'wrap', what)
        st.conns.append(MConn(obj, [m[1] for m in made] + list(parent.must), set(parent.may), k))
        st.feats.add('wrap')
    elif kind == 'add_adapter':
        k = op[1] % len(st.conns)
        mc = st.conns[k]
        spec = op[2]
        if is_auth(spec) and any(c.auth() or c.may_auth() for c in st.conns):
            spec = ['mark']
        a, m = mk_adapter(st, spec)
        what = f"add_adapter({spec}) on #{k}"
        introduce(st, [spec], 'add_adapter')
        real(lambda: mc.obj.add_adapter(a), 'chain_applied_once', 'add_adapter', what)
        mc.must.append(m)
        reset = {k} | st.descendants(k)
        for d in st.descendants(k):
            st.conns[d].may.add(m)
        st.feats.add('add_adapter')
    elif kind == 'caller':
        k = op[1] % len(st.conns)
        mc = st.conns[k]
        what = f"Caller(connection #{k})"
        obj = real(lambda: Caller(mc.obj), 'chain_applied_once', 'caller', what)
        if obj.http_conn is mc.obj:
            st.callers.append(MCaller(obj, k))
        else:                                    # not an HttpConn instance: wrapped into a new HttpConn
            st.conns.append(MConn(obj.http_conn, list(mc.must), set(mc.may), k))
            st.callers.append(MCaller(obj, len(st.conns) - 1))
    elif kind == 'clone':
        if not st.callers:
            return step(st, captured, ['caller', op[1]], diags)
        j = op[1] % len(st.callers)
        cl = st.callers[j]
        base = st.conns[cl.conn]
        how = op[2]
        specs = sanitize(st, base, op[3])
        if how == 'none':
            specs = []
        elif how == 'one':
            specs = specs[:1] or [['mark']]
        made = [mk_adapter(st, s) for s in specs]
        adapters = [m[0] for m in made]
        arg = None if how == 'none' else (adapters[0] if how == 'one' else (tuple(adapters) if how == 'tuple' else list(adapters)))
        what = f"caller #{j}.clone({how}: {specs})"
        introduce(st, specs, 'clone')
        if how in ('list', 'tuple'):
            st.feats.add('clone-with-sequence')
            if len(specs) >= 2:
                st.feats.add('clone-with-2-adapters')
        kk = 'sequence-arg' if how in ('list', 'tuple') else how + '-arg'
        try:
            obj = real(lambda: cl.obj.clone(arg), 'clone_accepts_adapter_or_list', kk, what)
        except Fail as f:
            # the original must be intact even when the clone failed: probe, then report
            probe_all(st, captured, range(len(st.conns)), range(len(st.callers)), set(), what + ' (which raised)', diags)
            raise f
        st.conns.append(MConn(obj.http_conn, [m[1] for m in made] + list(base.must), set(base.may), cl.conn))
        st.callers.append(MCaller(obj, len(st.conns) - 1))
        st.feats.add('clone')
    elif kind == 'call':
        if not st.callers:
            return step(st, captured, ['caller', op[1]], diags)
        j = op[1] % len(st.callers)
        cl = st.callers[j]
        mname = op[2]
        comp = METHOD_COMPONENT[mname]
        prefix = PREFIX_MAP[comp] if comp else ''
        base = st.conns[cl.conn]
        fresh = None
        if not prefix:
            mc = base
        elif prefix in cl.cache:
            mc = st.conns[cl.cache[prefix]]
            st.feats.add('cached-prefixed-connection-reused')
        else:
            fresh = MConn(None, [('prefix', prefix)] + list(base.must), set(base.may), cl.conn)
            mc = fresh
        what = f"caller #{j}.call_{mname}({op[3]['verb']} {op[3]['path']})"
        method = getattr(cl.obj, 'call_' + mname)
        holder = {}

        def via(verb, path, kw):
            conn, ret = method(verb, path, kw)
            holder['conn'] = conn
            return conn, ret
        do_request(st, captured, mc, op[3], what, via=via, diags=diags)
        if fresh is not None:
            fresh.obj = holder['conn']
            st.conns.append(fresh)
            cl.cache[prefix] = len(st.conns) - 1
        st.feats.add('call-' + mname)
    elif kind == 'req':
        k = op[1] % len(st.conns)
        what = f"connection #{k}.{op[2]['verb']}({op[2]['path']!r}, params={op[2]['params']!r}, " \
               f"body={op[2]['body']!r}, headers={op[2]['headers']!r})"
        do_request(st, captured, st.conns[k], op[2], what, diags=diags)
        st.feats.add('request')
    else:
        raise HarnessBug(f"op {op}")
    return (what if kind != 'caller' else what), reset


def run_case(case):
    """-> (feats, fail or None, diags, requests)"""
    st = State()
    diags = set()
    captured = []
    nstep = -1
    with stub_opener(captured):
        try:
            root = real(lambda: conn_http.HttpConn(ADDRESS), 'url', 'root', f"HttpConn({ADDRESS!r})")
            st.conns.append(MConn(root, [], set(), None))
            probe_all(st, captured, [0], [], set(), 'creation', diags)
            for nstep, op in enumerate(case['ops']):
                n_conn, n_call = len(st.conns), len(st.callers)
                what, reset = step(st, captured, op, diags)
                probe_all(st, captured, range(n_conn), range(n_call), reset, what, diags)
                probe_all(st, captured, range(n_conn, len(st.conns)), range(n_call, len(st.callers)), set(), what, diags)
            return st.feats, None, diags, st.requests
        except Fail as f:
            return st.feats, (f.clause, f.ksuf, f.text, nstep), diags, st.requests


# ------------------------------------------------------------------ generation
PATHS = ['/x', '/items/7', '/a/b/c', '/q%20r', '/']
PREFIXES = ['/p1', '/api/v2', '/p-3', '/inner']
PARAMS = [None, None, {}, {'a': '1'}, {'q': 'x y&z', 'n': 2}, [['a', '1'], ['a', '2']], {'ü': 'é/?'}]
BODIES = [['none'], ['none'], ['str', 'plain text'], ['str', ''], ['str', 'zażółć'], ['bytes', 'raw \x00 bytes'],
          ['bytes', ''], ['json', {'k': 'v', 'n': [1, 2, {'z': None}]}], ['json', [1, 'two', 3.5]], ['json', {}],
          ['json', []], ['json', 0], ['json', 'ü']]
HEADERS = [None, None, {}, {'X-Custom': 'v1'}, {'Content-Type': 'text/plain'}, {'X-Request-ID': 'my-id-1'},
           {'X-Custom': 'v', 'Accept': 'a/b'}]
VERBS = ['get', 'post', 'put', 'delete', 'patch']
CREDS = [['basic', 'user', 'pw'], ['basic', 'jo:hn', 'p@ss word'], ['basic', 'ünï', 'ß'], ['token', 'tok-123'],
         ['token', 'a.b.c'], ['client', 'app', 'cid', 'secret'], ['client', 'app2', 'id:2', 's/+=']]


def g_req(rnd):
    return {'verb': rnd.choice(VERBS), 'path': rnd.choice(PATHS), 'params': rnd.choice(PARAMS),
            'body': rnd.choice(BODIES), 'headers': rnd.choice(HEADERS), 'pass_none': rnd.random() < .3}


def g_adapter(rnd, allow_auth=True):
    x = rnd.random()
    if x < .4:
        return ['prefix', rnd.choice(PREFIXES)]
    if x < .7 or not allow_auth:
        return ['mark']
    return rnd.choice(CREDS)


def g_case(rnd, maxlen=6):
    ops = []
    n = rnd.randint(2, maxlen)
    for i in range(n):
        x = rnd.random()
        if x < .30:
            how = rnd.choice(['class', 'class', 'single', 'plain', 'list', 'list'])
            if how == 'class':
                specs = [rnd.choice(CREDS) if rnd.random() < .7 else ['prefix', rnd.choice(PREFIXES)]]
            else:
                specs = [g_adapter(rnd) for _ in range(rnd.choice([1, 1, 2, 3]) if how == 'list' else 1)]
            ops.append(['wrap', rnd.randrange(8), how, specs])
        elif x < .38:
            ops.append(['add_adapter', rnd.randrange(8), ['mark'] if rnd.random() < .8 else ['token', 'late-tok']])
        elif x < .46:
            ops.append(['caller', rnd.randrange(8)])
        elif x < .62:
            how = rnd.choice(['none', 'one', 'one', 'list', 'list', 'tuple'])
            ops.append(['clone', rnd.randrange(8), how, [g_adapter(rnd) for _ in range(rnd.choice([1, 1, 2]))]])
        elif x < .80:
            j, m = rnd.randrange(8), rnd.choice(['plain', 'a', 'a', 'b', 'e'])
            ops.append(['call', j, m, g_req(rnd)])
            if rnd.random() < .3 and len(ops) < maxlen:
                ops.append(['call', j, m, g_req(rnd)])      # second call: the cached prefixed connection
        else:
            ops.append(['req', rnd.randrange(8), g_req(rnd)])
    return {'ops': ops[:maxlen]}


def fixed_cases():
    """every request-argument combination through a fixed 3-layer chain; every clone argument kind"""
    chain = [['wrap', 0, 'class', [['prefix', '/inner']]], ['wrap', 1, 'class', [['basic', 'user', 'pw']]],
             ['wrap', 2, 'list', [['mark'], ['prefix', '/outer']]]]
    for verb in VERBS:
        for body in BODIES[1:]:
            for hdr in HEADERS[1:]:
                yield {'ops': chain + [['req', 3, {'verb': verb, 'path': '/x', 'params': {'a': '1'}, 'body': body,
                                                  'headers': hdr, 'pass_none': False}]]}
    for params in PARAMS:
        for path in PATHS:
            yield {'ops': chain[:2] + [['req', 2, {'verb': 'get', 'path': path, 'params': params, 'body': ['none'],
                                                  'headers': None, 'pass_none': True}]]}
    for how in ('none', 'one', 'list', 'tuple'):
        for specs in ([['mark']], [['prefix', '/p1']], [['basic', 'user', 'pw']], [['mark'], ['prefix', '/p1']]):
            yield {'ops': [['caller', 0], ['clone', 0, how, specs], ['call', 1, 'a', dict(PROBE, pass_none=False)],
                           ['call', 1, 'a', dict(PROBE2, pass_none=False)], ['call', 0, 'a', dict(PROBE, pass_none=False)]]}
    yield {'ops': [['caller', 0], ['call', 0, 'a', dict(PROBE, pass_none=False)], ['add_adapter', 0, ['mark']],
                   ['call', 0, 'a', dict(PROBE, pass_none=False)], ['call', 0, 'b', dict(PROBE, pass_none=False)],
                   ['call', 0, 'e', dict(PROBE, pass_none=False)]]}


def cred_cases():
    """every credential of the grid through four deployment shapes of the authenticating layer"""
    req = {'verb': 'post', 'path': '/x', 'params': {'a': '1'}, 'body': ['json', {'k': 'v'}], 'headers': {'X-Custom': 'v1'},
           'pass_none': False}
    probe = dict(PROBE, pass_none=False)
    for cred in c17_creds.grid():
        # the dedicated wrapper class in the middle of a 3-layer chain
        yield {'ops': [['wrap', 0, 'class', [['prefix', '/inner']]], ['wrap', 1, 'class', [cred]],
                       ['wrap', 2, 'list', [['mark'], ['prefix', '/outer']]], ['req', 3, req]]}
        # method-caller clone with the adapter; the original stays unauthenticated
        yield {'ops': [['caller', 0], ['clone', 0, 'one', [cred]], ['call', 1, 'a', probe], ['call', 0, 'a', probe]]}
        # the adapter inside a list, a caller on top, a clone with a list, a prefixed (cached) connection
        yield {'ops': [['wrap', 0, 'list', [['mark'], cred]], ['caller', 1], ['clone', 0, 'list', [['prefix', '/p1']]],
                       ['call', 1, 'b', req], ['call', 1, 'b', probe]]}
        # added later to a derived connection
        yield {'ops': [['wrap', 0, 'plain', [['mark']]], ['add_adapter', 1, cred], ['req', 1, req]]}


def vary_creds(case, rnd):
    """the same sequence with every authenticating adapter replaced by one of the same kind from the grid"""
    pools = {'basic': c17_creds.basic_grid(), 'client': c17_creds.client_grid(), 'token': c17_creds.token_grid()}

    def sub(spec):
        return rnd.choice(pools[spec[0]]) if is_auth(spec) else spec
    ops = []
    for op in case['ops']:
        if op[0] in ('wrap', 'clone'):
            op = op[:3] + [[sub(s) for s in op[3]]]
        elif op[0] == 'add_adapter':
            op = op[:2] + [sub(op[2])]
        ops.append(op)
    return {'ops': ops}


def g_case_k(seed, k):
    """random sequence number k: the sequence of g_case; for every second k with credentials from the grid"""
    case = g_case(random.Random(f"C17/{seed}/{k}"))
    if k % 2:
        case = vary_creds(case, random.Random(f"C17/creds/{seed}/{k}"))
    return case


def shrink(case, fail):
    key = (fail[0], fail[1])
    ops = list(case['ops'][:fail[3] + 1])
    i, budget = len(ops) - 2, 20
    while i >= 0 and budget > 0:
        cand = ops[:i] + ops[i + 1:]
        budget -= 1
        try:
            _f, fl, _d, _n = run_case({'ops': cand})
        except Exception:      # noqa
            fl = None
        if fl is not None and (fl[0], fl[1]) == key:
            ops, fail = cand[:fl[3] + 1], fl
            i = min(i, len(ops) - 1)
        i -= 1
    return {'ops': ops}, fail


_SHRUNK = {}


def _eval(case):
    try:
        feats, fail, diags, nreq = run_case(case)
        layers_and_requests = ('chain>=2' in feats) and nreq >= 2
        if fail is not None:
            k = (fail[0], fail[1])
            _SHRUNK[k] = _SHRUNK.get(k, 0) + 1
            if _SHRUNK[k] <= 3:
                case, fail = shrink(case, fail)
            else:
                case = {'ops': case['ops'][:fail[3] + 1]}
        return case, sorted(feats), fail, sorted(diags), None, nreq, layers_and_requests
    except Exception as e:      # noqa - bug of this harness
        return case, [], None, [], f"harness exception {type(e).__name__}: {e} on {case}", 0, False


def _worker(args):
    seed, lo, hi = args
    return [_eval(g_case_k(seed, k)) for k in range(lo, hi)]


def _worker_cred(args):
    lo, hi = args
    return [_eval(c) for c in CRED_CASES[lo:hi]]


CRED_CASES = []


def _record(b, res):
    case, feats, fail, diags, err, nreq, nt = res
    for f in feats:
        b.hit(f)
    b.case(case, nontrivial=nt, sample=(b.evaluations % 301 == 0))
    b.notes['requests'] = b.notes.get('requests', 0) + nreq
    if err:
        b.error(err)
    for d in diags:
        b.diag(d)
    if fail is not None:
        clause, ksuf, text, nstep = fail
        b.fail(f"C17.{clause}", f"C17.{clause}:{ksuf}", f"{text}  [ops: {case['ops']}]", case)


def run(b):
    for case in fixed_cases():
        _record(b, _eval(case))
    CRED_CASES[:] = list(cred_cases())
    n_seq = 1000 if b.tier == 'quick' else 20000
    nproc = 6 if b.tier == 'quick' else 12
    step_ = max(25, n_seq // (nproc * 8))
    jobs = [(b.seed, lo, min(lo + step_, n_seq)) for lo in range(0, n_seq, step_)]
    ctx = multiprocessing.get_context('fork')
    with ctx.Pool(nproc) as pool:
        cjobs = [(lo, min(lo + 40, len(CRED_CASES))) for lo in range(0, len(CRED_CASES), 40)]
        for chunk in pool.imap(_worker_cred, cjobs):
            for res in chunk:
                _record(b, res)
        for chunk in pool.imap(_worker, jobs):
            for res in chunk:
                _record(b, res)
    b.require_reach(['clone-with-sequence', 'clone-with-2-adapters', 'cached-prefixed-connection-reused',
                     'structured-body', 'chain>=2', 'add_adapter', 'call-a', 'call-b', 'call-e', 'wrap', 'request',
                     'basic-credentials-base64-has-plus', 'basic-credentials-base64-has-slash',
                     'basic-credentials-base64-has-plus-and-slash', 'basic-credentials-non-ascii',
                     'basic-credentials-padding-0', 'basic-credentials-padding-1', 'basic-credentials-padding-2',
                     'base64-62-63-credentials-introduced-by-wrapper-class', 'base64-62-63-credentials-introduced-by-clone',
                     'base64-62-63-credentials-introduced-by-adapters-argument',
                     'base64-62-63-credentials-introduced-by-add_adapter',
                     'bearer-token-with-base64-characters'])


def replay_case(case):
    feats, fail, diags, _n = run_case(case)
    if fail is None:
        return True, []
    return False, [f"{fail[0]} [{fail[1]}] at step {fail[3]}: {fail[2]}"]
