"""C18 bounded driver: objects read from a worksheet match their source cells.

Run-time contract on ak.xlsread.iter_table / read_table and XlsObject.get_attr_origin, enforced on
generated worksheets (own mock: cells with value / coordinate / row / column / parent.title, rows
are tuples as in openpyxl, columns beyond Z get 'AA', 'AB', ... coordinates).

Top-level clauses (from the property statement, oracle = reference model below, DESIGN.md D.6):
  one_object_per_row    read succeeds; exactly one object (never None) per data row of the table
                        extent (title row = first non-blank row; data rows up to the end rule or
                        the end of the sheet), in sheet order (the cells an object reports as its
                        origins lie in its own row).  'blank all' ends the table at the first row in
                        which EVERY cell of the sheet row is blank: a 'margin-note row' (blank in
                        the titled columns, text in a blank-titled margin column) does not end it.
                        Key attributes (_NUM_ID_ATTRS = n >= 1): XlsObject.construct documents None
                        only when the WHOLE id is blank; a row in which at least one id cell (after
                        ladder filling) is filled must produce an object, its blank id parts
                        converted like any blank cell.  The entry of a row whose whole id is blank
                        is not pinned down (None, a matching object, or absent).
                        For a margin-note row of a plain sheet only this is demanded: its entry is None,
                        an object that matches its (blank) cells, or absent; the rows after it are
                        still produced.  In a ladder sheet it is an ordinary row (all cells 'same
                        as above').
  value_matches_origin  simple attribute: the reported origin names a cell of the sheet, the value
                        is convert(that cell), and the cell is in the column whose title the rule
                        names; missing optional / external attribute: value == declared default
                        and the origin is a placeholder (does not name a cell)
  ranged_origin         ranged attribute: the keys are the titles of one maximal run of unknown
                        titled columns (the only such run when there is exactly one); every key's
                        origin is the cell of the object's row under the column titled by the key
                        and converts to the entry; the un-keyed origin ('B2', 'B2:AC2' or a
                        placeholder when there is no key) denotes exactly the set of those cells
  ladder_equals_filled  reading with ladder_format=True == reading (plain) the sheet in which
                        every blank leading cell of a data row (from the first titled column,
                        while still blank) is replaced by the cell above, over the extent the
                        ladder sheet defines; every origin of the ladder object is the coordinate
                        of the cell of the ladder sheet that holds the value
Supporting (diagnostics only): exact placeholder texts, 'first run' choice when several runs of
unknown columns exist.

Several classes on one table (case['classes'], read with XlsTableReader(rules_1, rules_2[, rules_3])):
every data row yields one entry per class; the clauses above are demanded of the objects of every
class, where 'unknown titled column' means: titled and named by no attribute rule of ANY class that
reads the table (doc of _ObjScrCellsMap.bind_titles_row).  Title cells may hold any value: the title
text of a cell is str(value).strip() for every value that is not None (0, 0.0, False, ' Id ' are
titles '0', '0.0', 'False', 'Id'); None and blank strings are untitled columns.
"""
import contextlib
import io
import itertools
import random
import re
import signal
import sys

from ak import xlsread

PROP = 'C18'

# ------------------------------------------------------------------------------------------------
# mock worksheet


def col_letters(idx):
    """0 -> 'A', 25 -> 'Z', 26 -> 'AA', 27 -> 'AB' (bijective base 26)"""
    n = idx + 1
    s = ''
    while n > 0:
        n, r = divmod(n - 1, 26)
        s = chr(65 + r) + s
    return s


def col_index(letters):
    n = 0
    for ch in letters:
        n = n * 26 + (ord(ch) - 64)
    return n - 1


class MockCell:
    __slots__ = ('parent', 'coordinate', 'value', 'row', 'column')

    def __init__(self, parent, r, c, value):
        self.parent = parent
        self.row = r + 1
        self.column = c + 1
        self.coordinate = f"{col_letters(c)}{r + 1}"
        self.value = value

    def __repr__(self):
        return f"<Cell '{self.parent.title}'.{self.coordinate}>"


class MockSheet:
    def __init__(self, title, grid):
        self.title = title
        self._rows = [tuple(MockCell(self, r, c, v) for c, v in enumerate(row)) for r, row in enumerate(grid)]
        self.max_row = len(grid)
        self.max_column = len(grid[0]) if grid else 0

    def iter_rows(self, *args, **kwargs):
        for row in self._rows:
            yield row

    @property
    def rows(self):
        return self.iter_rows()

    def __repr__(self):
        return f'<Worksheet "{self.title}">'


_COORD = re.compile(r'^([A-Z]{1,3})([1-9][0-9]{0,6})$')


def parse_coord(text, nrows, ncols):
    """'AB7' -> (6, 27) if it names a cell of the sheet, else None"""
    if not isinstance(text, str):
        return None
    m = _COORD.match(text)
    if not m:
        return None
    r, c = int(m.group(2)) - 1, col_index(m.group(1))
    if r >= nrows or c >= ncols:
        return None
    return (r, c)


def parse_range(text, nrows, ncols):
    """'B2' -> {B2}; 'B2:D2' -> the rectangle (corners normalised as a spreadsheet does); else None"""
    if not isinstance(text, str):
        return None
    parts = text.split(':')
    if len(parts) == 1:
        p = parse_coord(parts[0], nrows, ncols)
        return None if p is None else {p}
    if len(parts) != 2:
        return None
    a, b = parse_coord(parts[0], nrows, ncols), parse_coord(parts[1], nrows, ncols)
    if a is None or b is None:
        return None
    r1, r2 = sorted((a[0], b[0]))
    c1, c2 = sorted((a[1], b[1]))
    return {(r, c) for r in range(r1, r2 + 1) for c in range(c1, c2 + 1)}


# ------------------------------------------------------------------------------------------------
# reference model (the oracle; never calls the code under test)


def blank(v):
    return v is None or (isinstance(v, str) and v.strip() == '')


class NotConvertible(Exception):
    pass


def ref_convert(reader, v):
    """documented conversions of the stock cell readers"""
    if reader == 'int':
        if v is None:
            return None
        if type(v) is int:
            return v
        raise NotConvertible(v)
    if reader == 'str':
        return None if v is None else str(v).strip()
    if reader == 'bool':
        if v is True or v in ('v', '1', 'True') or (type(v) is int and v == 1):
            return True
        if v is None or v is False or v in ('', 'False') or (type(v) is int and v == 0):
            return False
        raise NotConvertible(v)
    if reader == 'list':
        if v is None:
            return None
        if not isinstance(v, str):
            raise NotConvertible(v)
        return [x.strip() for x in v.replace('\n', ',').split(',') if x.strip()]
    raise AssertionError(reader)


RANGED = {'dict-int': ('dict', 'int'), 'dict-str': ('dict', 'str'), 'set-bool': ('set', 'bool')}


def default_value(spec):
    if 'const' in spec:
        return spec['const']
    return {'list': list, 'dict': dict, 'set': set}[spec['factory']]()


def strict_eq(a, b):
    if type(a) is not type(b):
        return False
    if isinstance(a, dict):
        return a.keys() == b.keys() and all(strict_eq(a[k], b[k]) for k in a)
    if isinstance(a, (list, tuple)):
        return len(a) == len(b) and all(strict_eq(x, y) for x, y in zip(a, b))
    return a == b


class Model:
    """what the property says about one case"""

    def __init__(self, case):
        grid = case['grid']
        self.grid = grid
        self.nrows = len(grid)
        self.ncols = len(grid[0])
        self.ladder = bool(case['ladder'])
        stop_on = case['stop_on']
        t = next(r for r in range(self.nrows) if not all(blank(v) for v in grid[r]))
        self.title_row = t
        self.titles = ['' if v is None else str(v).strip() for v in grid[t]]
        self.first_titled = next((c for c, x in enumerate(self.titles) if x), None)
        rows = []
        self.end_row = None
        for r in range(t + 1, self.nrows):
            ended = blank(grid[r][0]) if stop_on == 'blank first' else all(blank(v) for v in grid[r])
            if ended:
                self.end_row = r
                break
            rows.append(r)
        self.data_rows = rows
        # margin-note rows: blank in every titled column, yet not blank as a sheet row
        self.gap_rows = [r for r in rows if stop_on == 'blank all'
                         and all(blank(grid[r][c]) for c in range(self.ncols) if self.titles[c])]
        # ladder: where the value of (r, c) is actually held
        self.src = {(r, c): (r, c) for r in rows for c in range(self.ncols)}
        self.run_len = {}
        if self.ladder and self.first_titled is not None:
            for i, r in enumerate(rows):
                n = 0
                if i > 0:
                    for c in range(self.first_titled, self.ncols):
                        if blank(grid[r][c]):
                            self.src[(r, c)] = self.src[(rows[i - 1], c)]
                            n += 1
                        else:
                            break
                self.run_len[r] = n
        self.attrs = case['attrs']
        self.own_columns = {a['column'] for a in self.attrs if a['kind'] == 'cell'}
        # columns named by the rules of any class that reads this table (this one and the others)
        self.known = self.own_columns | set(case.get('foreign_columns', ()))
        self.col_of = {}
        for c, x in enumerate(self.titles):
            if x:
                self.col_of[x] = c
        self.unknown_cols = [c for c, x in enumerate(self.titles) if x and x not in self.known]
        self.runs = []
        for c in self.unknown_cols:
            if self.runs and self.runs[-1][-1] == c - 1:
                self.runs[-1].append(c)
            else:
                self.runs.append([c])
        self.has_ranged = any(a['kind'] == 'ranged' for a in self.attrs)
        self.any_ranged = self.has_ranged or bool(case.get('foreign_ranged', False))
        # key attributes: the first num_id attributes of the class
        self.num_id = int(case['num_id'])
        self.id_cols = [self.col_of.get(a.get('column')) if a['kind'] == 'cell' else None
                        for a in self.attrs[:self.num_id]]

    def id_blank_parts(self, r):
        """-> (number of blank id cells of data row r after ladder filling, number of id cells)"""
        n = 0
        for c in self.id_cols:
            sr, sc = self.src[(r, c)]
            n += blank(self.grid[sr][sc])
        return n, len(self.id_cols)

    def filled_grid(self):
        g = [list(row) for row in self.grid]
        for (r, c), (sr, sc) in self.src.items():
            g[r][c] = self.grid[sr][sc]
        return g

    def expected(self, attr, r):
        """('cell', pos) | ('default', value) | ('range',)"""
        k = attr['kind']
        if k == 'cell':
            c = self.col_of.get(attr['column'])
            if c is None:
                return ('default', default_value(attr['default']))
            return ('cell', self.src[(r, c)])
        if k == 'ext-none':
            return ('default', None)
        if k == 'ext-default':
            return ('default', default_value(attr['default']))
        return ('range',)


def views(case):
    """one single-class case per class that reads the table (the case itself when it has one class);
    a view of a multi-class case also names the columns / ranged attributes of the OTHER classes"""
    if 'classes' not in case:
        return [case]
    out = []
    classes = case['classes']
    for i, c in enumerate(classes):
        v = {k: x for k, x in case.items() if k != 'classes'}
        v['attrs'] = c['attrs']
        v['num_id'] = c['num_id']
        v['class_index'] = i
        v['foreign_columns'] = sorted({a['column'] for j, o in enumerate(classes) if j != i
                                       for a in o['attrs'] if a['kind'] == 'cell'})
        v['foreign_ranged'] = any(a['kind'] == 'ranged' for j, o in enumerate(classes) if j != i
                                  for a in o['attrs'])
        out.append(v)
    return out


def all_attrs(case):
    if 'classes' in case:
        return [a for c in case['classes'] for a in c['attrs']]
    return case['attrs']


def preconditions(case, m=None):
    """the narrower input domain (listed as assumptions of the check); returns None or the reason"""
    if 'classes' in case:
        if not 1 <= len(case['classes']) <= 3:
            return 'number of classes'
        for v in views(case):
            why = preconditions(v)
            if why is not None:
                return why
        return None
    m = m or Model(case)
    named = [x for x in m.titles if x]
    if len(named) != len(set(named)):
        return 'duplicate titles'
    if not m.data_rows:
        return 'no data row'
    blank_titled = [c for c, x in enumerate(m.titles) if not x]
    upto = m.data_rows + ([m.end_row] if m.end_row is not None else [])
    for r in upto:
        row = m.grid[r]
        if case['stop_on'] == 'blank first':
            if m.first_titled is not None and blank(row[0]) != blank(row[m.first_titled]):
                return 'first sheet cell / first titled cell disagree'
    if m.ladder:
        for i, r in enumerate(m.data_rows):
            row = m.grid[r]
            if any(not blank(row[c]) for c in blank_titled if c > (m.first_titled or 0)):
                return 'content in an interior blank-titled column of a ladder sheet'
            if i == 0:
                if r in m.gap_rows:
                    return 'first data row of a ladder sheet is a margin-note row'
                continue
            e = m.first_titled + m.run_len[r]
            if e >= m.ncols:
                if r in m.gap_rows:
                    continue        # margin-note row: every table cell 'same as above'
                return 'ladder row blank to the end'
            if m.any_ranged:
                for run in m.runs:
                    if run[0] < e <= run[-1]:
                        return 'ladder run ends inside a column group'
            elif e in m.unknown_cols:
                nxt = next((c for c in range(e + 1, m.ncols) if m.titles[c] and c not in m.unknown_cols), None)
                if nxt is not None and blank(row[nxt]):
                    return 'ladder run stopped by an unread column'
    if m.num_id:
        if m.num_id > len(m.attrs) or any(c is None for c in m.id_cols):
            return 'key attribute is not read from a cell'
    if not any(a['kind'] == 'cell' and a['column'] in m.col_of for a in m.attrs):
        return 'class without an attribute read from a single cell'
    for a in m.attrs:
        if a['kind'] == 'ranged' and not m.runs and 'default' not in a:
            return 'required ranged attribute without columns'
        if a['kind'] == 'cell' and a['column'] not in m.col_of and 'default' not in a:
            return 'required column missing'
    return None


# ------------------------------------------------------------------------------------------------
# the real code


def _reader(name):
    return {'int': xlsread.CellInt, 'str': xlsread.CellStr, 'bool': xlsread.CellBool,
            'list': xlsread.CellList}[name]()


def _default_arg(spec):
    if 'const' in spec:
        return spec['const']
    return {'list': list, 'dict': dict, 'set': set}[spec['factory']]


def build_rules(case):
    names = [a['name'] for a in case['attrs']]
    cls = type(f"XlObjC18_{case.get('class_index', 0)}", (xlsread.XlsObject,),
               {'_ATTRS': names, '_NUM_ID_ATTRS': int(case['num_id'])})
    rules = {}
    for a in case['attrs']:
        k = a['kind']
        if k == 'ext-none':
            rules[a['name']] = None
            continue
        if k == 'ext-default':
            rules[a['name']] = (None, None, {'default_val': _default_arg(a['default'])})
            continue
        if k == 'cell':
            col, rd = a['column'], _reader(a['reader'])
        else:
            shape, elem = RANGED[a['reader']]
            rd = (xlsread.CellRangeDict if shape == 'dict' else xlsread.CellRangeSet)(_reader(elem))
            col = '*'
        if 'default' in a:
            rules[a['name']] = (col, rd, {'default_val': _default_arg(a['default'])})
        else:
            rules[a['name']] = (col, rd)
    return cls, rules


class Budget(Exception):
    pass


@contextlib.contextmanager
def guarded(seconds=10):
    """silence + wall-clock budget for one call into the code under test"""
    def on_alarm(signum, frame):
        raise Budget()
    old_out, old_err = sys.stdout, sys.stderr
    sys.stdout, sys.stderr = io.StringIO(), io.StringIO()
    use_alarm = hasattr(signal, 'setitimer')
    old_handler = None
    try:
        if use_alarm:
            try:
                old_handler = signal.signal(signal.SIGALRM, on_alarm)
                signal.setitimer(signal.ITIMER_REAL, seconds)
            except ValueError:      # not in the main thread
                use_alarm = False
        yield
    finally:
        if use_alarm:
            signal.setitimer(signal.ITIMER_REAL, 0)
            if old_handler is not None:
                signal.signal(signal.SIGALRM, old_handler)
        sys.stdout, sys.stderr = old_out, old_err


def read_real(case, grid=None, ladder=None):
    """-> ('ok', [objs of class 0, objs of class 1, ...], sheet) | ('raise', type name, message)
        | ('budget', n, sheet) | ('shape', text, sheet)
    one class: the public iter_table; several classes: XlsTableReader(rules, ...).iter_table"""
    grid = case['grid'] if grid is None else grid
    ladder = case['ladder'] if ladder is None else ladder
    sheet = MockSheet(case.get('title', 'sheet1'), grid)
    cap = len(grid) + 3
    try:
        with guarded():
            if 'classes' not in case:
                objs = []
                cls, rules = build_rules(case)
                for o in xlsread.iter_table(sheet, cls, rules, stop_on=case['stop_on'], ladder_format=bool(ladder)):
                    objs.append(o)
                    if len(objs) > cap:
                        return ('budget', len(objs), sheet)
                return ('ok', [objs], sheet)
            vs = views(case)
            per = [[] for _ in vs]
            rrules = [xlsread.XlsObjReadRules(*build_rules(v)) for v in vs]
            reader = xlsread.XlsTableReader(*rrules)
            n = 0
            for entry in reader.iter_table(sheet, stop_on=case['stop_on'], ladder_format=bool(ladder)):
                n += 1
                if n > cap:
                    return ('budget', n, sheet)
                if not isinstance(entry, (list, tuple)) or len(entry) != len(vs):
                    return ('shape', f"entry {n - 1} of the table is {entry!r}: not one item per class "
                                     f"({len(vs)} classes)", sheet)
                for objs, o in zip(per, entry):
                    objs.append(o)
            return ('ok', per, sheet)
    except Budget:
        return ('budget', -1, sheet)
    except Exception as e:      # noqa  (code under test may raise anything)
        return ('raise', type(e).__name__, str(e)[:200])


def get_origin(o, name, key=None):
    """-> (text, None) | (None, 'ValueError') | (None, 'other error text')"""
    try:
        with guarded():
            t = o.get_attr_origin(name) if key is None else o.get_attr_origin(name, key)
    except ValueError:
        return None, 'ValueError'
    except Exception as e:      # noqa
        return None, f"{type(e).__name__}: {e}"
    return t, None


# ------------------------------------------------------------------------------------------------
# clause evaluation

MISSING = object()


def coord(pos):
    return f"{col_letters(pos[1])}{pos[0] + 1}"


def _where(m, pos, exp, own_row):
    """classify a reported cell against the expected one: None (fine) | 'column' | 'row'"""
    if pos == exp:
        return None
    if pos[1] != exp[1]:
        return 'column'
    # both cells blank: either of them 'holds' the (absent) value of a ladder cell
    if m.ladder and blank(m.grid[exp[0]][exp[1]]) and blank(m.grid[pos[0]][pos[1]]) and exp[0] <= pos[0] <= own_row:
        return None
    return 'row'


def check_objects(case, m, objs):
    """clauses 1-3 (and the origin half of 4) on the objects of one read; -> [(clause, key, text)], diags"""
    out, diags = [], []
    lad = m.ladder

    def row_fail(what, a, o_txt, exp, r):
        if lad:
            out.append(('ladder_equals_filled', 'origin-not-the-holding-cell',
                        f"{what} of the object of row {r + 1}: origin {o_txt}, but the value is held by {coord(exp)}"))
        else:
            out.append(('one_object_per_row', 'origin-in-another-row',
                        f"{what} of the object of row {r + 1}: origin {o_txt} is not in the object's row "
                        f"(expected {coord(exp)})"))

    # rows whose entry is not pinned down: margin-note rows of plain sheets, rows whose whole id is blank
    gaps = [] if lad else list(m.gap_rows)
    if m.num_id:
        for r in m.data_rows:
            nb, n = m.id_blank_parts(r)
            if nb == n and r not in gaps:
                gaps.append(r)
    rows = m.data_rows
    if len(objs) == len(m.data_rows):
        pass
    elif gaps and len(objs) == len(m.data_rows) - len(gaps):
        rows = [r for r in m.data_rows if r not in gaps]
        diags.append("rows blank in all titled columns / with a wholly blank id are skipped without an entry")
    else:
        kind = 'too-few' if len(objs) < len(m.data_rows) else 'too-many'
        if len(objs) in [m.data_rows.index(g) for g in m.gap_rows]:
            kind = 'table-ended-by-margin-note-row'
        out.append(('one_object_per_row', kind,
                    f"{len(objs)} entries for the {len(m.data_rows)} rows {[r + 1 for r in m.data_rows]} between the "
                    f"title row and the first entirely blank sheet row / end of sheet (stop_on={case['stop_on']!r}, "
                    f"ladder={lad}; rows blank in the titled columns only: {[r + 1 for r in m.gap_rows]})"))
        return out, diags
    for i, (o, r) in enumerate(zip(objs, rows)):
        if o is None and r in gaps:
            continue
        if r in gaps and m.num_id and all(m.grid[m.src[(r, c)][0]][c] is None for c in m.id_cols):
            diags.append("a row whose id cells are all empty produced an object instead of None")
        if o is None or not isinstance(o, xlsread.XlsObject):
            kind = 'not-an-object'
            if o is None and m.num_id >= 2 and 0 < m.id_blank_parts(r)[0] < m.num_id:
                kind = 'none-for-partly-blank-id'
            out.append(('one_object_per_row', kind,
                        f"entry {i} (row {r + 1}) is {o!r}" + (
                            f"; _NUM_ID_ATTRS={m.num_id}, id cells "
                            f"{[m.grid[m.src[(r, c)][0]][c] for c in m.id_cols]}" if m.num_id else '')))
            continue
        for a in m.attrs:
            name = a['name']
            val = getattr(o, name, MISSING)
            if val is MISSING:
                out.append(('value_matches_origin', 'attribute-not-set', f"object of row {r + 1} has no '{name}'"))
                continue
            exp = m.expected(a, r)
            if exp[0] == 'cell':
                txt, err = get_origin(o, name)
                pos = parse_coord(txt, m.nrows, m.ncols) if err is None else None
                if pos is None:
                    out.append(('value_matches_origin', 'origin-not-a-cell',
                                f"get_attr_origin('{name}') of the object of row {r + 1} = {txt!r} {err or ''}"))
                    continue
                try:
                    conv = ref_convert(a['reader'], m.grid[pos[0]][pos[1]])
                    ok = strict_eq(val, conv)
                except NotConvertible:
                    conv, ok = '<not convertible>', False
                if not ok:
                    out.append(('value_matches_origin', 'value-differs',
                                f"row {r + 1}: {name} = {val!r} but cell {txt} holds {m.grid[pos[0]][pos[1]]!r} "
                                f"which converts to {conv!r}"))
                w = _where(m, pos, exp[1], r)
                if w == 'column':
                    out.append(('value_matches_origin', 'wrong-column',
                                f"row {r + 1}: origin of '{name}' is {txt}, the column titled {a['column']!r} is "
                                f"{col_letters(exp[1][1])}"))
                elif w == 'row':
                    row_fail(f"'{name}'", a, txt, exp[1], r)
            elif exp[0] == 'default':
                if not strict_eq(val, exp[1]):
                    out.append(('value_matches_origin', 'default-differs',
                                f"row {r + 1}: {name} = {val!r}, declared default {exp[1]!r} ({a['kind']})"))
                txt, err = get_origin(o, name)
                if err is not None or parse_range(txt, m.nrows, m.ncols) is not None:
                    out.append(('value_matches_origin', 'default-with-cell-origin',
                                f"row {r + 1}: origin of absent '{name}' is {txt!r} {err or ''}"))
                elif txt not in ('<n/a>', '<skipped column>'):
                    diags.append(f"placeholder origin of an absent attribute is {txt!r}")
            else:
                _check_ranged(case, m, o, a, val, r, out, diags, row_fail)
    return out, diags


def _check_ranged(case, m, o, a, val, r, out, diags, row_fail):
    name = a['name']
    shape, elem = RANGED[a['reader']]
    # every titled column is asked for: a key under a column that some class names is reported as well
    cands = [t for t in m.titles if t]
    keys = {}
    for t in cands:
        txt, err = get_origin(o, name, t)
        if err == 'ValueError':
            continue
        if err is not None:
            out.append(('ranged_origin', 'key-origin-not-a-cell', f"get_attr_origin('{name}', {t!r}) raises {err}"))
            continue
        keys[t] = txt
    if shape == 'dict':
        if not isinstance(val, dict) or set(val.keys()) != set(keys):
            out.append(('ranged_origin', 'keys-differ',
                        f"row {r + 1}: {name} = {val!r} but origins exist for keys {sorted(keys)}"))
            return
    else:
        if not isinstance(val, set) or not val <= set(keys):
            out.append(('ranged_origin', 'keys-differ',
                        f"row {r + 1}: {name} = {val!r} but origins exist for keys {sorted(keys)}"))
            return
    cells = set()
    for k, txt in keys.items():
        pos = parse_coord(txt, m.nrows, m.ncols)
        if pos is None:
            out.append(('ranged_origin', 'key-origin-not-a-cell',
                        f"row {r + 1}: get_attr_origin('{name}', {k!r}) = {txt!r}"))
            continue
        cells.add(pos)
        raw = m.grid[pos[0]][pos[1]]
        try:
            conv = ref_convert(elem, raw)
            entry = val[k] if shape == 'dict' else (k in val)
            ok = strict_eq(entry, conv if shape == 'dict' else bool(conv))
        except NotConvertible:
            conv, entry, ok = '<not convertible>', None, False
        if not ok:
            out.append(('ranged_origin', 'entry-differs',
                        f"row {r + 1}: {name}[{k!r}] -> {entry!r} but cell {txt} holds {raw!r} -> {conv!r}"))
        exp = m.src[(r, m.col_of[k])]
        w = _where(m, pos, exp, r)
        if w == 'column':
            out.append(('ranged_origin', 'key-wrong-column',
                        f"row {r + 1}: origin of {name}[{k!r}] is {txt}, the column titled {k!r} is "
                        f"{col_letters(exp[1])}"))
        elif w == 'row':
            row_fail(f"{name}[{k!r}]", a, txt, exp, r)
    # which columns form the group
    key_cols = sorted(m.col_of[k] for k in keys)
    if key_cols and key_cols not in m.runs:
        out.append(('ranged_origin', 'group-differs',
                    f"row {r + 1}: keys of '{name}' are columns {[col_letters(c) for c in key_cols]} "
                    f"{sorted(keys)}; runs of titled columns that no class names (titles {m.titles}): "
                    f"{[[col_letters(c) for c in run] for run in m.runs]}"))
    elif not key_cols and m.runs:
        out.append(('ranged_origin', 'group-differs', f"row {r + 1}: '{name}' has no key although unknown titled "
                                                      f"columns exist"))
    elif key_cols and key_cols != m.runs[0]:
        diags.append("ranged attribute bound to a run of unknown columns other than the first one")
    # un-keyed origin
    txt, err = get_origin(o, name)
    if not keys:
        if not strict_eq(val, {} if shape == 'dict' else set()):
            out.append(('ranged_origin', 'empty-group-value', f"row {r + 1}: {name} = {val!r} with no column"))
        if err is not None or parse_range(txt, m.nrows, m.ncols) is not None:
            out.append(('ranged_origin', 'unkeyed-origin-of-empty-group',
                        f"row {r + 1}: get_attr_origin('{name}') = {txt!r} {err or ''} with no column"))
        elif txt != '<skipped column>':
            diags.append(f"placeholder origin of an empty ranged attribute is {txt!r}")
        return
    denoted = parse_range(txt, m.nrows, m.ncols) if err is None else None
    if len({p[0] for p in cells}) > 1:
        # cells of several rows (a ladder group whose blank cells are reported in place, or a row error
        # already reported per key): no 'X:Y' text can denote them, nothing is demanded of the un-keyed text
        return
    if denoted != cells and len(cells) == len(keys):
        cs = sorted(c for _, c in cells)
        cls = 'crossing-Z' if cs[0] <= 25 < cs[-1] else ('beyond-Z' if cs[0] > 25 else 'within-A-Z')
        want = coord(min(cells, key=lambda p: p[1])) + (':' + coord(max(cells, key=lambda p: p[1])) if len(cells) > 1 else '')
        out.append(('ranged_origin', f'unkeyed-range-{cls}',
                    f"get_attr_origin('{name}') = {txt!r} {err or ''} does not denote the {len(cells)} source cells "
                    f"{want} of the object of row {r + 1}"))


def check_ladder(case, m, objs, fobjs):
    """clause 4: ladder read == plain read of the filled-in sheet (same extent); fobjs = that read"""
    out = []
    if len(fobjs) != len(objs):
        out.append(('ladder_equals_filled', 'object-count-differs',
                    f"{len(objs)} objects from the ladder sheet, {len(fobjs)} from the filled-in sheet"))
        return out
    for i, (lo, fo, r) in enumerate(zip(objs, fobjs, m.data_rows)):
        if lo is None or fo is None:
            if (lo is None) != (fo is None):
                out.append(('ladder_equals_filled', 'objects-differ', f"row {r + 1}: {lo!r} vs {fo!r}"))
            continue
        for a in m.attrs:
            name = a['name']
            lv, fv = getattr(lo, name, MISSING), getattr(fo, name, MISSING)
            if lv is MISSING or fv is MISSING or not strict_eq(lv, fv):
                out.append(('ladder_equals_filled', 'objects-differ',
                            f"row {r + 1}: {name} = {lv!r} from the ladder sheet, {fv!r} from the filled-in sheet"))
            keysets = [None]
            if a['kind'] == 'ranged':
                keysets = [m.titles[c] for c in m.unknown_cols]
            for k in keysets:
                lt, le = get_origin(lo, name, k)
                ft, fe = get_origin(fo, name, k)
                if le is not None or fe is not None:
                    if le != fe:
                        out.append(('ladder_equals_filled', 'origin-not-the-holding-cell',
                                    f"row {r + 1}: origin of {name}[{k!r}]: {lt!r}/{le} vs {ft!r}/{fe}"))
                    continue
                fp = parse_coord(ft, m.nrows, m.ncols)
                lp = parse_coord(lt, m.nrows, m.ncols)
                if fp is None or lp is None:
                    if k is None and a['kind'] == 'ranged':
                        continue        # un-keyed range text: clause ranged_origin
                    if lt != ft:
                        out.append(('ladder_equals_filled', 'origin-not-the-holding-cell',
                                    f"row {r + 1}: origin of '{name}': {lt!r} vs {ft!r} in the filled-in sheet"))
                    continue
                exp = m.src.get(fp, fp)
                if _where(m, lp, exp, r) is not None:
                    out.append(('ladder_equals_filled', 'origin-not-the-holding-cell',
                                f"row {r + 1}: origin of '{name}'{'' if k is None else '[' + repr(k) + ']'} is {lt}; the "
                                f"filled-in sheet reads it from {ft}, whose value is held by {coord(exp)}"))
    return out


def first_attr_class(case, m):
    a = m.attrs[0]
    if a['kind'] == 'cell' and a['column'] in m.col_of:
        return None
    return 'first-attr-not-a-cell'


def evaluate(case):
    """-> (failures [(clause, key, text)], diags, events, nontrivial)"""
    vs = views(case)
    ms = [Model(v) for v in vs]
    m = ms[0]
    events = set()
    for v, mv in zip(vs, ms):
        events |= features(v, mv)
    events |= table_features(case, vs, ms)
    fails, diags = [], []
    multi = len(vs) > 1

    def tag(i, items):
        return [(c, k, (f"class {i + 1} of {len(vs)}: " if multi else '') + t) for c, k, t in items]

    res = read_real(case)
    if res[0] == 'raise':
        cls = next((x for x in (first_attr_class(v, mv) for v, mv in zip(vs, ms)) if x), None)
        fails.append(('one_object_per_row', f"raises-{res[1]}" + (':' + cls if cls else ''),
                      f"read_table raises {res[1]}: {res[2]}"))
    elif res[0] == 'budget':
        fails.append(('one_object_per_row', 'budget-overrun',
                      f"iter_table did not finish within the budget ({res[1]} objects for {len(case['grid'])} rows)"))
    elif res[0] == 'shape':
        fails.append(('one_object_per_row', 'entry-not-one-item-per-class', res[1]))
    else:
        per = res[1]
        for i, (v, mv, objs) in enumerate(zip(vs, ms, per)):
            f, d = check_objects(v, mv, objs)
            fails += tag(i, f)
            diags += d
        if m.ladder:
            fres = read_real(case, grid=m.filled_grid(), ladder=False)
            if fres[0] != 'ok':
                fails.append(('ladder_equals_filled', 'filled-read-fails',
                              f"plain reading of the filled-in sheet: {fres[0]} {fres[1]} "
                              f"{fres[2] if fres[0] == 'raise' else ''}"))
            else:
                for i, (v, mv, objs, fobjs) in enumerate(zip(vs, ms, per, fres[1])):
                    fails += tag(i, check_ladder(v, mv, objs, fobjs))
    nontrivial = len(m.data_rows) >= 2 and any(
        a['kind'] == 'ranged' or 'default' in a or a['kind'].startswith('ext') for a in all_attrs(case))
    return fails, diags, events, nontrivial


def table_features(case, vs, ms):
    """reach events of the table as a whole: several classes on one table, kinds of title cells"""
    ev = set()
    m = ms[0]
    if len(vs) == 2:
        ev.add('two-classes-one-table')
    elif len(vs) == 3:
        ev.add('three-classes-one-table')
    if len(vs) > 1:
        if sum(mv.has_ranged for mv in ms) >= 2:
            ev.add('two-classes-with-a-ranged-attribute')
        for v, mv in zip(vs, ms):
            if not (mv.has_ranged and mv.runs):
                continue
            run = mv.runs[0]
            for nb in (run[0] - 1, run[-1] + 1):
                if 0 <= nb < mv.ncols:
                    t = mv.titles[nb]
                    if t and t in mv.known and t not in mv.own_columns:
                        ev.add('ranged-next-to-foreign-column')
                        if mv.ladder:
                            ev.add('ranged-next-to-foreign-column-in-ladder-sheet')
    cells = m.grid[m.title_row]
    named = set()
    for mv in ms:
        named |= mv.known
    for c, v in enumerate(cells):
        if v is None:
            continue
        if isinstance(v, str):
            if v.strip() and v != v.strip():
                ev.add('padded-title')
            if v == '':
                ev.add('empty-string-title')
            continue
        ev.add('non-string-title')
        ev.add(f"{type(v).__name__}-title")
        if not v:
            ev.add('falsy-title')
            if m.titles[c] in named:
                ev.add('falsy-title-of-named-column')
            elif any(mv.has_ranged and mv.runs and c in mv.runs[0] for mv in ms):
                ev.add('falsy-title-in-column-group')
                if any(mv.has_ranged and mv.runs and c in mv.runs[0][1:-1] for mv in ms):
                    ev.add('falsy-title-inside-column-group')
            else:
                ev.add('falsy-title-of-unread-column')
    return ev


def features(case, m):
    ev = set()
    if m.title_row > 0:
        ev.add('leading-blank-rows')
    if m.end_row is not None and m.end_row < m.nrows - 1:
        ev.add('trailing-content-after-end-row')
    if m.end_row is None:
        ev.add('table-ends-with-sheet')
    if m.end_row is not None and case['stop_on'] == 'blank first' and not all(blank(v) for v in m.grid[m.end_row]):
        ev.add('end-row-with-content')
    if any(not x for x in m.titles):
        ev.add('blank-titled-column')
    for a in m.attrs:
        if a['kind'] == 'cell' and a['column'] not in m.col_of:
            ev.add('missing-optional-column')
        if a['kind'] == 'cell' and a['column'] in m.col_of and 'default' in a:
            ev.add('optional-column-present')
        if a['kind'].startswith('ext'):
            ev.add('external-attribute')
        if a['kind'] == 'ranged':
            if not m.runs:
                ev.add('ranged-attribute-without-columns')
            else:
                run = m.runs[0]
                if run[0] <= 25 < run[-1]:
                    ev.add('range-crossing-Z/AA')
                if run[0] == 0:
                    ev.add('range-first')
                elif run[-1] == m.ncols - 1:
                    ev.add('range-last')
                else:
                    ev.add('range-between')
                if len(m.runs) > 1:
                    ev.add('several-runs-of-unknown-columns')
    if not m.any_ranged and m.unknown_cols:
        ev.add('unknown-extra-column')
    if m.ladder:
        rl = [m.run_len[r] for r in m.data_rows]
        if any(x >= 2 and y >= 2 for x, y in zip(rl, rl[1:])):
            ev.add('ladder-run>=2-cells-over>=2-rows')
        if any(x >= 1 for x in rl):
            ev.add('ladder-substitution')
        if m.has_ranged and m.runs:
            for r in m.data_rows:
                if m.first_titled + m.run_len[r] > m.runs[0][-1]:
                    ev.add('ladder-substituted-column-group')
    if any(blank(m.grid[r][c]) for r in m.data_rows for c in range(m.ncols) if m.titles[c]):
        ev.add('blank-data-cell')
    if m.gap_rows:
        later = any(r > m.gap_rows[0] and r not in m.gap_rows for r in m.data_rows)
        if later:
            ev.add('ladder-margin-note-row-then-data' if m.ladder else 'margin-note-row-then-data')
            outside = [c for c, x in enumerate(m.titles) if not x and (c < m.first_titled or all(
                not y for y in m.titles[c:]))]
            if any(not blank(m.grid[m.gap_rows[0]][c]) for c in outside):
                ev.add('margin-note-outside-the-titled-span-then-data')
        else:
            ev.add('margin-note-row-last')
    if first_attr_class(case, m):
        ev.add('first-attribute-not-read-from-a-cell')
    if case['num_id']:
        ev.add('class-with-key-attribute')
        if m.num_id >= 2 and all(c is not None for c in m.id_cols):
            ev.add(f'class-with-{m.num_id}-attribute-id')
            for r in m.data_rows:
                nb, n = m.id_blank_parts(r)
                if 0 < nb < n:
                    ev.add('partly-blank-multi-attribute-id')
                    if m.ladder and any(m.src[(r, c)] != (r, c) for c in m.id_cols):
                        ev.add('ladder-row-inheriting-part-of-a-partly-blank-id')
        if all(c is not None for c in m.id_cols) and any(
                m.id_blank_parts(r)[0] == m.num_id and (m.ladder or r not in m.gap_rows) for r in m.data_rows):
            ev.add('row-with-wholly-blank-id')
    return ev


# ------------------------------------------------------------------------------------------------
# generation

PRESENT = [('id', 'Id', 'int'), ('name', 'Person name', 'str'), ('status', 'Status', 'int'),
           ('tags', 'Tags', 'list'), ('ok', 'Ok', 'bool')]
ABSENT = [
    {'name': 'alt', 'kind': 'cell', 'column': 'Alt', 'reader': 'int', 'default': {'const': 137}},
    {'name': 'note', 'kind': 'cell', 'column': 'Note', 'reader': 'str', 'default': {'const': None}},
    {'name': 'extra', 'kind': 'cell', 'column': 'Extra', 'reader': 'list', 'default': {'factory': 'list'}},
    {'name': 'ext', 'kind': 'ext-none'},
    {'name': 'ext2', 'kind': 'ext-default', 'default': {'const': 42}},
    {'name': 'ext3', 'kind': 'ext-default', 'default': {'factory': 'dict'}},
]
GROUP_TITLES = ['math', 'science', 'history', 'cs']
VALUES = {
    'int': [0, 1, 7, 10, 20, 2019, -3],
    'str': ['Arnold', ' padded ', 'x', '10', 'a,b', 15],
    'bool': ['v', 1, '1', True, 'True', '', False, 'False', 0],
    'list': ['a, b', 'math\n science,history', 'x', ',', 'one'],
    'any': ['zz', 5, 'q q', True],
}
NONBLANK_BOOL = ['v', 1, '1', True, 'True', False, 'False', 0]
PLACEMENTS = ['none', 'before', 'between', 'after', 'wide']
MODES = [(s, l) for s in ('blank all', 'blank first') for l in (False, True)]


def layouts():
    for k in (3, 4, 5):
        for perm in itertools.permutations(range(k)):
            for placement in PLACEMENTS:
                for stop_on, ladder in MODES:
                    yield (k, list(perm), placement, stop_on, ladder)


def _blank_value(rng, vtype):
    if vtype in ('str', 'any', 'blank') and rng.random() < 0.35:
        return rng.choice([' ', '', '  '])
    return None


def _value(rng, vtype, p_blank):
    if vtype == 'blank':
        return rng.choice(['xx', 3]) if rng.random() < 0.3 else _blank_value(rng, vtype)
    if rng.random() < p_blank:
        if vtype == 'bool' and rng.random() < 0.3:
            return ''
        return _blank_value(rng, vtype)
    return rng.choice(VALUES[vtype])


def _nonblank(rng, vtype):
    if vtype == 'bool':
        return rng.choice(NONBLANK_BOOL)
    if vtype == 'blank':
        return 'xx'
    return rng.choice(VALUES[vtype])


def gen_case(layout, rng):
    k, perm, placement, stop_on, ladder = layout
    present = [PRESENT[i] for i in range(k)]
    cols = [{'title': present[i][1], 'type': present[i][2], 'role': 'known'} for i in perm]
    attrs = []
    for (name, col, rd) in present:
        a = {'name': name, 'kind': 'cell', 'column': col, 'reader': rd}
        if rng.random() < 0.25:
            a['default'] = {'const': rng.choice([None, 25])}
        attrs.append(a)
    # ranged attribute and its column group
    ranged = None
    if placement != 'none':
        rd = rng.choice(sorted(RANGED))
        ranged = {'name': 'grades', 'kind': 'ranged', 'reader': rd}
        if rng.random() < 0.2:
            ranged['default'] = {'factory': RANGED[rd][0]}
        if placement == 'wide':
            titles = [f"g{n:02d}" for n in range(1, 29)]
            pos = rng.choice([0, 1, 1, len(cols)])
        else:
            titles = GROUP_TITLES[:rng.randint(1, 4)]
            pos = {'before': 0, 'after': len(cols), 'between': rng.randint(1, len(cols) - 1)}[placement]
        cols[pos:pos] = [{'title': t, 'type': RANGED[rd][1], 'role': 'group'} for t in titles]
    elif rng.random() < 0.3:
        rd = rng.choice(sorted(RANGED))
        ranged = {'name': 'grades', 'kind': 'ranged', 'reader': rd, 'default': {'factory': RANGED[rd][0]}}
    # unknown extra columns
    n_extra = rng.choice([0, 0, 1, 2])
    if ranged is not None and placement == 'none':
        n_extra = 0
    for n in range(n_extra):
        vt = RANGED[ranged['reader']][1] if ranged is not None else 'any'
        cols.insert(rng.randint(0, len(cols)), {'title': f"X{n + 1}", 'type': vt, 'role': 'unknown'})
    # blank-titled column
    if rng.random() < 0.4:
        pos = rng.choice([0, 0, len(cols)] + list(range(1, len(cols))))
        cols.insert(pos, {'title': rng.choice([None, ' ']), 'type': 'blank', 'role': 'blank'})
        if rng.random() < 0.35:     # margins on both sides / a second untitled column
            pos = rng.choice([0, len(cols), len(cols), rng.randint(0, len(cols))])
            cols.insert(pos, {'title': rng.choice([None, ' ']), 'type': 'blank', 'role': 'blank'})
    # absent attributes (missing optional column / external) and attribute order
    n_abs = rng.choice([0, 1, 1, 2])
    extra_attrs = [dict(a) for a in rng.sample(ABSENT, n_abs)]
    if ranged is not None:
        extra_attrs.append(ranged)
    odd_first = rng.random() < 0.04 and extra_attrs
    for a in extra_attrs:
        attrs.insert(rng.randint(1, len(attrs)), a)
    if odd_first:
        # rarely: the first attribute of the class is not read from a single cell
        j = next(i for i, a in enumerate(attrs) if a in extra_attrs)
        attrs.insert(0, attrs.pop(j))
    # key attributes: only leading attributes that are read from a present column can be id parts
    present_cols = {p[1] for p in present}
    lead = 0
    while lead < len(attrs) and attrs[lead]['kind'] == 'cell' and attrs[lead]['column'] in present_cols:
        lead += 1
    num_id = min(lead, rng.choice([0, 0, 0, 0, 0, 1, 1, 2, 2, 2, 3]))

    ncols = len(cols)
    ft = next(c for c in range(ncols) if cols[c]['role'] != 'blank')
    has_ranged = ranged is not None
    valid_stop = []      # columns at which a ladder run may stop
    for c in range(ncols):
        role = cols[c]['role']
        if role == 'known':
            valid_stop.append(c)
        elif has_ranged and role in ('group', 'unknown'):
            prev = cols[c - 1]['role'] if c > 0 else None
            if prev not in ('group', 'unknown'):
                valid_stop.append(c)
    known_cols = [c for c in range(ncols) if cols[c]['role'] == 'known']
    id_cols = [next(c for c in range(ncols) if cols[c]['title'] == a['column']) for a in attrs[:num_id]]

    grid = []
    for _ in range(rng.choice([0, 0, 1, 2])):
        grid.append([_blank_value(rng, 'blank') for _ in range(ncols)])
    grid.append([c['title'] for c in cols])
    n_rows = rng.randint(1, 5)
    p_blank = rng.choice([0.1, 0.25, 0.5])
    # margin-note rows ('blank all' only): blank in the titled columns, text in a blank-titled column
    margin_cols = [c for c in range(ncols) if cols[c]['role'] == 'blank' and (not ladder or c < ft)]
    gap_idx = set()
    if stop_on == 'blank all' and margin_cols and rng.random() < 0.6:
        n_rows = max(n_rows, 3)
        lo = 1 if ladder else 0
        g = rng.randint(lo, n_rows - 2) if rng.random() < 0.85 else n_rows - 1
        gap_idx.add(g)
        if rng.random() < 0.2 and g + 1 < n_rows:
            gap_idx.add(g + 1)
    for i in range(n_rows):
        if i in gap_idx:
            row = [_blank_value(rng, c['type']) for c in cols]
            for c in range(ncols):
                if cols[c]['role'] == 'blank' and c not in margin_cols:
                    row[c] = None
            row[rng.choice(margin_cols)] = rng.choice(['-- part 2', 'note', 7])
            grid.append(row)
            continue
        row = [_value(rng, c['type'], p_blank) for c in cols]
        if ladder:
            for c in range(ft + 1, ncols):
                if cols[c]['role'] == 'blank':
                    row[c] = _blank_value(rng, 'blank')
            if i > 0:
                run = rng.choice([0, 0, 1, 2, 2, 3, 4])
                for c in range(ft, min(ft + run, ncols - 1)):
                    row[c] = _blank_value(rng, cols[c]['type'])
        if stop_on == 'blank first':
            for c in {0, ft}:
                if blank(row[c]):
                    row[c] = _nonblank(rng, cols[c]['type'])
        if ladder and i > 0:
            e = next((c for c in range(ft, ncols) if not blank(row[c])), None)
            if e is None:
                e = rng.choice(known_cols)
                row[e] = _nonblank(rng, cols[e]['type'])
                e = next(c for c in range(ft, ncols) if not blank(row[c]))
            if e not in valid_stop:
                if has_ranged:
                    # inside a column group: either stop at its first column or pass it as a whole
                    g0 = e
                    while g0 - 1 >= 0 and cols[g0 - 1]['role'] in ('group', 'unknown'):
                        g0 -= 1
                    g1 = e
                    while g1 + 1 < ncols and cols[g1 + 1]['role'] in ('group', 'unknown'):
                        g1 += 1
                    if g1 + 1 < ncols and cols[g1 + 1]['role'] == 'known' and rng.random() < 0.5 \
                            and stop_on == 'blank all':
                        for c in range(g0, g1 + 1):
                            row[c] = None
                        row[g1 + 1] = _nonblank(rng, cols[g1 + 1]['type'])
                    else:
                        row[g0] = _nonblank(rng, cols[g0]['type'])
                else:
                    nxt = next((c for c in range(e + 1, ncols) if cols[c]['role'] == 'known'), None)
                    if nxt is not None and blank(row[nxt]):
                        row[nxt] = _nonblank(rng, cols[nxt]['type'])
        if all(blank(row[c]) for c in range(ncols) if cols[c]['role'] != 'blank'):
            c = rng.choice(known_cols)
            row[c] = _nonblank(rng, cols[c]['type'])
        grid.append(row)
    if num_id:
        # ids: usually at least one id cell filled (after ladder filling); parts of a multi-attribute id stay
        # blank as drawn; now and then the whole id is left blank
        first_data = len(grid) - n_rows
        prev = None
        for i in range(n_rows):
            r = first_data + i

            def filled_row():
                f = list(grid[r])
                if ladder and prev is not None:
                    for c in range(ft, ncols):
                        if blank(grid[r][c]):
                            f[c] = prev[c]
                        else:
                            break
                return f
            f = filled_row()
            if not (i in gap_idx and not ladder):
                if all(blank(f[c]) for c in id_cols) and rng.random() >= 0.08:
                    c = rng.choice(id_cols)
                    grid[r][c] = _nonblank(rng, cols[c]['type'])
                    f = filled_row()
            prev = f
    # end row and trailing content
    trailing = rng.choice(['none', 'end-only', 'content', 'content'])
    if trailing != 'none':
        if stop_on == 'blank all':
            grid.append([_blank_value(rng, c['type'] if c['type'] in ('str', 'any', 'blank') else 'blank')
                         for c in cols])
        else:
            row = [rng.choice(['junk', 99, None]) for _ in cols]
            row[0] = _blank_value(rng, 'blank')
            row[ft] = _blank_value(rng, 'blank')
            grid.append(row)
        if trailing == 'content':
            for _ in range(rng.randint(1, 2)):
                grid.append([rng.choice(['junk', 'total', 99, None, -1]) for _ in cols])
    return {'title': 'sheet1', 'grid': grid, 'attrs': attrs, 'num_id': num_id, 'stop_on': stop_on, 'ladder': ladder}


def _title_texts(grid):
    t = next(r for r in range(len(grid)) if not all(blank(v) for v in grid[r]))
    return t, ['' if v is None else str(v).strip() for v in grid[t]]


def split_classes(case, rng):
    """one table, two or three classes: the attributes of a generated single-class case are dealt out to
    2-3 classes (every class gets at least one attribute read from a present column; the ranged attribute
    goes to one class, sometimes to two; now and then two classes read the same column).  The sheet is
    unchanged, so the column group is often next to columns that only ANOTHER class names."""
    _, texts = _title_texts(case['grid'])
    attrs = case['attrs']
    present = [i for i, a in enumerate(attrs) if a['kind'] == 'cell' and a['column'] in texts]
    n = rng.choice([2, 2, 2, 3])
    owner = {}
    order = list(present)
    rng.shuffle(order)
    for j, i in enumerate(order):
        owner[i] = [j] if j < n else [rng.randrange(n)]
        if rng.random() < 0.12:                      # the same column read by two classes
            other = rng.randrange(n)
            if other not in owner[i]:
                owner[i].append(other)
    for i, a in enumerate(attrs):
        if i in owner:
            continue
        owner[i] = [rng.randrange(n)]
        if a['kind'] == 'ranged' and rng.random() < 0.25:
            other = rng.randrange(n)
            if other not in owner[i]:
                owner[i].append(other)
    classes = []
    for c in range(n):
        mine = [dict(attrs[i]) for i in range(len(attrs)) if c in owner[i]]
        if rng.random() < 0.92:
            # usually the first attribute of the class is read from a single cell
            j = next(k for k, a in enumerate(mine) if a['kind'] == 'cell' and a['column'] in texts)
            mine.insert(0, mine.pop(j))
        lead = 0
        while lead < len(mine) and mine[lead]['kind'] == 'cell' and mine[lead]['column'] in texts:
            lead += 1
        classes.append({'attrs': mine, 'num_id': min(lead, rng.choice([0, 0, 0, 1, 1, 2]))})
    out = {k: v for k, v in case.items() if k not in ('attrs', 'num_id')}
    out['classes'] = classes
    return out


FALSY_TITLES = [0, 0.0, False]
OTHER_TITLES = [1, True, 2, 3, 7, 2.5, -1, 10, 1.0]


def retitle(case, rng):
    """title cells of other types: numbers (a 'histogram' 0, 1, 2, ... over the column group; single
    columns titled 0, 0.0, False, True, 2.5, ...), strings with surrounding blanks, '' for untitled columns.
    The rules name the column by its title text, str(value).strip()."""
    grid = case['grid']
    t, texts = _title_texts(grid)
    row = grid[t]
    attrs = all_attrs(case)
    named = {a['column'] for a in attrs if a['kind'] == 'cell'}
    used = set(texts) | named
    done = set()

    def put(c, value):
        old, new = texts[c], str(value).strip()
        if new in used and new != old:
            return False
        used.add(new)
        for a in attrs:
            if a['kind'] == 'cell' and a['column'] == old:
                a['column'] = new
        row[c] = value
        texts[c] = new
        done.add(c)
        return True

    runs = []
    for c, x in enumerate(texts):
        if x and x not in named:
            if runs and runs[-1][-1] == c - 1:
                runs[-1].append(c)
            else:
                runs.append([c])
    if runs and rng.random() < 0.45:
        run = runs[0]
        kind = rng.choice(['int', 'int', 'int', 'float', 'mixed'])
        start = rng.choice([0, 0, 0, 1, -1, -2])
        if rng.random() < 0.3 and len(run) > 2:
            start = -rng.randint(1, len(run) - 2)        # the 0 falls inside the group
        for j, c in enumerate(run):
            n = start + j
            v = n if kind == 'int' else (float(n) if kind == 'float' else (n if j % 2 else float(n)))
            put(c, v)
    p = rng.choice([0.0, 0.15, 0.35])
    for c, x in enumerate(texts):
        if x and c not in done and rng.random() < p:
            pool = [v for v in (FALSY_TITLES if rng.random() < 0.55 else OTHER_TITLES) if str(v) not in used]
            if pool:
                put(c, rng.choice(pool))
    for c, x in enumerate(texts):
        if c in done:
            continue
        if x and isinstance(row[c], str) and rng.random() < 0.3:
            row[c] = rng.choice([' ', '  ', '']) + row[c].strip() + rng.choice([' ', '   ', ''])
        elif not x and rng.random() < 0.5:
            row[c] = rng.choice([None, '', ' ', '   '])
    return case


def two_class_probe_case():
    """one row described by two classes: the column group of the first class lies between its own
    columns and the columns of the second class"""
    return {'title': 'sheet1', 'grid': [
        ['id', 'name', 'math', 'cs', 'tutor id', 'tutor'],
        [1, 'Arnold', 'A', 'B', 100, 'Mr. Smith'],
        [2, 'Henry', None, 'C', 101, 'Ms. Jones']],
        'classes': [
            {'attrs': [{'name': 'id', 'kind': 'cell', 'column': 'id', 'reader': 'int'},
                       {'name': 'name', 'kind': 'cell', 'column': 'name', 'reader': 'str'},
                       {'name': 'grades', 'kind': 'ranged', 'reader': 'dict-str'}], 'num_id': 1},
            {'attrs': [{'name': 'id', 'kind': 'cell', 'column': 'tutor id', 'reader': 'int'},
                       {'name': 'name', 'kind': 'cell', 'column': 'tutor', 'reader': 'str'}], 'num_id': 1}],
        'stop_on': 'blank all', 'ladder': False}


def three_class_probe_case():
    """three classes on one ladder table; the group is enclosed by columns of the two other classes"""
    _ = None
    return {'title': 'plan', 'grid': [
        [_, _, _, _, _, _, _],
        ['Year', 'Dept', 'q1', 'q2', 'Head', _, 'Room'],
        [2020, 'A', 1, 2, 'ann', _, 'r1'],
        [_, 'B', 3, _, 'bob', _, 'r2'],
        [_, _, 7, 4, 'cid', _, _],
        [_, _, _, _, 'dan', _, 'r3'],
        [2021, 'A', 5, 6, 'ann', _, 'r1'],
        [_, _, _, _, _, _, _],
        ['total', _, 9, 12, _, _, _]],
        'classes': [
            {'attrs': [{'name': 'year', 'kind': 'cell', 'column': 'Year', 'reader': 'int'},
                       {'name': 'plan', 'kind': 'ranged', 'reader': 'dict-int'}], 'num_id': 0},
            {'attrs': [{'name': 'dept', 'kind': 'cell', 'column': 'Dept', 'reader': 'str'},
                       {'name': 'room', 'kind': 'cell', 'column': 'Room', 'reader': 'str',
                        'default': {'const': None}}], 'num_id': 1},
            {'attrs': [{'name': 'head', 'kind': 'cell', 'column': 'Head', 'reader': 'str'},
                       {'name': 'ext', 'kind': 'ext-none'}], 'num_id': 0}],
        'stop_on': 'blank all', 'ladder': True}


def histogram_probe_case():
    """a column group titled with numbers 0, 1, 2, 3 (the title cells hold ints)"""
    _ = None
    return {'title': 'stats', 'grid': [
        [_, _, _, _, _, _],
        ['id', 'name', 0, 1, 2, 3],
        [10, 'backup', 95, 4, 1, _],
        [20, 'sync', 70, 20, _, 10],
        [_, _, _, _, _, _],
        ['trailing', 'content', 1, 2, 3, 4]],
        'attrs': [{'name': 'id', 'kind': 'cell', 'column': 'id', 'reader': 'int'},
                  {'name': 'name', 'kind': 'cell', 'column': 'name', 'reader': 'str'},
                  {'name': 'retries_hist', 'kind': 'ranged', 'reader': 'dict-int'}],
        'num_id': 1, 'stop_on': 'blank all', 'ladder': False}


def odd_titles_probe_case():
    """read columns titled 0, False and 0.0 (rules name them '0', 'False', '0.0'), a padded title, an
    untitled '' column, a group -1, 0, 1 with the 0 inside"""
    _ = None
    return {'title': 's', 'grid': [
        [0, ' Name  ', '', -1, 0.0, 1, False, True],
        [1, 'ann', 'm', 5, 6, 7, 'v', 'x'],
        [2, 'bob', _, _, 0, 9, '', _]],
        'attrs': [{'name': 'id', 'kind': 'cell', 'column': '0', 'reader': 'int'},
                  {'name': 'name', 'kind': 'cell', 'column': 'Name', 'reader': 'str'},
                  {'name': 'flag', 'kind': 'cell', 'column': 'False', 'reader': 'bool'},
                  {'name': 'hist', 'kind': 'ranged', 'reader': 'dict-int'},
                  {'name': 'note', 'kind': 'cell', 'column': 'True', 'reader': 'str', 'default': {'const': None}}],
        'num_id': 1, 'stop_on': 'blank all', 'ladder': False}


def defect_probe_case():
    """the anticipated failing input of DESIGN.md Appendix A: 29-column sheet, group over B..AC"""
    titles = ['id'] + [f"c{n:02d}" for n in range(1, 29)]
    return {'title': 'sheet1', 'grid': [titles, [1] + list(range(101, 129))],
            'attrs': [{'name': 'id', 'kind': 'cell', 'column': 'id', 'reader': 'int'},
                      {'name': 'grades', 'kind': 'ranged', 'reader': 'dict-int'}],
            'num_id': 0, 'stop_on': 'blank all', 'ladder': False}


def first_attr_probe_case():
    """smallest rule set whose first class attribute is not read from a cell (external attribute)"""
    return {'title': 'sheet1', 'grid': [['Id'], [1]],
            'attrs': [{'name': 'ext', 'kind': 'ext-none'},
                      {'name': 'id', 'kind': 'cell', 'column': 'Id', 'reader': 'int'}],
            'num_id': 0, 'stop_on': 'blank all', 'ladder': False}


def margin_note_probe_case():
    """'blank all' with a margin note next to a gap row: titles in B..D, margins A and E, class with a key"""
    _ = None
    return {'title': 'staff', 'grid': [
        [_, _, _, _, _],
        [_, 'Id', 'Name', 'Status', _],
        [_, 10, 'Richard', 20, _],
        [_, 20, 'Arnold', 20, 'checked'],
        ['-- part 2', _, _, _, _],
        [_, 30, 'Harry', 20, _],
        [_, 40, 'Sally', 30, _],
        [_, _, _, _, _],
        [_, 50, 'Ghost', 0, _]],
        'attrs': [{'name': 'id', 'kind': 'cell', 'column': 'Id', 'reader': 'int'},
                  {'name': 'name', 'kind': 'cell', 'column': 'Name', 'reader': 'str'},
                  {'name': 'status', 'kind': 'cell', 'column': 'Status', 'reader': 'int'}],
        'num_id': 1, 'stop_on': 'blank all', 'ladder': False}


def partial_id_probe_case():
    """two-attribute id, rows in which one part of the id is blank, one row with a wholly blank id"""
    _ = None
    return {'title': 's', 'grid': [
        [_, _, _, _],
        ['Name', 'No', 'comment', 'Dept'],
        ['ann', 1, _, 'A'],
        ['bob', 2, 'no dept', _],
        ['cid', _, _, 'B'],
        ['dan', _, _, _],
        ['eve', 0, _, 'B']],
        'attrs': [{'name': 'dept', 'kind': 'cell', 'column': 'Dept', 'reader': 'str'},
                  {'name': 'no', 'kind': 'cell', 'column': 'No', 'reader': 'int'},
                  {'name': 'name', 'kind': 'cell', 'column': 'Name', 'reader': 'str'}],
        'num_id': 2, 'stop_on': 'blank all', 'ladder': False}


REACH = ['ladder-run>=2-cells-over>=2-rows', 'missing-optional-column', 'range-crossing-Z/AA',
         'external-attribute', 'ranged-attribute-without-columns', 'unknown-extra-column', 'blank-titled-column',
         'leading-blank-rows', 'trailing-content-after-end-row', 'end-row-with-content', 'table-ends-with-sheet',
         'range-first', 'range-between', 'range-last', 'ladder-substituted-column-group', 'blank-data-cell',
         'optional-column-present', 'class-with-key-attribute', 'margin-note-row-then-data',
         'ladder-margin-note-row-then-data', 'margin-note-outside-the-titled-span-then-data', 'margin-note-row-last', 'class-with-2-attribute-id', 'class-with-3-attribute-id',
         'partly-blank-multi-attribute-id', 'ladder-row-inheriting-part-of-a-partly-blank-id',
         'row-with-wholly-blank-id',
         # several classes on one table; title cells that are not plain strings
         'two-classes-one-table', 'three-classes-one-table', 'ranged-next-to-foreign-column',
         'ranged-next-to-foreign-column-in-ladder-sheet', 'two-classes-with-a-ranged-attribute',
         'non-string-title', 'int-title', 'float-title', 'bool-title', 'falsy-title',
         'falsy-title-in-column-group', 'falsy-title-inside-column-group', 'falsy-title-of-named-column',
         'falsy-title-of-unread-column', 'padded-title', 'empty-string-title']


def variant_plan(tier):
    """[(variant number, mode)]: 'base' = one class, string titles (the original space); 'multi' = the table
    is read into 2-3 classes (40 % of them with re-typed titles); 'titles' = one class, re-typed titles"""
    nb, nm, nt = (2, 2, 2) if tier == 'quick' else (40, 30, 30)
    return [(v, 'base') for v in range(nb)] + [(nb + v, 'multi') for v in range(nm)] + \
           [(nb + nm + v, 'titles') for v in range(nt)]


def variants(tier):
    return len(variant_plan(tier))


def make_case(layout, seed, idx, v, mode):
    case = gen_case(layout, random.Random(f"c18:{seed}:{idx}:{v}"))
    if mode == 'base':
        return case
    rx = random.Random(f"c18x:{seed}:{idx}:{v}")
    if mode == 'multi':
        case = split_classes(case, rx)
        if rx.random() < 0.4:
            retitle(case, rx)
    else:
        retitle(case, rx)
    return case


def _work(args):
    seed, v, mode, chunk = args
    out = []
    for idx, layout in chunk:
        case = make_case(layout, seed, idx, v, mode)
        m = None if 'classes' in case else Model(case)
        why = preconditions(case, m)
        if why is not None:
            out.append((None, why, None, None, None))
            continue
        fails, diags, events, nontrivial = evaluate(case)
        keep = case if (fails or (idx + v) % 997 == 0) else None
        out.append((keep, None, fails, (diags, sorted(events), nontrivial), canon_digest(case)))
    return out


def canon_digest(case):
    import hashlib
    import json
    return hashlib.sha1(json.dumps(case, sort_keys=True, default=repr).encode()).hexdigest()[:24]


def run(b):
    import multiprocessing
    all_layouts = list(enumerate(layouts()))
    jobs = []
    step = 125
    for v, mode in variant_plan(b.tier):
        for i in range(0, len(all_layouts), step):
            jobs.append((b.seed, v, mode, all_layouts[i:i + step]))
    rejected = {}
    # fixed members of the space first: the 29-column sheet of Appendix A, the smallest external-first rule
    # set, a 'blank all' table with a margin note next to a gap row
    results = [[_one(defect_probe_case()), _one(first_attr_probe_case()), _one(margin_note_probe_case()),
                _one(partial_id_probe_case()), _one(two_class_probe_case()), _one(three_class_probe_case()),
                _one(histogram_probe_case()), _one(odd_titles_probe_case())]]
    ctx = multiprocessing.get_context('fork')
    with ctx.Pool(min(12, max(1, (multiprocessing.cpu_count() or 2) - 2))) as pool:
        results += pool.map(_work, jobs, chunksize=1)
    for chunk in results:
        for keep, why, fails, info, digest in chunk:
            if why is not None:
                rejected[why] = rejected.get(why, 0) + 1
                continue
            diags, events, nontrivial = info
            # the digest stands for the case in the distinct counts; failing cases are kept in full
            b.case(keep if keep is not None else {'sha1': digest}, nontrivial=nontrivial, sample=keep is not None)
            for e in events:
                b.hit(e)
            for d in diags:
                b.diag(d)
            for clause, key, text in fails:
                b.fail(f"{PROP}.{clause}", f"{PROP}.{clause}:{key}", text, keep)
    b.notes['rejected_by_preconditions'] = rejected
    total = b.evaluations + sum(rejected.values())
    if sum(rejected.values()) > 0.2 * total:
        b.error(f"generator: {sum(rejected.values())} of {total} generated sheets outside the pre-conditions {rejected}")
    b.require_reach(REACH)


def _one(case):
    why = preconditions(case)
    if why is not None:
        return (None, why, None, None, None)
    fails, diags, events, nontrivial = evaluate(case)
    return (case, None, fails, (diags, sorted(events), nontrivial), canon_digest(case))


def replay_case(case):
    why = preconditions(case)
    if why is not None:
        return True, [f"case outside the pre-conditions: {why}"]
    fails, diags, events, nontrivial = evaluate(case)
    return (not fails), [f"{c} [{k}]: {t}" for c, k, t in fails]
