"""C16 bounded complement (smoke): X-Request-ID values under real concurrent use (ak/conn_http.py).

The property is decided by the lock-invariant proof; no schedule is enumerated here.  This driver only
exercises the real code: N threads x M requests through one connection and connections derived
from it, with the interpreter's switch interval set to 1e-6 s, a stub opener instead of the network.

Top-level clauses:
  ids_distinct      all X-Request-ID values seen by the opener are pairwise distinct
  numbers_gapless   the sequence numbers of the generated ids are 0..G-1, each exactly once
                    (G = number of requests without a caller-supplied id); single-threaded they are
                    handed out in request order
  caller_id_kept    a caller-supplied 'X-Request-ID' is sent unchanged and consumes no number

A case: {'kind': 'threads'|'sequential', 'seed', 'threads', 'per_thread', 'derived', 'caller_p'}.
"""
import random
import re
import sys
import threading
from unittest.mock import patch

from ak import conn_http

ID_RE = re.compile(r'^(?P<conn>.{4})(?P<low>\d{4})-0000-0000-0000-(?P<num>\d{12,})$')
PATH_RE = re.compile(r'/t\d+/i\d+$')
JOIN_TIMEOUT_S = 600


class _Resp:
    def __init__(self, method):
        self.data = b''
        self._method = method
        self.code = 200

    def __enter__(self):
        return self

    def __exit__(self, *a):
        return False

    def read(self):
        return self.data

    def getheaders(self):
        return {}


def stub_opener(captured):
    def _open(self, request, *a, **kw):
        captured.append(request)          # list.append is atomic
        return _Resp(request.get_method())
    return patch('urllib.request.OpenerDirector.open', _open)


def header(request, name):
    for k, v in request.header_items():
        if k.lower() == name.lower():
            return v
    return None


def build_conns(n_derived):
    """one root connection and `n_derived` connections derived from it (chains of depth <= 3)"""
    root = conn_http.HttpConn('http://h.test:8080')
    conns = [root]
    makers = [
        lambda p: conn_http.BAuthConn(p, 'user', 'pw'),
        lambda p: conn_http.HttpConn(p, adapters=[conn_http.RequestAdapterAddPathPrefix('/pfx')]),
        lambda p: conn_http.TokenAuthConn(p, 'tok'),
        lambda p: conn_http.HttpConn(p),
        lambda p: conn_http.ClientAuthConn(p, 'cl', 'id', 'secret'),
    ]
    for i in range(n_derived):
        parent = conns[0] if i < 2 else conns[1 + (i % 2)]     # some derived from derived ones
        mk = makers[i % len(makers)]
        if i >= 2 and parent.auth_type is not None and i % len(makers) in (0, 2, 4):
            mk = makers[3]                                       # never two authenticating layers
        conns.append(mk(parent))
    return conns


def plan_of(case):
    """[(thread, i, conn index, caller id or None)]"""
    rnd = random.Random(f"C16/{case['seed']}")
    n_conn = 1 + case['derived']
    plan = []
    for t in range(case['threads']):
        for i in range(case['per_thread']):
            cid = f"caller-{t}-{i}" if rnd.random() < case['caller_p'] else None
            plan.append((t, i, rnd.randrange(n_conn), cid))
    return plan


def run_trial(case):
    """-> (violations [(clause, key-suffix, text)], infrastructure error or None, stats)"""
    plan = plan_of(case)
    captured = []
    errors = []
    old_interval = sys.getswitchinterval()
    with stub_opener(captured):
        conns = build_conns(case['derived'])
        per_thread = {}
        for t, i, c, cid in plan:
            per_thread.setdefault(t, []).append((i, c, cid))

        def work(t, barrier):
            try:
                if barrier is not None:
                    barrier.wait(timeout=JOIN_TIMEOUT_S)
                for i, c, cid in per_thread[t]:
                    hdrs = {'X-Request-ID': cid} if cid is not None else (None if i % 2 else {'X-Other': 'v'})
                    meth = conns[c].get if i % 3 else conns[c].post
                    meth(f"/t{t}/i{i}", headers=hdrs)
            except BaseException as e:      # noqa - reported below
                errors.append((t, e))

        if case['kind'] == 'sequential':
            for t in sorted(per_thread):
                work(t, None)
            alive = []
        else:
            barrier = threading.Barrier(len(per_thread))
            threads = [threading.Thread(target=work, args=(t, barrier), daemon=True) for t in sorted(per_thread)]
            sys.setswitchinterval(1e-6)
            try:
                for th in threads:
                    th.start()
                for th in threads:
                    th.join(JOIN_TIMEOUT_S)
            finally:
                sys.setswitchinterval(old_interval)
            alive = [th for th in threads if th.is_alive()]
    if alive:
        return [], f"{len(alive)} worker thread(s) still running after {JOIN_TIMEOUT_S} s", {}
    out = []
    for t, e in errors:
        if isinstance(e, threading.BrokenBarrierError):
            return [], "barrier broken (threads did not start together)", {}
        out.append(('numbers_gapless', 'exception-' + type(e).__name__,
                    f"request in thread {t} raises {type(e).__name__}: {e}"))
    if out:
        return out, None, {}
    # one captured request per planned request, identified by its path
    by_path = {}
    for r in list(captured):
        m = PATH_RE.search(r.full_url)
        by_path.setdefault(m.group(0) if m else r.full_url, []).append(r)
    ids = []
    generated = []
    seq_order = []
    for t, i, c, cid in plan:
        rs = by_path.get(f"/t{t}/i{i}", [])
        if len(rs) != 1:
            return [], f"stub saw {len(rs)} requests for /t{t}/i{i} (harness cannot attribute requests)", {}
        rid = header(rs[0], 'X-Request-ID')
        if isinstance(rid, bytes):
            rid = rid.decode('latin-1')
        if cid is not None:
            if rid != cid:
                out.append(('caller_id_kept', 'changed', f"caller-supplied X-Request-ID {cid!r} was sent as {rid!r}"))
            ids.append(rid)
            continue
        if rid is None:
            out.append(('ids_distinct', 'no-id', f"request /t{t}/i{i} carries no X-Request-ID"))
            continue
        ids.append(rid)
        generated.append(rid)
        seq_order.append(rid)
    dup = sorted({x for x in ids if ids.count(x) > 1}) if len(set(ids)) != len(ids) else []
    if dup:
        out.append(('ids_distinct', 'duplicate', f"X-Request-ID {dup[0]!r} sent {ids.count(dup[0])} times "
                    f"({len(ids)} requests, {len(set(ids))} distinct ids)"))
    nums = []
    for rid in generated:
        m = ID_RE.match(rid)
        if not m:
            return out, f"generated id {rid!r} has an unknown layout; sequence numbers cannot be read", {}
        nums.append(int(m.group('num')))
    want = list(range(len(generated)))
    if sorted(nums) != want:
        missing = sorted(set(want) - set(nums))[:5]
        repeated = sorted({n for n in nums if nums.count(n) > 1})[:5]
        outside = sorted(n for n in set(nums) if n >= len(generated))[:5]
        n_caller = sum(1 for p in plan if p[3] is not None)
        ksuf = 'caller-id-consumes-number' if (not repeated and n_caller and outside
                                                and max(nums) < len(plan)) else 'gap-or-repeat'
        clause = 'caller_id_kept' if ksuf == 'caller-id-consumes-number' else 'numbers_gapless'
        out.append((clause, ksuf, f"{len(generated)} generated ids carry numbers with missing {missing}, "
                    f"repeated {repeated}, beyond range {outside} ({n_caller} caller-supplied ids in the run)"))
    elif case['kind'] == 'sequential' and nums != want:
        out.append(('numbers_gapless', 'sequential-order', f"single-threaded numbers not in request order: {nums[:12]}"))
    return out, None, {'requests': len(plan), 'generated': len(generated)}


def preempt_points():
    """number of line events of ak/conn_http.py that one request executes before it reaches the opener"""
    from ak import conn_http
    fname = conn_http.__file__
    n = [0]
    done = [False]

    def tracer(frame, event, arg):
        if frame.f_code.co_filename != fname:
            return None

        def local(frame, event, arg):
            if event == 'line' and not done[0]:
                n[0] += 1
            return local
        return local
    captured = []
    with stub_opener(captured):
        root = conn_http.HttpConn('http://h.test:8080')
        sys.settrace(tracer)
        try:
            root.get('/a')
        finally:
            sys.settrace(None)
    return n[0]


def preempt_trial(point, b_on_derived, timeout=2.0):
    """thread A is suspended just before its `point`-th line event inside ak/conn_http.py; thread B then performs a
    complete request (on a derived connection or on the same one); A resumes.  -> (violations, infra, stats)"""
    from ak import conn_http
    fname = conn_http.__file__
    captured = []
    reached = threading.Event()
    resume = threading.Event()
    state = {'n': 0, 'paused': False}

    def tracer(frame, event, arg):
        if frame.f_code.co_filename != fname:
            return None

        def local(frame, event, arg):
            if event == 'line' and not state['paused']:
                state['n'] += 1
                if state['n'] == point:
                    state['paused'] = True
                    reached.set()
                    resume.wait(timeout * 4)
            return local
        return local
    err = []
    with stub_opener(captured):
        root = conn_http.HttpConn('http://h.test:8080')
        other = conn_http.HttpConn(root) if b_on_derived else root

        def run_a():
            sys.settrace(tracer)
            try:
                root.get('/a')
            except BaseException as e:      # noqa
                err.append(('A', e))
            finally:
                sys.settrace(None)

        def run_b():
            try:
                other.get('/b')
            except BaseException as e:      # noqa
                err.append(('B', e))
        ta = threading.Thread(target=run_a, daemon=True)
        ta.start()
        if not reached.wait(timeout):
            resume.set()
            ta.join(timeout)
            return [], None, {'requests': 0, 'reached': False}
        tb = threading.Thread(target=run_b, daemon=True)
        tb.start()
        tb.join(0.25)                 # B may be waiting for the lock A holds: that is the lock doing its job
        blocked = tb.is_alive()
        resume.set()
        ta.join(timeout)
        tb.join(timeout)
        if ta.is_alive() or tb.is_alive():
            return [], "a thread is still running after the forced schedule", {}
    out = []
    for who, e in err:
        out.append(('numbers_gapless', 'exception-' + type(e).__name__, f"request of thread {who} raises {type(e).__name__}: {e}"))
    ids = []
    for r in captured:
        rid = header(r, 'X-Request-ID')
        ids.append(rid.decode('latin-1') if isinstance(rid, bytes) else rid)
    if not out:
        if len(ids) != 2 or None in ids:
            out.append(('ids_distinct', 'no-id', f"forced schedule: requests carry ids {ids}"))
        elif ids[0] == ids[1]:
            out.append(('ids_distinct', 'duplicate', f"forced schedule: both requests carry X-Request-ID {ids[0]!r}"))
        else:
            nums = []
            for rid in ids:
                m = ID_RE.match(rid)
                nums.append(int(m.group('num')) if m else None)
            if sorted(n for n in nums if n is not None) != [0, 1]:
                out.append(('numbers_gapless', 'gap-or-repeat', f"forced schedule: sequence numbers {nums}"))
    return out, None, {'requests': 2, 'reached': True, 'b_waited_for_lock': blocked}


def cases(tier, seed):
    for derived in (True, False):
        yield {'kind': 'preempt-all', 'b_on_derived': derived, 'seed': seed}
    yield {'kind': 'sequential', 'seed': seed, 'threads': 3, 'per_thread': 12, 'derived': 4, 'caller_p': 0.25}
    yield {'kind': 'sequential', 'seed': seed + 1, 'threads': 1, 'per_thread': 30, 'derived': 0, 'caller_p': 0.5}
    n = 10 if tier == 'quick' else 40
    for k in range(n):
        yield {'kind': 'threads', 'seed': seed * 1000 + k, 'threads': 3 + (k % 4) * 2,
               'per_thread': 60 if tier == 'quick' else 200, 'derived': [0, 2, 4, 5][k % 4],
               'caller_p': [0.0, 0.1, 0.3][k % 3]}


def run_preempt_all(b, case):
    """every single-preemption schedule (line granularity inside ak/conn_http.py) of one request against a second,
    complete request: exhaustive for that family of schedules"""
    n = preempt_points()
    if n < 10:
        b.error(f"only {n} pre-emption points found in a request (tracing does not work?)")
        return
    waited = 0
    for point in range(1, n + 1):
        sub = {'kind': 'preempt', 'point': point, 'b_on_derived': case['b_on_derived']}
        b.case(sub, nontrivial=True)
        try:
            res, infra, stats = preempt_trial(point, case['b_on_derived'])
        except Exception as e:      # noqa - bug of this harness
            b.error(f"harness exception {type(e).__name__}: {e} on {sub}")
            continue
        if infra:
            b.error(f"{infra} on {sub}")
        b.count(stats.get('requests', 0))
        if stats.get('b_waited_for_lock'):
            waited += 1
        for clause, ksuf, text in res:
            b.fail(f"C16.{clause}", f"C16.{clause}:{ksuf}", f"{text}  [{sub}]", sub)
    b.hit('forced-single-preemption-schedules')
    if waited:
        b.hit('second-thread-waited-for-the-lock')


def run(b):
    for case in cases(b.tier, b.seed):
        if case['kind'] == 'preempt-all':
            run_preempt_all(b, case)
            continue
        b.case(case, nontrivial=(case['kind'] == 'threads' and case['derived'] > 0))
        try:
            res, infra, stats = run_trial(case)
        except Exception as e:      # noqa - bug of this harness
            b.error(f"harness exception {type(e).__name__}: {e} on {case}")
            continue
        if infra:
            b.error(f"{infra} on {case}")
        b.count(stats.get('requests', 0))
        if case['kind'] == 'threads':
            b.hit('concurrent-run')
            if case['derived']:
                b.hit('derived-connections-share-counter')
        if case['caller_p'] > 0 and stats.get('generated', 0) < stats.get('requests', 0):
            b.hit('caller-supplied-id')
        for clause, ksuf, text in res:
            b.fail(f"C16.{clause}", f"C16.{clause}:{ksuf}", f"{text}  [{case}]", case)
    b.require_reach(['concurrent-run', 'derived-connections-share-counter', 'caller-supplied-id',
                     'forced-single-preemption-schedules', 'second-thread-waited-for-the-lock'])


def replay_case(case):
    if case.get('kind') == 'preempt':
        res, infra, _stats = preempt_trial(case['point'], case['b_on_derived'])
    else:
        res, infra, _stats = run_trial(case)
    if infra:
        return True, [f"not evaluated: {infra}"]
    return (not res), [f"{c} [{k}]: {t}" for c, k, t in res]
