"""Shared grammar specification functions, enumerators and guards for C01 / C02 / C03.

Everything here is written from the textbook definitions (DESIGN.md Appendix D.1) and does NOT call
the code under test, with two clearly marked exceptions at the bottom of the file
(`make_parser`, `guarded`), which only *drive* `ak.llparser` and are imported lazily.
Importing this module has no side effects.

Grammar representation:  G = {nonterminal: [tuple_of_symbols, ...]}  (an alternative `None` is the
same as `()`); a symbol is a nonterminal iff it is a key of G, otherwise it is a terminal (token
name).  '$' is the end marker in FOLLOW / PREDICT sets.

Spec functions
    norm(G)                          canonical form (tuples, None -> ())
    nullable(G)                      set of nullable nonterminals (least fixpoint)
    left_corner_closure(G)           LC+ : {X: set of nonterminals reachable as a left corner}
    left_recursive(G)                exists X with X in LC+(X)   (direct, indirect, hidden)
    first_follow(G, start)           (N, FIRST, FOLLOW) textbook least fixpoints
    first_of_seq(seq, G, N, FI)      (FIRST(seq), seq =>* eps)
    predict(G, start)                {(X, alt_index): set of look-ahead tokens}
    ll1_conflicts(G, start)          [(X, i, j, common tokens)]
    is_ll1(G, start)                 PREDICT sets of every symbol pairwise disjoint
    member(G, start, tokens)         Earley recogniser (nullable fix), any CFG
    language_upto(G, alphabet, L)    brute force: {X: all strings of length <= L derivable from X}
                                     (bottom-up least fixpoint; used to validate `member`)
    valid_derivation(t, G)           yield [(name, value)] of a TElement-like tree that is a derivation
                                     of G, raises DerivationError otherwise
    tree_shape(t)                    nested-tuple form of a TElement-like tree (for comparisons)
    well_formed(G, start, terminals) every referenced symbol is a terminal or defined, ...
    reachable(G, start)              nonterminals reachable from start
Enumerators
    all_strings(alphabet, L)         all token tuples of length <= L (shortest first)
    all_rhs(symbols, max_rhs)        all right-hand sides
    enumerate_grammars(...)          exhaustive small grammars (see docstring)
    count_symbols(G)                 total number of symbol occurrences
    rename(G, mapping)               consistent renaming of symbols
    name_assignments(k, pool)        assignments of names to N0..N(k-1), modulo permutation of the
                                     non-start symbols (which the shape enumeration already covers)
    grammar_str(G)                   compact printable form
Drivers of the code under test (lazy imports of ak.llparser)
    tokenizer_for(terminals), text_of(tokens), make_parser(G, start, terminals, smart)
    guarded(fn, wall_s, steps)       run fn() under a wall-clock alarm and a step budget
"""
import itertools

END = '$'


# ----------------------------------------------------------------------------------------------
# spec functions (Appendix D.1)
# ----------------------------------------------------------------------------------------------

def norm(G):
    return {x: [tuple(a) if a is not None else () for a in alts] for x, alts in G.items()}


def nullable(G):
    N, ch = set(), True
    while ch:
        ch = False
        for x, alts in G.items():
            if x not in N and any(all(s in N for s in a) for a in alts):
                N.add(x)
                ch = True
    return N


def left_corner_closure(G):
    """LC(X) = {Y nonterminal | X -> alpha Y beta, alpha =>* eps};  returns the transitive closure LC+"""
    N = nullable(G)
    LC = {x: set() for x in G}
    for x, alts in G.items():
        for a in alts:
            for s in a:
                if s in G:
                    LC[x].add(s)
                if s not in N:
                    break                  # only symbols behind a nullable prefix
    ch = True
    while ch:
        ch = False
        for x in G:
            for y in list(LC[x]):
                if not LC[y] <= LC[x]:
                    LC[x] |= LC[y]
                    ch = True
    return LC


def left_recursive(G):
    LC = left_corner_closure(G)
    return any(x in LC[x] for x in G)


def first_follow(G, start):
    N = nullable(G)
    FI = {x: set() for x in G}
    ch = True
    while ch:
        ch = False
        for x, alts in G.items():
            for a in alts:
                for s in a:
                    add = FI[s] if s in G else {s}
                    if not add <= FI[x]:
                        FI[x] |= add
                        ch = True
                    if s not in N:
                        break
    FO = {x: set() for x in G}
    FO[start].add(END)
    ch = True
    while ch:
        ch = False
        for x, alts in G.items():
            for a in alts:
                for i, s in enumerate(a):
                    if s not in G:
                        continue
                    add, allnull = set(), True
                    for t in a[i + 1:]:
                        add |= FI[t] if t in G else {t}
                        if t not in N:
                            allnull = False
                            break
                    if allnull:
                        add |= FO[x]       # and nothing else
                    if not add <= FO[s]:
                        FO[s] |= add
                        ch = True
    return N, FI, FO


def first_of_seq(seq, G, N, FI):
    out = set()
    for s in seq:
        out |= FI[s] if s in G else {s}
        if s not in N:
            return out, False
    return out, True


def predict(G, start):
    N, FI, FO = first_follow(G, start)
    P = {}
    for x, alts in G.items():
        for i, a in enumerate(alts):
            f, eps = first_of_seq(a, G, N, FI)
            P[(x, i)] = set(f) | (FO[x] if eps else set())
    return P


def ll1_conflicts(G, start):
    P = predict(G, start)
    out = []
    for x, alts in G.items():
        for i in range(len(alts)):
            for j in range(i + 1, len(alts)):
                common = P[(x, i)] & P[(x, j)]
                if common:
                    out.append((x, i, j, common))
    return out


def is_ll1(G, start):
    return not ll1_conflicts(G, start)


def member(G, start, tokens):
    """Earley recogniser.  Nullable fix: predicting a nullable symbol also advances the dot."""
    tokens = list(tokens)
    n = len(tokens)
    N = nullable(G)
    S = [set() for _ in range(n + 1)]
    work = []

    def add(k, item):
        if item not in S[k]:
            S[k].add(item)
            if k == cur:
                work.append(item)

    cur = 0
    for ai in range(len(G[start])):
        add(0, (start, ai, 0, 0))
    for cur in range(n + 1):
        work = list(S[cur])
        while work:
            x, ai, d, o = work.pop()
            rhs = G[x][ai]
            if d < len(rhs):
                s = rhs[d]
                if s in G:
                    for bi in range(len(G[s])):
                        add(cur, (s, bi, 0, cur))
                    if s in N:
                        add(cur, (x, ai, d + 1, o))
                elif cur < n and tokens[cur] == s:
                    S[cur + 1].add((x, ai, d + 1, o))
            else:
                for (y, bi, e, p) in list(S[o]):
                    r2 = G[y][bi]
                    if e < len(r2) and r2[e] == x:
                        add(cur, (y, bi, e + 1, p))
    return any((start, ai, len(G[start][ai]), 0) in S[n] for ai in range(len(G[start])))


def language_upto(G, L):
    """{X: set of token tuples w, |w| <= L, X =>* w}: bottom-up least fixpoint over the finite domain
    of strings of length <= L (brute force, exact for every CFG; terminals are read off G)."""
    D = {x: set() for x in G}
    ch = True
    while ch:
        ch = False
        for x, alts in G.items():
            for a in alts:
                part = {()}
                for s in a:
                    opts = D[s] if s in G else {(s,)}
                    part = {u + v for u in part for v in opts if len(u) + len(v) <= L}
                    if not part:
                        break
                if not part <= D[x]:
                    D[x] |= part
                    ch = True
    return D


class DerivationError(Exception):
    pass


def valid_derivation(t, G):
    """t: TElement-like (name, value).  Returns the yield [(token name, value)] if t is a derivation
    tree of G (every inner node is one of the user's productions of its symbol, a childless
    nonterminal node is an empty production, no helper symbol), raises DerivationError otherwise."""
    name = getattr(t, 'name', None)
    if not isinstance(name, str):
        raise DerivationError(f"node without a name: {t!r}")
    value = getattr(t, 'value', None)
    if name in G:
        if value is None:
            if () not in G[name]:
                raise DerivationError(f"childless node '{name}' but '{name}' has no empty production")
            return []
        if not isinstance(value, list):
            raise DerivationError(f"nonterminal node '{name}' with value {value!r}")
        sig = tuple(getattr(c, 'name', None) for c in value)
        if sig not in G[name]:
            raise DerivationError(f"node '{name}' -> {sig} is not a production of the grammar")
        out = []
        for c in value:
            out.extend(valid_derivation(c, G))
        return out
    if '__' in name:
        raise DerivationError(f"helper symbol '{name}' in the tree")
    if not isinstance(value, str):
        raise DerivationError(f"terminal node '{name}' with value {value!r}")
    return [(name, value)]


def tree_shape(t):
    v = getattr(t, 'value', None)
    if isinstance(v, list):
        return (getattr(t, 'name', None), tuple(tree_shape(c) for c in v))
    return (getattr(t, 'name', None), v)


def reachable(G, start):
    seen, todo = {start}, [start]
    while todo:
        x = todo.pop()
        for a in G.get(x, ()):
            for s in a:
                if s in G and s not in seen:
                    seen.add(s)
                    todo.append(s)
    return seen


def well_formed(G, start, terminals):
    """what the constructor is entitled to assume: start defined; every symbol of every production
    is a terminal or a defined nonterminal; nonterminals and terminals disjoint; no reserved name;
    every nonterminal has at least one alternative and no alternative twice"""
    terminals = set(terminals)
    if start not in G:
        return False
    for x, alts in G.items():
        if x in terminals or '__' in x or x.startswith('$') or not alts:
            return False
        if len(set(alts)) != len(alts):
            return False
        for a in alts:
            for s in a:
                if s not in G and s not in terminals:
                    return False
    return True


# ----------------------------------------------------------------------------------------------
# enumerators
# ----------------------------------------------------------------------------------------------

def all_strings(alphabet, L):
    alphabet = list(alphabet)
    for n in range(L + 1):
        for w in itertools.product(alphabet, repeat=n):
            yield w


def all_rhs(symbols, max_rhs):
    out = []
    for n in range(max_rhs + 1):
        out.extend(itertools.product(symbols, repeat=n))
    return out


def count_symbols(G):
    return sum(len(a) for alts in G.values() for a in alts)


def enumerate_grammars(n_nt, terminals, max_alts=2, max_rhs=2, max_total=None, nts=None,
                       reachable_only=True, ordered=False, part=None):
    """Every grammar with exactly `n_nt` nonterminals (named N0..; N0 is the start symbol, or `nts`),
    1..max_alts pairwise different alternatives per nonterminal, every right-hand side of length
    <= max_rhs over nonterminals + terminals, at most `max_total` symbol occurrences in total.
    Alternatives are listed in the canonical order (shorter first, then lexicographic in the symbol
    order nonterminals < terminals) unless ordered=True (then every order is produced).
    reachable_only: every nonterminal is reachable from the start symbol.
    part=(i, n): the i-th of n parts of the space (for parallel workers): the grammars for which
    (7 * index of the start symbol's alternative set + index of the second nonterminal's alternative
    set) = i mod n, indices in the size-sorted list of alternative sets.
    Deterministic order.  Yields dicts {nt: [tuple, ...]} (insertion order = nts order)."""
    nts = list(nts) if nts else [f"N{i}" for i in range(n_nt)]
    assert len(nts) == n_nt
    symbols = nts + list(terminals)
    rhs = all_rhs(symbols, max_rhs)
    if max_total is None:
        max_total = n_nt * max_alts * max_rhs
    altsets = []                                    # (size, [alts])
    for k in range(1, max_alts + 1):
        it = itertools.permutations(rhs, k) if ordered else itertools.combinations(rhs, k)
        for c in it:
            sz = sum(len(a) for a in c)
            if sz <= max_total:
                altsets.append((sz, list(c)))
    altsets.sort(key=lambda p: p[0])                # stable: keeps the canonical order inside a size
    start = nts[0]

    def rec(i, left, acc, h=0):
        if i == n_nt:
            G = {nts[j]: list(acc[j]) for j in range(n_nt)}
            if not reachable_only or len(reachable(G, start)) == n_nt:
                yield G
            return
        for idx, (sz, alts) in enumerate(altsets):
            if sz > left:
                break
            if part is not None and i == min(1, n_nt - 1) and (7 * h + idx) % part[1] != part[0]:
                continue
            acc.append(alts)
            yield from rec(i + 1, left - sz, acc, idx if i == 0 else h)
            acc.pop()

    yield from rec(0, max_total, [])


def rename(G, mapping):
    m = lambda s: mapping.get(s, s)
    return {m(x): [tuple(m(s) for s in a) for a in alts] for x, alts in G.items()}


def name_assignments(k, pool):
    """assignments {N_i: name}: every choice of the start name from the pool and every (k-1)-subset
    of the remaining names, given to N1..N(k-1) in pool order.  Together with a shape enumeration
    that contains every permutation of the non-start nonterminals this covers every injective
    assignment of pool names exactly once."""
    out = []
    for s in pool:
        rest = [p for p in pool if p != s]
        for comb in itertools.combinations(rest, k - 1):
            m = {'N0': s}
            for i, nm in enumerate(comb):
                m[f"N{i + 1}"] = nm
            out.append(m)
    return out


def grammar_str(G):
    return '; '.join(f"{x} -> " + ' | '.join(' '.join(a) if a else 'eps' for a in alts) for x, alts in G.items())


def to_json(G):
    return {x: [list(a) for a in alts] for x, alts in G.items()}


def from_json(J):
    return {x: [tuple(a) for a in alts] for x, alts in J.items()}


# ----------------------------------------------------------------------------------------------
# drivers of the code under test (lazy import; nothing above depends on them)
# ----------------------------------------------------------------------------------------------

def tokenizer_for(terminals):
    """one regex group per terminal (terminal names are identifiers and are their own text), tokens
    are separated by blanks"""
    parts = [r"(?P<SPACE>\s+)"]
    for t in sorted(terminals, key=lambda s: (-len(s), s)):
        assert t.isidentifier() and t != 'SPACE'
        parts.append(f"(?P<{t}>{t}(?![A-Za-z0-9_]))")
    return '|'.join(parts)


def text_of(tokens):
    return ' '.join(tokens)


def make_parser(G, start, terminals, smart_factorization=True):
    from ak import llparser
    return llparser.LLParser(tokenizer_for(terminals), productions={x: list(a) for x, a in G.items()},
                             start_symbol_name=start, smart_factorization=smart_factorization)


class BudgetExceeded(BaseException):
    """raised inside the code under test when the step or wall budget is used up (BaseException so
    that an `except Exception` in the code under test cannot swallow it)"""


_STEP = {'n': 0, 'limit': None, 'installed': False, 'available': False}


def _install_step_hooks():
    """Count the events of LLParser.parse's main loop: every iteration of the loop either creates a
    TElement (symbol matched), creates a _StackElement (expansion pushed), switches to the next
    alternative (roll-back) or leaves the loop.  The three are wrapped in memory, in this process
    only; if the classes are not there any more the step budget is simply unavailable and only the
    wall-clock budget guards the call."""
    if _STEP['installed']:
        return _STEP['available']
    _STEP['installed'] = True
    try:
        from ak import llparser
        targets = [(llparser._StackElement, '__init__'), (llparser._StackElement, 'switch_to_next_prod'),
                   (llparser.TElement, '__init__')]
        origs = [getattr(c, n) for c, n in targets]
    except Exception:       # noqa
        return False

    def wrap(orig):
        def counted(*a, **kw):
            _STEP['n'] += 1
            lim = _STEP['limit']
            if lim is not None and _STEP['n'] > lim:
                _STEP['limit'] = None
                raise BudgetExceeded(f"step budget of {lim} parse-loop events used up")
            return orig(*a, **kw)
        counted.__wrapped__ = orig
        return counted

    for (c, n), o in zip(targets, origs):
        setattr(c, n, wrap(o))
    _STEP['available'] = True
    return True


_ALARM = {'armed': False, 'installed_pid': None, 'ok': False, 'wall': 0.0}


def _on_alarm(signum, frame):
    if _ALARM['armed']:
        _ALARM['armed'] = False
        raise BudgetExceeded(f"wall budget of {_ALARM['wall']} s used up")


def _ensure_alarm():
    import os
    import signal
    if _ALARM['installed_pid'] == os.getpid():
        return _ALARM['ok']
    _ALARM['installed_pid'] = os.getpid()
    try:
        signal.signal(signal.SIGALRM, _on_alarm)
        _ALARM['ok'] = True
    except (ValueError, AttributeError):        # not the main thread / no SIGALRM
        _ALARM['ok'] = False
    return _ALARM['ok']


def guarded(fn, wall_s=10.0, steps=None):
    """Run fn() under a wall-clock alarm (SIGALRM, handler installed once per process; main thread
    only) and, if `steps` is given and the hooks could be installed, a budget of parse-loop events.
    Returns (kind, value, steps_used): kind in 'ok' (value = result), 'exc' (value = exception),
    'budget' (value = text; fn did not finish within the budget), 'memory'."""
    import signal
    have_steps = _install_step_hooks() if steps is not None else False
    have_alarm = _ensure_alarm()
    _STEP['n'] = 0
    _STEP['limit'] = steps if have_steps else None
    try:
        if have_alarm:
            _ALARM['wall'] = wall_s
            _ALARM['armed'] = True
            signal.setitimer(signal.ITIMER_REAL, wall_s)
        r = fn()
        _ALARM['armed'] = False
        return 'ok', r, _STEP['n']
    except BudgetExceeded as e:
        return 'budget', str(e), _STEP['n']
    except MemoryError:
        return 'memory', 'MemoryError', _STEP['n']
    except Exception as e:      # noqa  (includes RecursionError)
        return 'exc', e, _STEP['n']
    finally:
        _ALARM['armed'] = False
        _STEP['limit'] = None
        if have_alarm:
            signal.setitimer(signal.ITIMER_REAL, 0)
