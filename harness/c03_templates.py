"""C03 helper: grammars that contain ProdsTemplate objects (ListProds, MapProds, ProdSequence).

A grammar of this dimension is a pair (G, TPL):
    G    plain productions {nonterminal: [tuple, ...]} (as in harness.grammars); its right-hand sides may
         mention the names of the template symbols
    TPL  {template symbol: description}; a description is JSON: {'kind': 'ListProds' | 'MapProds' |
         'ProdSequence', 'args': [...positional constructor arguments...], 'kwargs': {...}}

Spec side (does NOT call the code under test): `expand` turns a description into the plain productions
the template stands for, written from the class documentation of ak.llparser:

    ListProds(open, item, delim, close, allow_final_delimiter, optional)
        "[ item , item , ... ]": open/close may be both None, delim may be None; a final delimiter is
        allowed by default iff there are brackets and a delimiter; `optional` (only with brackets): the
        whole list may be missing.  Without brackets the list may be empty.
            LIST      -> open close | open item LIST__TAIL close | (eps if optional)
            LIST__TAIL-> delim item LIST__TAIL | (delim if final delimiter allowed) | eps
        (None elements dropped; without brackets and without delimiter simply  LIST -> item LIST | eps)
    MapProds(open, key, assign, val, delim, close, optional, allow_final_delimiter=True)
            MAP           -> open close | open MAP__KV_PAIR MAP__ELEMENTS close | (eps if optional)
            MAP__ELEMENTS -> delim MAP__KV_PAIR MAP__ELEMENTS | (delim if final delimiter allowed) | eps
            MAP__KV_PAIR  -> key assign val
    ProdSequence(s1, s2, ...)   "any of given symbols in any order", possibly none
            SEQ           -> SEQ__ELEMENT SEQ | eps
            SEQ__ELEMENT  -> s1 | s2 | ...

`spec_grammar(G, TPL)` is G plus the expansions: the grammar whose symbols the statement of C03 talks
about ("some symbol can reach itself again without consuming a token").  Left recursion only depends on
first symbols and nullability, so the names of the helper symbols are immaterial for the oracle.

Driver side (lazy import of ak.llparser): `make_parser`.
"""
import itertools

from harness import grammars as gr

T_TERMINALS = ['x', 'lb', 'rb', 'c', 'eq']      # item token, brackets, delimiter, assignment
OPEN, CLOSE, DELIM, ASSIGN = 'lb', 'rb', 'c', 'eq'


# ---------------------------------------------------------------------------------------------
# descriptions
# ---------------------------------------------------------------------------------------------

def list_t(open_br, item, delim, close_br, allow_final_delimiter=None, optional=None):
    kw = {}
    if allow_final_delimiter is not None:
        kw['allow_final_delimiter'] = allow_final_delimiter
    if optional is not None:
        kw['optional'] = optional
    return {'kind': 'ListProds', 'args': [open_br, item, delim, close_br], 'kwargs': kw}


def map_t(open_br, key, assign, val, delim, close_br, optional=None, allow_final_delimiter=None):
    kw = {}
    if optional is not None:
        kw['optional'] = optional
    if allow_final_delimiter is not None:
        kw['allow_final_delimiter'] = allow_final_delimiter
    return {'kind': 'MapProds', 'args': [open_br, key, assign, val, delim, close_br], 'kwargs': kw}


def seq_t(*symbols):
    return {'kind': 'ProdSequence', 'args': list(symbols), 'kwargs': {}}


def flavour(t):
    """the class of a template as far as the shape of its productions goes"""
    a = t['args']
    if t['kind'] == 'ListProds':
        br, dl = a[0] is not None, a[2] is not None
        return 'ListProds:' + ('brackets+delimiter' if br and dl else 'brackets-only' if br
                               else 'delimiter-only' if dl else 'bare')
    if t['kind'] == 'MapProds':
        return 'MapProds:' + ('brackets' if a[0] is not None else 'no-brackets')
    return 'ProdSequence'


FLAVOURS = ['ListProds:brackets+delimiter', 'ListProds:brackets-only', 'ListProds:delimiter-only',
            'ListProds:bare', 'MapProds:brackets', 'MapProds:no-brackets', 'ProdSequence']
# a template symbol (or one of its helpers) can be part of a left-corner cycle only if its expansion does
# not start with a token: no brackets
FLAVOURS_THAT_CAN_BE_ON_A_CYCLE = ['ListProds:delimiter-only', 'ListProds:bare', 'MapProds:no-brackets',
                                   'ProdSequence']


def template_str(t):
    parts = [repr(x) if x is not None else 'None' for x in t['args']]
    parts += [f"{k}={v}" for k, v in sorted(t.get('kwargs', {}).items())]
    return f"{t['kind']}({', '.join(parts)})"


def grammar_str(G, TPL):
    s = gr.grammar_str(G)
    for name, t in TPL.items():
        s += f"; {name} = {template_str(t)}"
    return s


def template_symbols(t):
    """the grammar symbols a description mentions (its items, brackets, delimiters)"""
    return [s for s in t['args'] if s is not None]


def rename(G, TPL, mapping):
    m = lambda s: mapping.get(s, s) if s is not None else None
    return (gr.rename(G, mapping),
            {m(n): {'kind': t['kind'], 'args': [m(s) for s in t['args']], 'kwargs': dict(t.get('kwargs', {}))}
             for n, t in TPL.items()})


# ---------------------------------------------------------------------------------------------
# spec: what a template stands for
# ---------------------------------------------------------------------------------------------

def _drop_none(seq):
    return tuple(s for s in seq if s is not None)


def admissible(t):
    """the argument combinations the constructors of the templates document as implemented"""
    a, kw = t['args'], t.get('kwargs', {})
    if t['kind'] == 'ListProds':
        open_br, item, delim, close_br = a
        if item is None or (open_br is None) != (close_br is None):
            return False
        if kw.get('allow_final_delimiter') and (delim is None or open_br is None):
            return False
        if kw.get('optional') is not None and open_br is None:
            return False
        return True
    if t['kind'] == 'MapProds':
        open_br, key, assign, val, delim, close_br = a
        if key is None or val is None or assign is None or delim is None:
            return False
        if (open_br is None) != (close_br is None):
            return False
        if kw.get('optional') is not None and open_br is None:
            return False
        return True
    if t['kind'] == 'ProdSequence':
        return len(a) >= 1 and None not in a and len(set(a)) == len(a)
    return False


def expand(name, t):
    """-> {symbol: [tuple, ...]}: the plain productions the template `name = t` stands for"""
    a, kw = t['args'], t.get('kwargs', {})
    if t['kind'] == 'ListProds':
        open_br, item, delim, close_br = a
        brackets, has_delim = open_br is not None, delim is not None
        final = kw.get('allow_final_delimiter')
        if final is None:
            final = brackets and has_delim
        optional = bool(kw.get('optional'))
        if not brackets and not has_delim:
            return {name: [(item, name), ()]}
        tail = name + '__TAIL'
        head = [_drop_none((open_br, close_br)), _drop_none((open_br, item, tail, close_br))]
        if optional:
            head.append(())
        tl = [_drop_none((delim, item, tail))]
        if final:
            tl.append((delim,))
        tl.append(())
        return {name: head, tail: tl}
    if t['kind'] == 'MapProds':
        open_br, key, assign, val, delim, close_br = a
        final = kw.get('allow_final_delimiter')
        if final is None:
            final = True
        optional = bool(kw.get('optional'))
        pair, rest = name + '__KV_PAIR', name + '__ELEMENTS'
        head = [_drop_none((open_br, close_br)), _drop_none((open_br, pair, rest, close_br))]
        if optional:
            head.append(())
        tl = [(delim, pair, rest)]
        if final:
            tl.append((delim,))
        tl.append(())
        return {name: head, rest: tl, pair: [(key, assign, val)]}
    if t['kind'] == 'ProdSequence':
        el = name + '__ELEMENT'
        return {name: [(el, name), ()], el: [(s,) for s in a]}
    raise ValueError(f"unknown template kind {t['kind']!r}")


def spec_grammar(G, TPL):
    S = {x: list(alts) for x, alts in G.items()}
    for name, t in TPL.items():
        for x, alts in expand(name, t).items():
            assert x not in S
            S[x] = alts
    return S


def generated_symbols(TPL):
    """{symbol generated by a template: template symbol}"""
    out = {}
    for name, t in TPL.items():
        for x in expand(name, t):
            out[x] = name
    return out


def delimiterless_list_with_nullable_item(S, TPL):
    """the documented restriction of ListProds: "List item symbol ... is nullable.  It is prohibited for
    lists without separator symbol" (S: the spec grammar)"""
    N = gr.nullable(S)
    return any(t['kind'] == 'ListProds' and t['args'][2] is None and t['args'][1] in N for t in TPL.values())


def well_formed(G, TPL, start, terminals):
    """what the constructor is entitled to assume about a grammar with templates"""
    terminals = set(terminals)
    if not TPL:
        return False
    for name, t in TPL.items():
        if not isinstance(name, str) or name in G or name in terminals or '__' in name or name.startswith('$'):
            return False
        if not admissible(t):
            return False
    user_symbols = set(G) | set(TPL) | terminals
    if start not in G and start not in TPL:
        return False
    for x, alts in G.items():
        if x in terminals or '__' in x or x.startswith('$') or not alts or len(set(alts)) != len(alts):
            return False
        if any(s not in user_symbols for a in alts for s in a):
            return False
    for t in TPL.values():
        if any(s not in user_symbols for s in template_symbols(t)):
            return False
    S = spec_grammar(G, TPL)
    if any(len(set(alts)) != len(alts) for alts in S.values()):
        return False
    return not delimiterless_list_with_nullable_item(S, TPL)


def used_terminals(S):
    return sorted({s for alts in S.values() for a in alts for s in a if s not in S})


# ---------------------------------------------------------------------------------------------
# enumeration of template descriptions
# ---------------------------------------------------------------------------------------------

def template_configs(items, level):
    """every admissible description whose item / key / value symbols are taken from `items`.
    level 'quick': map values are the first item only and the final-delimiter switch of maps keeps its
    default; 'thorough': everything"""
    out = []
    for it in items:
        for fd in (None, False):
            for opt in (None, True):
                out.append(list_t(OPEN, it, DELIM, CLOSE, fd, opt))
        for opt in (None, True):
            out.append(list_t(OPEN, it, None, CLOSE, None, opt))
        out.append(list_t(None, it, DELIM, None))
        out.append(list_t(None, it, None, None))
    vals = items if level == 'thorough' else items[:1]
    finals = (None, False) if level == 'thorough' else (None,)
    for k in items:
        for v in vals:
            for fd in finals:
                out.append(map_t(OPEN, k, ASSIGN, v, DELIM, CLOSE, None, fd))
                out.append(map_t(OPEN, k, ASSIGN, v, DELIM, CLOSE, True, fd))
                out.append(map_t(None, k, ASSIGN, v, DELIM, None, None, fd))
    for n in (1, 2):
        for c in itertools.combinations(items, n):
            out.append(seq_t(*c))
    assert all(admissible(t) for t in out)
    return out


def injective_assignments(symbols, pool):
    """every injective assignment of pool names to `symbols`"""
    return [dict(zip(symbols, p)) for p in itertools.permutations(pool, len(symbols))]


# ---------------------------------------------------------------------------------------------
# driver of the code under test
# ---------------------------------------------------------------------------------------------

def make_template(t):
    from ak import llparser
    cls = {'ListProds': llparser.ListProds, 'MapProds': llparser.MapProds,
           'ProdSequence': llparser.ProdSequence}[t['kind']]
    return cls(*t['args'], **t.get('kwargs', {}))


def make_parser(G, TPL, start, terminals, smart_factorization=True, templates_first=False):
    from ak import llparser
    plain = {x: list(a) for x, a in G.items()}
    tpl = {n: make_template(t) for n, t in TPL.items()}          # fresh objects: they are stateful
    prods = {**tpl, **plain} if templates_first else {**plain, **tpl}
    return llparser.LLParser(gr.tokenizer_for(terminals), productions=prods, start_symbol_name=start,
                             smart_factorization=smart_factorization)
