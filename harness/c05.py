"""C05 bounded driver: ListProds / MapProds / ProdSequence templates return exactly the denoted items.

Method.  A *schema* describes one grammar: a tree of container templates (lists, maps, sequences,
'<' X '>' wrapper objects) with their options.  For a schema the driver generates *data* (nested
containers, depth <= 3, lengths 0..3, repeated map keys, empty items where the item is nullable,
absent optional containers), renders the data to text itself (token list + seeded fillers:
blanks, newlines, // and /* */ comments containing brackets and delimiters), builds the grammar
with the real ListProds / MapProds / ProdSequence, parses with the default cleanup and compares
`TElement.value` of the returned tree with the value denoted by the data.  The expected value is
computed from the data only (never by the parser).

Top-level clauses (all from the property statement):
  list_items       list -> Python list, one entry per item, source order, plain values
  map_items        map -> dict, one entry per key in source order, repeated key keeps the last value
  sequence_items   sequence -> list of the matched elements (TElement per element, symbol name, order)
  final_delimiter  accepted when allowed and adds nothing; when not allowed the text is rejected
                   with llparser.ParsingError
  empty_container  empty bracket pair (or empty text of a bracket-less container) -> empty container
  absent_optional  absent optional container -> None

Denotation of the texts (the only reading used; see `assumptions` in checks/c05.py):
  * an empty slot between delimiters of a list whose item symbol is nullable is an item None;
  * with k >= 1 delimiters and an empty last slot: final delimiter allowed -> the last delimiter
    is the final one (k items); not allowed -> k+1 items, the last one None;
  * no delimiter and no item -> the empty list (never [None]).
"""
import contextlib
import io
import itertools
import json
import multiprocessing
import os
import random
import signal
import sys

from ak import llparser
from ak.llparser import LLParser, ListProds, MapProds, ProdSequence, TElement

PROP = 'C05'

TOKENIZER = r"""
(?P<SPACE>\s+)
|(?P<COMMENT_EOL>//.*)
|(?P<COMMENT_ML>/\*)
|(?P<WORD>[a-zA-Z_][a-zA-Z0-9_]*)
|(?P<NUMBER>[0-9]+)
|(?P<COMMA>,)|(?P<SEMI>;)|(?P<BAR>\|)
|(?P<SQ_OPEN>\[)|(?P<SQ_CLOSE>\])
|(?P<RO_OPEN>\()|(?P<RO_CLOSE>\))
|(?P<CU_OPEN>\{)|(?P<CU_CLOSE>\})
|(?P<AN_OPEN><)|(?P<AN_CLOSE>>)
|(?P<COLON>:)|(?P<EQ>=)|(?P<AT>@)
"""
SYNONYMS = {
    'COMMA': ',', 'SEMI': ';', 'BAR': '|', 'SQ_OPEN': '[', 'SQ_CLOSE': ']', 'RO_OPEN': '(', 'RO_CLOSE': ')',
    'CU_OPEN': '{', 'CU_CLOSE': '}', 'AN_OPEN': '<', 'AN_CLOSE': '>', 'COLON': ':', 'EQ': '=', 'AT': '@',
    'COMMENT_EOL': 'COMMENT', 'COMMENT_ML': 'COMMENT',
}
SPAN_MATCHERS = {'COMMENT_ML': r"(?P<END_COMMENT>(\*[^/]|[^*])*)\*/"}

WORDS = ['a', 'b', 'c', 'x1', '_k', 'Zz']
NUMBERS = ['0', '7', '42']
KEY_WORDS = ['k', 'j', 'a']
KEY_NUMBERS = ['1', '2']
TOPNUM_TOKEN = '5'

PARSE_BUDGET_S = 5.0
# shared counter of budget overruns (set by run() before the workers are forked): after a few
# overruns the remaining schemas are skipped - the violation is already established
_ABORT = None
MAX_OVERRUNS = 3
# lists / maps as (direct or indirect) elements of a ProdSequence are part of the explored family
CONTAINERS_INSIDE_SEQUENCES = True


class Budget(Exception):
    pass


@contextlib.contextmanager
def time_budget(seconds):
    def on_alarm(signum, frame):
        raise Budget()
    try:
        old = signal.signal(signal.SIGALRM, on_alarm)
    except ValueError:           # not in the main thread: no guard available
        yield
        return
    signal.setitimer(signal.ITIMER_REAL, seconds)
    try:
        yield
    finally:
        signal.setitimer(signal.ITIMER_REAL, 0)
        signal.signal(signal.SIGALRM, old)


@contextlib.contextmanager
def quiet():
    old_err, old_out = sys.stderr, sys.stdout
    sys.stderr = io.StringIO()
    sys.stdout = io.StringIO()
    try:
        yield
    finally:
        sys.stderr, sys.stdout = old_err, old_out


# ------------------------------------------------------------------------------------------
# schema: nodes are plain dicts (JSON-able)
#   list: k, sym, br [open, close] | None, delim | None, afd None|bool, opt None|bool, nullable,
#         style direct|choice|chain, leafs [terminal...], inner [node...], selfrec
#   map : k, sym, br | None, keys [terminal...], assign, delim, afd bool | 'default', opt, nullable,
#         style, leafs, inner, selfrec
#   seq : k, sym, leafs, tag (bool: the TAG -> '@' WORD element), inner
#   obj : k, sym, style direct|choice, leafs, inner          ('<' X '>')
#   top : {'pos': 'TOP' (E -> C) | 'TOPNUM' (E -> C NUMBER) | 'TOP2' (E -> C C), 'root': node}
# ------------------------------------------------------------------------------------------

def is_soft(node):
    """derives the empty string without being 'absent': bracket-less container or sequence"""
    return node['k'] == 'seq' or (node['k'] in ('list', 'map') and node['br'] is None)


def is_optional(node):
    return node['k'] in ('list', 'map') and node.get('opt') is True


def eff_afd(node):
    if node['k'] == 'list':
        if node['afd'] is None:
            return node['delim'] is not None and node['br'] is not None
        return bool(node['afd'])
    if node['k'] == 'map':
        return True if node['afd'] == 'default' else bool(node['afd'])
    return False


def alt_nodes(node):
    """container alternatives of the item / value / element position (self included when selfrec)"""
    out = list(node.get('inner', []))
    if node.get('selfrec'):
        out.append(node)
    return out


def alt_symbols(node):
    return list(node.get('leafs', [])) + (['TAG'] if node.get('tag') else []) + [c['sym'] for c in alt_nodes(node)]


def item_nullable(node):
    """the item (value) position can be empty with value None"""
    return bool(node.get('nullable')) or any(is_optional(c) for c in alt_nodes(node))


def has_soft(node):
    return any(is_soft(c) for c in node.get('inner', []))


def walk(node):
    yield node
    for c in node.get('inner', []):
        yield from walk(c)


def open_token(node):
    if node['k'] == 'obj':
        return '<'
    if node['k'] in ('list', 'map') and node['br'] is not None:
        return node['br'][0]
    return None


def schema_problems(top):
    """why the schema is outside the explored (legal, unambiguous) family; [] = fine.
    Used as an internal consistency check of the generators (a problem is a checker error)."""
    out = []
    root = top['root']
    syms = [n['sym'] for n in walk(root)]
    if len(set(syms)) != len(syms):
        out.append('duplicate symbols')
    for n in walk(root):
        k = n['k']
        alts = alt_nodes(n)
        opens = [open_token(c) for c in alts if open_token(c) is not None]
        if len(set(opens)) != len(opens):
            out.append(f"{n['sym']}: alternatives share an opening token")
        if not alt_symbols(n):
            out.append(f"{n['sym']}: no alternatives")
        if k in ('list', 'map'):
            if n['opt'] is not None and n['br'] is None:
                out.append(f"{n['sym']}: optional needs brackets")
            if n.get('selfrec') and n['br'] is None:
                out.append(f"{n['sym']}: bracket-less self recursion")
        if k == 'list':
            if n['afd'] is True and (n['br'] is None or n['delim'] is None):
                out.append(f"{n['sym']}: afd=True needs brackets and delimiter")
            if n['delim'] is None and (item_nullable(n) or has_soft(n)):
                out.append(f"{n['sym']}: nullable item without delimiter")
            if n['style'] == 'direct' and (len(alt_symbols(n)) != 1 or n['nullable']):
                out.append(f"{n['sym']}: direct style needs exactly one alternative")
        if k == 'map':
            if n['delim'] is None or n['assign'] is None:
                out.append(f"{n['sym']}: map needs delimiter and assign")
            if n['style'] == 'direct' and (len(alt_symbols(n)) != 1 or n['nullable']):
                out.append(f"{n['sym']}: direct style needs exactly one alternative")
        if k == 'obj':
            if n['style'] == 'direct' and len(alt_symbols(n)) != 1:
                out.append(f"{n['sym']}: direct style needs exactly one alternative")
        if k == 'seq':
            for c in n['inner']:
                if is_soft(c) or is_optional(c):
                    out.append(f"{n['sym']}: nullable element {c['sym']}")
        if has_soft(n):
            if len(alt_symbols(n)) != 1 or n.get('nullable'):
                out.append(f"{n['sym']}: soft child must be the only alternative")
            c = n['inner'][0]
            if has_soft(c):
                out.append(f"{n['sym']}: soft inside soft")
            if k == 'list' and (n['br'] is None or eff_afd(n)):
                out.append(f"{n['sym']}: soft item needs brackets and no final delimiter")
            if k in ('list', 'map') and c.get('delim') is not None and c.get('delim') == n['delim']:
                out.append(f"{n['sym']}: soft child with the same delimiter")
            if is_soft(n) and not (n is root and k == 'map' and top['pos'] == 'TOP'):
                out.append(f"{n['sym']}: soft child of a bracket-less container that is not the top map")
    if top['pos'] == 'TOPNUM' and is_soft(root):
        if root['k'] != 'list' or 'NUMBER' in root['leafs'] or has_soft(root):
            out.append('TOPNUM with a bracket-less root that could swallow the number')
    if top['pos'] == 'TOP2':
        # two containers in a row: the split must be unique
        if is_soft(root):
            if root['k'] != 'list' or root['delim'] is None or item_nullable(root) or has_soft(root):
                out.append('TOP2 with a bracket-less root that is not a delimited list of non-nullable items')
        elif is_optional(root):
            out.append('TOP2 with an optional root')
    return out


def item_symbol_and_prods(node, prods):
    """item (value) symbol of a list / map / obj node; adds the auxiliary productions"""
    alts = alt_symbols(node)
    style = node['style']
    if style == 'direct':
        return alts[0]
    sym = node['sym'] + 'IT'
    if style == 'choice':
        prods[sym] = [(a,) for a in alts] + ([None] if node.get('nullable') else [])
    else:   # chain
        prods[sym] = [(node['sym'] + 'V',)] + ([None] if node.get('nullable') else [])
        prods[node['sym'] + 'V'] = [(a,) for a in alts]
    return sym


def build_productions(top):
    prods = {}
    root = top['root']
    prods['E'] = {'TOP': [(root['sym'],)], 'TOPNUM': [(root['sym'], 'NUMBER')],
                  'TOP2': [(root['sym'], root['sym'])]}[top['pos']]
    need_tag = False
    for n in walk(root):
        k = n['k']
        if k == 'list':
            item = item_symbol_and_prods(n, prods)
            br = n['br'] or [None, None]
            kw = {}
            if n['afd'] is not None:
                kw['allow_final_delimiter'] = n['afd']
            if n['opt'] is not None:
                kw['optional'] = n['opt']
            prods[n['sym']] = ListProds(br[0], item, n['delim'], br[1], **kw)
        elif k == 'map':
            item = item_symbol_and_prods(n, prods)
            if len(n['keys']) == 1:
                key = n['keys'][0]
            else:
                key = n['sym'] + 'KEY'
                prods[key] = [(t,) for t in n['keys']]
            br = n['br'] or [None, None]
            kw = {}
            if n['afd'] != 'default':
                kw['allow_final_delimiter'] = n['afd']
            if n['opt'] is not None:
                kw['optional'] = n['opt']
            prods[n['sym']] = MapProds(br[0], key, n['assign'], item, n['delim'], br[1], **kw)
        elif k == 'seq':
            prods[n['sym']] = ProdSequence(*alt_symbols(n))
            need_tag = need_tag or n.get('tag')
        elif k == 'obj':
            item = item_symbol_and_prods(n, prods)
            prods[n['sym']] = [('<', item, '>')]
    if need_tag:
        prods['TAG'] = [('@', 'WORD')]
    return prods


def build_parser(top):
    return LLParser(TOKENIZER, synonyms=dict(SYNONYMS), span_matchers=dict(SPAN_MATCHERS),
                    productions=build_productions(top))


# ------------------------------------------------------------------------------------------
# data:  ['w', txt] ['n', txt] ['0'] (empty item -> None) ['abs', sym] (absent optional -> None)
#        ['tag', txt]   ['L', sym, [item...]]   ['M', sym, [[keytxt, item]...]]   ['S', sym, [elem...]]
#        ['O', sym, item]
# ------------------------------------------------------------------------------------------

def nodes_by_sym(top):
    return {n['sym']: n for n in walk(top['root'])}


def renders_empty(d):
    t = d[0]
    if t in ('0', 'abs'):
        return True
    if t in ('L', 'M', 'S'):
        return len(d[2]) == 0 and bool(d[3])      # empty bracket-less container / empty sequence
    return False


def mk_container(tag, node, items):
    """container data: [tag, sym, items, soft]"""
    return [tag, node['sym'], items, is_soft(node)]


def gen_item(node, depth_left, rng, allow_empty=True):
    """one item / value / element of container `node`"""
    choices = []
    for t in node.get('leafs', []):
        choices += [('leaf', t)] * 2
    if node.get('tag'):
        choices.append(('tag', None))
    if allow_empty and node.get('nullable'):
        choices += [('empty', None)] * 2
    for c in alt_nodes(node):
        if depth_left > 1 or c['k'] == 'obj':
            choices += [('child', c)] * (3 if depth_left > 1 else 1)
        if allow_empty and is_optional(c):
            choices.append(('absent', c))
    if not choices:     # only container alternatives and no depth left
        return None
    kind, arg = rng.choice(choices)
    if kind == 'leaf':
        return ['w', rng.choice(WORDS)] if arg == 'WORD' else ['n', rng.choice(NUMBERS)]
    if kind == 'tag':
        return ['tag', rng.choice(WORDS)]
    if kind == 'empty':
        return ['0']
    if kind == 'absent':
        return ['abs', arg['sym']]
    return gen_data(arg, depth_left - 1 if arg['k'] != 'obj' else depth_left, rng)     # may be None


def gen_data(node, depth_left, rng, length=None):
    k = node['k']
    if k == 'obj':
        it = gen_item(node, depth_left, rng)
        return None if it is None else ['O', node['sym'], it]
    if length is None:
        length = rng.choice([0, 1, 1, 2, 2, 3, 3])
    if k == 'list':
        items = [gen_item(node, depth_left, rng) for _ in range(length)]
        items = [i for i in items if i is not None]
        fix_single_empty(node, items, depth_left, rng)
        return mk_container('L', node, items)
    if k == 'map':
        pairs = []
        for _ in range(length):
            kt = rng.choice(node['keys'])
            key = rng.choice(KEY_WORDS) if kt == 'WORD' else rng.choice(KEY_NUMBERS)
            it = gen_item(node, depth_left, rng)
            if it is not None:
                pairs.append([key, it])
        return mk_container('M', node, pairs)
    if k == 'seq':
        items = [gen_item(node, depth_left, rng, allow_empty=False) for _ in range(length)]
        return mk_container('S', node, [i for i in items if i is not None])
    raise AssertionError(k)


def fix_single_empty(node, items, depth_left, rng):
    """a list of exactly one item that renders empty can be written only with a final delimiter"""
    if len(items) == 1 and renders_empty(items[0]) and not eff_afd(node):
        for _ in range(50):
            it = gen_item(node, depth_left, rng, allow_empty=False)
            if it is not None and not renders_empty(it):
                items[0] = it
                return
        del items[0]


def expected_of(d):
    t = d[0]
    if t in ('w', 'n'):
        return d[1]
    if t == '0':
        return None
    if t == 'abs':
        return {'A': 1}
    if t == 'tag':
        return {'N': ['@', d[1]]}
    if t == 'L':
        return {'L': [expected_of(i) for i in d[2]]}
    if t == 'M':
        return {'M': [[kk, expected_of(v)] for kk, v in d[2]]}
    if t == 'S':
        return {'S': [[elem_name(e), expected_of(e)] for e in d[2]]}
    if t == 'O':
        return {'N': ['<', expected_of(d[2]), '>']}
    if t == 'P':        # E -> C C
        return {'N': [expected_of(d[1]), expected_of(d[2])]}
    raise AssertionError(t)


def elem_name(d):
    return {'w': 'WORD', 'n': 'NUMBER', 'tag': 'TAG'}.get(d[0]) or d[1]


def data_depth(d):
    t = d[0]
    if t in ('L', 'S'):
        return 1 + max([data_depth(i) for i in d[2]] or [0])
    if t == 'M':
        return 1 + max([data_depth(v) for _, v in d[2]] or [0])
    if t == 'O':
        return data_depth(d[2])
    if t == 'P':
        return max(data_depth(d[1]), data_depth(d[2]))
    return 0


def containers_of(d, nodes, out=None, inside_seq=False):
    """pre-order list of (data, node, inside_seq) of the list / map containers"""
    if out is None:
        out = []
    t = d[0]
    if t in ('L', 'M'):
        out.append((d, nodes[d[1]], inside_seq))
        for i in (d[2] if t == 'L' else [v for _, v in d[2]]):
            containers_of(i, nodes, out, inside_seq)
    elif t == 'S':
        for i in d[2]:
            containers_of(i, nodes, out, True)
    elif t == 'O':
        containers_of(d[2], nodes, out, inside_seq)
    elif t == 'P':
        containers_of(d[1], nodes, out, inside_seq)
        containers_of(d[2], nodes, out, inside_seq)
    return out


def forced_final(d, node):
    return d[0] == 'L' and len(d[2]) > 0 and eff_afd(node) and renders_empty(d[2][-1])


def may_take_final(d, node):
    return len(d[2]) > 0 and node['delim'] is not None and eff_afd(node)


def rejects_final(d, node):
    """a delimiter after the last item makes the text illegal"""
    if len(d[2]) == 0 or node['delim'] is None or eff_afd(node):
        return False
    if node['k'] == 'list' and (item_nullable(node) or has_soft(node)):
        return False       # the extra delimiter is followed by one more (empty) item
    return True


def render(d, nodes, finals):
    """token list of the data; `finals` = ids (python id) of containers written with a final delimiter"""
    t = d[0]
    if t in ('w', 'n'):
        return [d[1]]
    if t in ('0', 'abs'):
        return []
    if t == 'tag':
        return ['@', d[1]]
    if t == 'O':
        return ['<'] + render(d[2], nodes, finals) + ['>']
    if t == 'P':
        return render(d[1], nodes, finals) + render(d[2], nodes, finals)
    node = nodes[d[1]]
    toks = []
    if t == 'S':
        for e in d[2]:
            toks += render(e, nodes, finals)
        return toks
    br = node['br']
    if br:
        toks.append(br[0])
    n = len(d[2])
    for i, it in enumerate(d[2]):
        if t == 'L':
            toks += render(it, nodes, finals)
        else:
            toks += [it[0], node['assign']] + render(it[1], nodes, finals)
        if i < n - 1:
            if node['delim'] is not None:
                toks.append(node['delim'])
        elif id(d) in finals:
            toks.append(node['delim'])
    if br:
        toks.append(br[1])
    return toks


# ---- fillers ----
ML_COMMENTS = ['/**/', '/* c */', '/* ], } ) > */', '/* [ , ; \n : x */', '/*a\n\n b*/']
EOL_COMMENTS = ['//', '// x, ] }', '// /* not closed', '//[']
BLANKS = [' ', '  ', '\t', '\n', ' \n  ', '\n\n']


def _alnum(ch):
    return ch.isalnum() or ch == '_'


def one_filler(rng, style, need_sep):
    if style == 'compact':
        return ' ' if need_sep else ''
    if style == 'blank':
        return rng.choice(BLANKS) if (need_sep or rng.random() < 0.7) else ''
    # 'mixed': blanks and comments
    r = rng.random()
    if r < 0.25:
        return ' ' if need_sep else ''
    if r < 0.5:
        return rng.choice(BLANKS)
    parts = []
    for _ in range(rng.choice([1, 1, 2])):
        if rng.random() < 0.6:
            parts.append(rng.choice(ML_COMMENTS))
        else:
            parts.append(rng.choice(EOL_COMMENTS) + '\n')
        if rng.random() < 0.5:
            parts.append(rng.choice(BLANKS))
    if rng.random() < 0.5:
        parts.insert(0, rng.choice(BLANKS))
    return ''.join(parts)


def layout(tokens, rng, style):
    out = [one_filler(rng, style, False)] if style != 'compact' else []
    for i, tk in enumerate(tokens):
        if i > 0:
            need = _alnum(tokens[i - 1][-1]) and _alnum(tk[0])
            out.append(one_filler(rng, style, need))
        out.append(tk)
    if style != 'compact':
        out.append(one_filler(rng, style, False))
    return ''.join(out)


# ------------------------------------------------------------------------------------------
# comparison of the observed tree with the expected value
# ------------------------------------------------------------------------------------------

class Mismatch(Exception):
    def __init__(self, clause, kind, text, inside_seq):
        super().__init__(text)
        self.clause, self.kind, self.text, self.inside_seq = clause, kind, text, inside_seq


def clause_of(exp, enclosing):
    if isinstance(exp, dict):
        if 'A' in exp:
            return 'absent_optional'
        if 'L' in exp:
            return 'list_items' if exp['L'] else 'empty_container'
        if 'M' in exp:
            return 'map_items' if exp['M'] else 'empty_container'
        if 'S' in exp:
            return 'sequence_items'
    return enclosing


def short(v, n=160):
    try:
        s = repr(v)
    except BaseException as e:      # noqa  (repr of a broken tree)
        if isinstance(e, (KeyboardInterrupt, SystemExit, Budget)):
            raise
        s = f"<{type(v).__name__}: repr raises {type(e).__name__}>"
    return s if len(s) <= n else s[:n] + '...'


def match_value(exp, v, path, enclosing, in_seq):
    """`v` is a python value found as an entry of a list / dict / as the value of a leaf TElement"""
    clause = clause_of(exp, enclosing)
    if in_seq and isinstance(exp, dict) and ('L' in exp or 'M' in exp):
        in_seq = 'container'
    if exp is None or (isinstance(exp, dict) and 'A' in exp):
        if v is not None:
            raise Mismatch(clause, 'wrong-content', f"{path}: expected None, got {short(v)}", in_seq)
        return
    if isinstance(exp, str):
        if isinstance(v, TElement):
            raise Mismatch(clause, 'not-plain-value', f"{path}: expected the plain value {exp!r}, got {short(v)}", in_seq)
        if not (isinstance(v, str) and v == exp):
            raise Mismatch(clause, 'wrong-content', f"{path}: expected {exp!r}, got {short(v)}", in_seq)
        return
    if 'N' in exp:
        if not isinstance(v, TElement):
            raise Mismatch(clause, 'wrong-content', f"{path}: expected a tree node, got {short(v)}", in_seq)
        match_elem(exp, v, path, enclosing, in_seq)
        return
    if 'L' in exp:
        if type(v) is not list:
            kind = 'not-converted' if (isinstance(v, TElement) or (v is None and not exp['L'])) else 'wrong-content'
            raise Mismatch(clause, kind, f"{path}: expected the Python list {plain(exp)}, got {short(v)}", in_seq)
        if len(v) != len(exp['L']):
            raise Mismatch(clause, 'wrong-length',
                           f"{path}: expected {len(exp['L'])} entries {plain(exp)}, got {len(v)}: {short(v)}", in_seq)
        for i, (e, x) in enumerate(zip(exp['L'], v)):
            match_value(e, x, f"{path}[{i}]", 'list_items', in_seq)
        return
    if 'M' in exp:
        if type(v) is not dict:
            kind = 'not-converted' if (isinstance(v, (TElement, list)) or (v is None and not exp['M'])) \
                else 'wrong-content'
            raise Mismatch(clause, kind, f"{path}: expected the dict {plain(exp)}, got {short(v)}", in_seq)
        pairs = exp['M']
        last = {}
        for kk, ev in pairs:
            last[kk] = ev
        first_order = list(dict.fromkeys(kk for kk, _ in pairs))
        last_order = list(reversed(list(dict.fromkeys(kk for kk, _ in reversed(pairs)))))
        keys = list(v.keys())
        if any(not isinstance(kk, str) for kk in keys):
            raise Mismatch(clause, 'wrong-content', f"{path}: keys are not plain strings: {short(keys)}", in_seq)
        if sorted(keys) != sorted(last):
            raise Mismatch(clause, 'wrong-length' if len(keys) != len(last) else 'wrong-content',
                           f"{path}: expected keys {first_order}, got {keys}", in_seq)
        if keys != first_order and keys != last_order:
            raise Mismatch(clause, 'wrong-order', f"{path}: expected key order {first_order}, got {keys}", in_seq)
        for kk in keys:
            match_value(last[kk], v[kk], f"{path}[{kk!r}]", 'map_items', in_seq)
        return
    if 'S' in exp:
        if type(v) is not list:
            raise Mismatch(clause, 'not-converted', f"{path}: expected a list of elements, got {short(v)}", in_seq)
        if len(v) != len(exp['S']):
            raise Mismatch(clause, 'wrong-length',
                           f"{path}: expected {len(exp['S'])} elements, got {len(v)}: {short(v)}", in_seq)
        for i, ((name, e), x) in enumerate(zip(exp['S'], v)):
            if not isinstance(x, TElement):
                raise Mismatch(clause, 'wrong-content', f"{path}[{i}]: element is not a TElement: {short(x)}", in_seq)
            if x.name != name:
                raise Mismatch(clause, 'wrong-content',
                               f"{path}[{i}]: expected element {name}, got {x.name}", in_seq)
            match_elem(e, x, f"{path}[{i}]", 'sequence_items', True)
        return
    raise AssertionError(exp)


def match_elem(exp, te, path, enclosing, in_seq):
    """`te` must be a TElement carrying the expected value"""
    clause = clause_of(exp, enclosing)
    if in_seq and isinstance(exp, dict) and ('L' in exp or 'M' in exp):
        in_seq = 'container'
    if not isinstance(te, TElement):
        raise Mismatch(clause, 'wrong-content', f"{path}: expected a TElement, got {short(te)}", in_seq)
    if in_seq and not (isinstance(exp, dict) and 'N' in exp):
        # the statement does not say that the elements of a sequence are squashed: tolerate chains of
        # one-child symbols above the value
        while not te.is_leaf() and type(te.value) is list and len(te.value) == 1 \
                and isinstance(te.value[0], TElement):
            te = te.value[0]
    if isinstance(exp, dict) and 'N' in exp:
        if te.is_leaf() or type(te.value) is not list or len(te.value) != len(exp['N']):
            raise Mismatch(clause, 'wrong-content',
                           f"{path}: expected a node with {len(exp['N'])} children, got {short(te)}", in_seq)
        for i, (e, c) in enumerate(zip(exp['N'], te.value)):
            match_elem(e, c, f"{path}.{te.name}[{i}]", enclosing, in_seq)
        return
    if not te.is_leaf():
        kind = 'not-converted' if isinstance(exp, dict) else 'wrong-content'
        raise Mismatch(clause, kind,
                       f"{path}: element {te.name} is an inner tree node {short(te)}, expected the value {plain(exp)}",
                       in_seq)
    match_value(exp, te.value, f"{path}<{te.name}>", enclosing, in_seq)


def plain(exp):
    """readable rendering of an expected value"""
    if isinstance(exp, dict):
        if 'A' in exp:
            return 'None(absent)'
        if 'L' in exp:
            return '[' + ', '.join(plain(e) for e in exp['L']) + ']'
        if 'M' in exp:
            return '{' + ', '.join(f"{k}: {plain(e)}" for k, e in exp['M']) + '}'
        if 'S' in exp:
            return 'seq[' + ', '.join(f"{n}={plain(e)}" for n, e in exp['S']) + ']'
        if 'N' in exp:
            return 'node(' + ', '.join(plain(e) for e in exp['N']) + ')'
    return repr(exp)


def root_clause(exp):
    if isinstance(exp, dict) and 'N' in exp:
        for e in exp['N']:
            if isinstance(e, dict):
                return root_clause(e)
    return clause_of(exp, 'list_items')


def has_container_in_seq(exp, in_seq=False):
    if isinstance(exp, dict):
        if 'L' in exp:
            return in_seq or any(has_container_in_seq(e, in_seq) for e in exp['L'])
        if 'M' in exp:
            return in_seq or any(has_container_in_seq(e, in_seq) for _, e in exp['M'])
        if 'S' in exp:
            return any(has_container_in_seq(e, True) for _, e in exp['S'])
        if 'N' in exp:
            return any(has_container_in_seq(e, in_seq) for e in exp['N'])
    return False


def evaluate_once(top, text, mode, exp, parser):
    """Returns (failure | None, observed, parser); failure = (clause, kind, text)"""
    clause0 = root_clause(exp)
    try:
        with quiet(), time_budget(PARSE_BUDGET_S):
            if parser is None:
                parser = build_parser(top)
            root = parser.parse(text)
    except Budget:
        if _ABORT is not None:
            with _ABORT.get_lock():
                _ABORT.value += 1
        return (clause0, 'budget-overrun', f"constructing the parser / parsing {text!r} did not finish in "
                                           f"{PARSE_BUDGET_S} s"), 'budget overrun', parser
    except llparser.ParsingError as e:
        if mode == 'reject':
            return None, 'ParsingError', parser
        return (clause0, 'rejected', f"text {text!r} (denoting {plain(exp)}) is rejected: ParsingError "
                                     f"{short(str(e), 200)}"), 'ParsingError', parser
    except BaseException as e:      # noqa
        if isinstance(e, (KeyboardInterrupt, SystemExit)):
            raise
        if mode == 'reject':
            return ('final_delimiter', 'rejected-with-other-exception',
                    f"text {text!r} has a final delimiter that is not allowed; expected ParsingError, got "
                    f"{type(e).__name__}: {short(str(e), 200)}"), f"{type(e).__name__}: {e}", parser
        return (clause0, 'exception-' + type(e).__name__,
                f"text {text!r} (denoting {plain(exp)}): {type(e).__name__}: {short(str(e), 200)}"), \
            f"{type(e).__name__}: {short(str(e), 300)}", parser
    observed = short(root, 400)
    if mode == 'reject':
        return ('final_delimiter', 'accepted-when-not-allowed',
                f"text {text!r} has a final delimiter where allow_final_delimiter is off, but it is accepted: "
                f"{observed}"), observed, parser
    try:
        match_elem(exp, root, 'E', clause0, False)
    except Mismatch as m:
        clause, kind = m.clause, m.kind
        if m.inside_seq == 'container' and kind == 'not-converted':
            clause, kind = 'sequence_items', 'container-element-not-converted'
        elif kind in ('not-converted', 'not-plain-value'):
            kind = 'wrong-content'      # few, stable classes: wrong-length / wrong-content / wrong-order
        return (clause, kind, f"text {text!r} denotes {plain(exp)}; {m.text}"), observed, parser
    return None, observed, parser


def evaluate(case, parser=None):
    """run one case on the real code.  Returns (failures, observed); failures = [(clause, kind, text)],
    [] = all top-level clauses hold for the case"""
    top, text, mode, exp = case['schema'], case['text'], case['mode'], case['expected']
    fail, observed, parser = evaluate_once(top, text, mode, exp, parser)
    if fail is None:
        return [], observed
    if mode == 'accept' and case.get('finals') and parser is not None and fail[1] != 'budget-overrun':
        # the same data written without the optional final delimiters: when that text is handled
        # correctly, it is the final delimiter that is not accepted / changes the value
        nodes = nodes_by_sym(top)
        d = case['data']
        conts = containers_of(d, nodes) if d[0] != 'abs' else []
        forced = {id(c) for c, n, _ in conts if forced_final(c, n)}
        tokens = render(d, nodes, forced) + ([TOPNUM_TOKEN] if top['pos'] == 'TOPNUM' else [])
        pfail, _, _ = evaluate_once(top, layout(tokens, None, 'compact'), 'accept', exp, parser)
        if pfail is None:
            kind = 'rejected-when-allowed' if fail[1] == 'rejected' else (
                'changes-value' if not fail[1].startswith('exception-') else fail[1])
            fail = ('final_delimiter', kind, fail[2])
    return [fail], observed


# ------------------------------------------------------------------------------------------
# schema generators
# ------------------------------------------------------------------------------------------

def list_node(sym, br, delim, afd=None, opt=None, nullable=False, style='choice', leafs=('WORD',), inner=(),
              selfrec=False):
    return {'k': 'list', 'sym': sym, 'br': list(br) if br else None, 'delim': delim, 'afd': afd, 'opt': opt,
            'nullable': nullable, 'style': style, 'leafs': list(leafs), 'inner': list(inner), 'selfrec': selfrec}


def map_node(sym, br, keys=('WORD',), assign=':', delim=',', afd='default', opt=None, nullable=False,
             style='choice', leafs=('WORD',), inner=(), selfrec=False):
    return {'k': 'map', 'sym': sym, 'br': list(br) if br else None, 'keys': list(keys), 'assign': assign,
            'delim': delim, 'afd': afd, 'opt': opt, 'nullable': nullable, 'style': style, 'leafs': list(leafs),
            'inner': list(inner), 'selfrec': selfrec}


def seq_node(sym, leafs=('WORD',), tag=False, inner=()):
    return {'k': 'seq', 'sym': sym, 'leafs': list(leafs), 'tag': tag, 'inner': list(inner)}


def obj_node(sym, style='choice', leafs=(), inner=()):
    return {'k': 'obj', 'sym': sym, 'style': style, 'leafs': list(leafs), 'inner': list(inner)}


def legal_list_options():
    for br in (None, ['[', ']']):
        for delim in (None, ','):
            for afd in (None, True, False):
                for opt in (None, True, False):
                    for nullable in (False, True):
                        if afd is True and (br is None or delim is None):
                            continue
                        if opt is not None and br is None:
                            continue
                        if nullable and delim is None:
                            continue
                        yield br, delim, afd, opt, nullable


def legal_map_options():
    for br in (None, ['{', '}']):
        for afd in ('default', True, False):
            for opt in (None, True, False):
                for nullable in (False, True):
                    if opt is not None and br is None:
                        continue
                    yield br, afd, opt, nullable


def level1_schemas():
    """every legal option combination of one list / map template (+ the same with self recursion),
    both top positions, every item-symbol style"""
    out = []
    for br, delim, afd, opt, nullable in legal_list_options():
        for pos in ('TOP', 'TOPNUM', 'TOP2'):
            for style in ('direct', 'choice', 'chain'):
                for selfrec in (False, True):
                    if selfrec and br is None:
                        continue
                    if pos == 'TOP2' and (opt is True or (br is None and (delim is None or nullable))
                                          or style == 'chain'):
                        continue
                    leafs = ['WORD'] if (pos == 'TOPNUM' or style == 'direct') else ['WORD', 'NUMBER']
                    if style == 'direct' and (nullable or selfrec):
                        continue
                    if selfrec and opt is True and delim is None:
                        continue        # the item would be nullable in a list without delimiter
                    out.append({'pos': pos, 'root': list_node('C0', br, delim, afd, opt, nullable, style, leafs,
                                                              selfrec=selfrec)})
    for br, afd, opt, nullable in legal_map_options():
        for pos in ('TOP', 'TOPNUM', 'TOP2'):
            if pos != 'TOP' and br is None:
                continue
            if pos == 'TOP2' and opt is True:
                continue
            for style in ('direct', 'choice', 'chain'):
                for selfrec in (False, True):
                    if selfrec and br is None:
                        continue
                    if style == 'direct' and (nullable or selfrec):
                        continue
                    if pos == 'TOP2' and style == 'chain':
                        continue
                    keys = ['WORD'] if style != 'chain' else ['WORD', 'NUMBER']
                    leafs = ['WORD'] if style == 'direct' else ['WORD', 'NUMBER']
                    out.append({'pos': pos, 'root': map_node('C0', br, keys, ':', ',', afd, opt, nullable, style,
                                                             leafs, selfrec=selfrec)})
    # sequences: terminals only / with the TAG node / at both top positions
    for pos in ('TOP',):
        for leafs in (['WORD'], ['WORD', 'NUMBER']):
            for tag in (False, True):
                out.append({'pos': pos, 'root': seq_node('C0', leafs, tag)})
    if CONTAINERS_INSIDE_SEQUENCES:
        out.append({'pos': 'TOP', 'root': seq_node('C0', ['WORD'], False, [
            list_node('C1', ['[', ']'], ',', style='direct')])})
        out.append({'pos': 'TOP', 'root': seq_node('C0', ['WORD'], False, [
            map_node('C1', ['{', '}'], style='direct')])})
    return out


LIST_BRACKETS = [['[', ']'], ['(', ')']]
LIST_DELIMS = [',', ';', '|']
MAP_DELIMS = [',', ';']


class SchemaGen:
    """random nested schemas inside the legal, unambiguous family (see schema_problems)"""

    def __init__(self, rng):
        self.rng = rng
        self.n = 0

    def sym(self):
        self.n += 1
        return f"C{self.n - 1}"

    def top(self):
        rng = self.rng
        self.n = 0
        pos = rng.choice(['TOP', 'TOP', 'TOP', 'TOPNUM', 'TOPNUM', 'TOP2'])
        kind = rng.choice(['list', 'list', 'list', 'map', 'map', 'seq'])
        if pos != 'TOP' and kind == 'seq':
            kind = 'list'
        root = self.container(kind, 3, ctx='top', pos=pos, parent_delim=None, used_open=set())
        return {'pos': pos, 'root': root}

    def children(self, levels_left, parent_kind, used_open, parent_delim, allow_soft, allow_optional, max_n=2):
        """container alternatives for an item position"""
        rng = self.rng
        out = []
        if levels_left <= 0:
            return out
        if allow_soft and rng.random() < 0.18:
            kind = rng.choice(['list', 'map', 'seq'])
            out.append(self.container(kind, levels_left, ctx='soft', pos=None, parent_delim=parent_delim,
                                      used_open=set()))
            return out
        for _ in range(rng.choice([0, 1, 1, 1, 2][:max_n + 3])):
            kind = rng.choice(['list', 'list', 'map', 'map', 'seq-obj', 'obj'])
            if kind in ('obj', 'seq-obj'):
                if '<' in used_open:
                    continue
                used_open.add('<')
                out.append(self.obj(levels_left, seq_inside=(kind == 'seq-obj')))
                continue
            avail = [b for b in (LIST_BRACKETS if kind == 'list' else [['{', '}']]) if b[0] not in used_open]
            if not avail:
                continue
            br = rng.choice(avail)
            used_open.add(br[0])
            out.append(self.container(kind, levels_left, ctx='item', pos=None, parent_delim=parent_delim,
                                      used_open=None, br=br, allow_optional=allow_optional))
        return out

    def obj(self, levels_left, seq_inside=False):
        rng = self.rng
        sym = self.sym()
        if seq_inside:
            inner = [self.container('seq', levels_left, ctx='soft', pos=None, parent_delim=None, used_open=set())]
            return obj_node(sym, rng.choice(['direct', 'choice']), [], inner)
        r = rng.random()
        if r < 0.3:
            kind = rng.choice(['list', 'map'])
            inner = [self.container(kind, levels_left, ctx='soft', pos=None, parent_delim=None, used_open=set())]
            return obj_node(sym, rng.choice(['direct', 'choice']), [], inner)
        used = set()
        inner = self.children(levels_left, 'obj', used, None, allow_soft=False, allow_optional=True, max_n=1)
        inner = [c for c in inner if c['k'] != 'obj'][:1]
        leafs = rng.choice([[], ['WORD'], ['WORD', 'NUMBER']])
        if not inner and not leafs:
            leafs = ['WORD']
        style = 'direct' if (len(inner) + len(leafs) == 1 and rng.random() < 0.5) else 'choice'
        return obj_node(sym, style, leafs, inner)

    def container(self, kind, levels_left, ctx, pos, parent_delim, used_open, br=None, allow_optional=True):
        """ctx: 'top' (any shape), 'item' (bracketed, brackets given), 'soft' (bracket-less / sequence whose
        delimiter differs from parent_delim, no soft children)"""
        rng = self.rng
        sym = self.sym()
        if kind == 'seq':
            leafs = rng.choice([['WORD'], ['WORD', 'NUMBER'], ['NUMBER']])
            tag = rng.random() < 0.4
            inner = []
            if levels_left > 1 and rng.random() < 0.5 and CONTAINERS_INSIDE_SEQUENCES:
                used = set()
                inner = self.children(levels_left - 1, 'seq', used, None, allow_soft=False, allow_optional=False)
                inner = [c for c in inner if not is_optional(c)]
            return seq_node(sym, leafs, tag, inner)
        soft = (ctx == 'soft') or (ctx == 'top' and rng.random() < 0.35 and not (kind == 'map' and pos != 'TOP'))
        if ctx == 'top' and not soft:
            br = rng.choice(LIST_BRACKETS) if kind == 'list' else ['{', '}']
        if soft:
            br = None
        if kind == 'list':
            delims = [d for d in LIST_DELIMS if d != parent_delim]
            delim = rng.choice(delims + [None])
            topnum_soft = soft and pos == 'TOPNUM'
            if soft and pos == 'TOP2' and delim is None:
                delim = rng.choice(delims)
            afd = rng.choice([None, None, True, False]) if (br and delim) else rng.choice([None, False])
            opt = rng.choice([None, None, True, False]) if (br and allow_optional) else (
                rng.choice([None, False]) if br else None)
            nullable = bool(delim) and rng.random() < 0.35 and not (soft and pos == 'TOP2')
            if ctx == 'top' and pos == 'TOP2' and opt is True:
                opt = None
            node = list_node(sym, br, delim, afd, opt, nullable, 'choice', [], [], False)
            used = {br[0]} if br else set()
            selfrec = bool(br) and levels_left > 1 and rng.random() < 0.3
            can_soft_child = bool(br) and bool(delim) and not eff_afd(node) and ctx != 'soft' and not nullable
            inner = self.children(levels_left - 1, 'list', used, delim, allow_soft=can_soft_child,
                                  allow_optional=bool(delim) and not (soft and pos == 'TOP2'))
            if inner and is_soft(inner[0]):
                node.update(leafs=[], inner=inner, selfrec=False, style=rng.choice(['direct', 'choice', 'chain']))
                return node
            if not delim:
                inner = [c for c in inner if not is_optional(c)]
            leafs = rng.choice([['WORD'], ['WORD', 'NUMBER'], ['NUMBER'], []])
            if topnum_soft:
                leafs = ['WORD']
            if selfrec and opt is True and not delim:
                selfrec = False
            if not leafs and not inner and not selfrec:
                leafs = ['WORD']
            node.update(leafs=leafs, inner=inner, selfrec=selfrec)
            n_alts = len(alt_symbols(node))
            styles = ['choice', 'chain'] + (['direct', 'direct'] if (n_alts == 1 and not nullable) else [])
            node['style'] = rng.choice(styles)
            return node
        # map
        delims = [d for d in MAP_DELIMS if d != parent_delim]
        delim = rng.choice(delims)
        afd = rng.choice(['default', 'default', True, False])
        opt = rng.choice([None, None, True, False]) if (br and allow_optional) else (
            rng.choice([None, False]) if br else None)
        nullable = rng.random() < 0.3
        if ctx == 'top' and pos == 'TOP2' and opt is True:
            opt = None
        keys = rng.choice([['WORD'], ['WORD'], ['NUMBER'], ['WORD', 'NUMBER']])
        assign = rng.choice([':', '='])
        node = map_node(sym, br, keys, assign, delim, afd, opt, nullable, 'choice', [], [], False)
        used = {br[0]} if br else set()
        selfrec = bool(br) and levels_left > 1 and rng.random() < 0.3
        can_soft_child = ctx != 'soft' and not nullable and not (soft and pos != 'TOP')
        inner = self.children(levels_left - 1, 'map', used, delim, allow_soft=can_soft_child, allow_optional=True)
        if inner and is_soft(inner[0]):
            node.update(leafs=[], inner=inner, selfrec=False, style=rng.choice(['direct', 'choice', 'chain']))
            return node
        leafs = rng.choice([['WORD'], ['WORD', 'NUMBER'], ['NUMBER'], []])
        if not leafs and not inner and not selfrec:
            leafs = ['WORD']
        node.update(leafs=leafs, inner=inner, selfrec=selfrec)
        n_alts = len(alt_symbols(node))
        styles = ['choice', 'chain'] + (['direct', 'direct'] if (n_alts == 1 and not nullable) else [])
        node['style'] = rng.choice(styles)
        return node


# ------------------------------------------------------------------------------------------
# cases of one schema
# ------------------------------------------------------------------------------------------

def _copy(x):
    return json.loads(json.dumps(x))


def exhaustive_level1_data(top, full):
    """level-1 schema (one template, optionally self-recursive): every container of length 0..3
    (0..2 when not `full`) over <= 2 leaf atoms + the empty item (nullable) and, with self recursion,
    every container of length 1..2 that has a nested [] / [x] / absent entry; maps: every key pattern
    (distinct / repeated first / repeated last / repeated around) of that length"""
    root = top['root']
    k = root['k']
    base = []
    if 'WORD' in root['leafs']:
        base.append(['w', 'a'])
    if 'NUMBER' in root['leafs']:
        base.append(['n', '7'])
    if len(base) < 2 and 'WORD' in root['leafs']:
        base.append(['w', 'b'])
    if root.get('tag'):
        base.append(['tag', 'x1'])
    if root.get('nullable'):
        base.append(['0'])
    nested = []
    for c in (root['inner'] if k == 'seq' else []):      # sequence over containers: [] / [x] elements
        tag = 'L' if c['k'] == 'list' else 'M'
        nested.append(mk_container(tag, c, []))
        nested.append(mk_container(tag, c, [['w', 'a']] if tag == 'L' else [['k', ['w', 'a']]]))
    if root.get('selfrec'):
        nested.append(mk_container('L' if k == 'list' else 'M', root, []))
        one = base[0]
        nested.append(mk_container('L', root, [one]) if k == 'list' else mk_container('M', root, [['k', one]]))
        if root.get('opt') is True:
            nested.append(['abs', root['sym']])
    combos = []
    for n in range(0, 4 if full else 3):
        combos += list(itertools.product(base, repeat=n))
    for n in (1, 2):
        for combo in itertools.product(base + nested, repeat=n):
            if any(c in nested for c in combo):
                combos.append(combo)
    out = []
    if root.get('opt') is True:
        out.append(['abs', root['sym']])
    for combo in combos:
        items = [_copy(c) for c in combo]
        n = len(items)
        if k == 'list':
            if n == 1 and renders_empty(items[0]) and not eff_afd(root):
                continue
            out.append(mk_container('L', root, items))
        elif k == 'map':
            keysets = {0: [[]], 1: [['k']], 2: [['k', 'j'], ['k', 'k']],
                       3: [['k', 'j', 'a'], ['k', 'k', 'j'], ['j', 'k', 'k'], ['k', 'j', 'k']]}[n]
            if 'NUMBER' in root['keys'] and n >= 1:
                keysets = keysets + [['1'] + keysets[0][1:]]
            elif 'WORD' not in root['keys']:
                keysets = [[{'k': '1', 'j': '2', 'a': '3'}[x] for x in ks] for ks in keysets]
            for ks in keysets:
                out.append(mk_container('M', root, [[ks[i], _copy(items[i])] for i in range(n)]))
        else:
            out.append(mk_container('S', root, items))
    return out


def cases_for(top, datas, rng, n_layouts):
    """the concrete cases (schema, text, expectation) of the given data items"""
    nodes = nodes_by_sym(top)
    out = []
    for d in datas:
        exp = expected_of(d)
        if top['pos'] == 'TOPNUM':
            exp = {'N': [exp, TOPNUM_TOKEN]}
        if d[0] == 'abs':
            conts = []
        else:
            conts = containers_of(d, nodes)
        forced = {id(c) for c, n, _ in conts if forced_final(c, n)}
        allowed = {id(c) for c, n, _ in conts if may_take_final(c, n)}
        rejectable = [c for c, n, s in conts if rejects_final(c, n)
                      and not (d[0] == 'P' and c is d[1] and is_soft(n))]    # "a, b, c, d": the delimiter joins the two
        depth = data_depth(d) if d[0] != 'abs' else 0
        tags = case_tags(d, nodes, conts)
        variants = [('accept', forced, False)]
        if allowed - forced:
            variants.append(('accept', forced | allowed, True))
            optional_finals = [id(c) for c, _, _ in conts if id(c) in allowed and id(c) not in forced]
            if len(optional_finals) > 1:
                variants.append(('accept', forced | {rng.choice(optional_finals)}, True))
        for c in rejectable[:3] if len(rejectable) <= 3 else rng.sample(rejectable, 3):
            variants.append(('reject', forced | {id(c)}, True))
        for mode, finals, has_final in variants:
            tokens = render(d, nodes, finals)
            if top['pos'] == 'TOPNUM':
                tokens = tokens + [TOPNUM_TOKEN]
            styles = ['compact'] + [rng.choice(['blank', 'mixed', 'mixed']) for _ in range(n_layouts - 1)]
            seen = set()
            for st in styles:
                text = layout(tokens, rng, st)
                if text in seen:
                    continue
                seen.add(text)
                vt = set(tags)
                if mode == 'reject':
                    vt.add('final-delimiter-rejected-when-disallowed')
                elif has_final:
                    vt.add('final-delimiter-accepted-when-allowed')
                if '/*' in text or '//' in text:
                    vt.add('comment-filler')
                if '\n' in text:
                    vt.add('newline-filler')
                out.append(({'schema': top, 'text': text, 'mode': mode, 'expected': exp, 'data': d,
                             'finals': bool(has_final)}, depth, sorted(vt)))
    return out


def case_tags(d, nodes, conts):
    tags = set()
    if d[0] == 'abs':
        tags.add('absent-optional')
        return tags

    def visit(x, depth):
        t = x[0]
        if t == '0':
            tags.add('empty-item-none')
        elif t == 'abs':
            tags.add('absent-optional')
        elif t == 'O':
            tags.add('wrapper-object')
            visit(x[2], depth)
        elif t == 'P':
            tags.add('two-containers-in-a-row')
            visit(x[1], depth)
            visit(x[2], depth)
        elif t in ('L', 'M', 'S'):
            if depth + 1 >= 3:
                tags.add('depth-3')
            if depth + 1 >= 2:
                tags.add('nested-container')
            node = nodes[x[1]]
            if len(x[2]) == 0:
                tags.add('empty-container')
            if t == 'S':
                tags.add('sequence')
            elif node['br'] is None:
                tags.add('bracket-less-' + node['k'])
            if t == 'L' and node['delim'] is None:
                tags.add('list-without-delimiter')
            if t == 'M':
                ks = [kk for kk, _ in x[2]]
                if len(set(ks)) != len(ks):
                    tags.add('repeated-map-key')
            if t == 'L' and len(x[2]) > 0 and renders_empty(x[2][-1]):
                tags.add('trailing-empty-item')
            for it in (x[2] if t != 'M' else [v for _, v in x[2]]):
                visit(it, depth + 1)
    visit(d, 0)
    return tags


def run_schema(args):
    """worker: all cases of one schema.  Returns plain data only."""
    idx, top, mode, seed, n_data, n_layouts = args
    full = True
    if mode == 'level1-short':
        mode, full = 'level1', False
    rng = random.Random(f"{seed}:{idx}")
    res = {'cases': [], 'fails': [], 'errors': [], 'hits': {}, 'skipped': False, 'build_error': None}
    if _ABORT is not None and _ABORT.value >= MAX_OVERRUNS:
        res['skipped'] = True
        return res
    probs = schema_problems(top)
    if probs:
        res['errors'].append(f"generator produced an illegal schema {json.dumps(top)}: {probs}")
        return res
    if mode == 'level1':
        datas = exhaustive_level1_data(top, full)
    else:
        datas = []
        root = top['root']
        if is_optional(root):
            datas.append(['abs', root['sym']])
        for i in range(n_data):
            datas.append(gen_data(root, 3, rng, length=(0 if i == 0 else None)))
    if top['pos'] == 'TOP2':
        singles = [d for d in datas if d[0] != 'abs' and not (is_soft(top['root']) and len(d[2]) == 0)]
        datas = [['P', _copy(singles[i]), _copy(singles[(i * 7 + 3) % len(singles)])] for i in range(len(singles))]
    try:
        with quiet(), time_budget(PARSE_BUDGET_S):
            parser = build_parser(top)
    except BaseException as e:       # noqa
        if isinstance(e, (KeyboardInterrupt, SystemExit)):
            raise
        if isinstance(e, Budget):
            if _ABORT is not None:
                with _ABORT.get_lock():
                    _ABORT.value += 1
            case = {'schema': top, 'text': '', 'mode': 'accept', 'expected': None, 'data': ['0'], 'finals': False}
            res['fails'].append((root_clause(None), 'budget-overrun',
                                 f"constructing the parser did not finish in {PARSE_BUDGET_S} s", case))
        # a grammar of the family that the constructor refuses is not explored (the statement is about
        # parsing); run() turns a large share of refused grammars into a checker error
        res['build_error'] = f"{type(e).__name__}: {short(str(e).splitlines()[0] if str(e) else '', 200)}"
        return res
    cases = cases_for(top, datas, rng, n_layouts)
    for case, depth, tags in cases:
        fails, observed = evaluate(case, parser)
        res['cases'].append((case, depth >= 2))
        for t in tags:
            res['hits'][t] = res['hits'].get(t, 0) + 1
        for clause, kind, text in fails:
            res['fails'].append((clause, kind, text, case))
        if any(kind == 'budget-overrun' for _, kind, _ in fails):
            break       # no point in burning the budget on every text of this grammar
    return res


def tasks_for(tier, seed):
    tasks = []
    lvl1 = level1_schemas()
    n_layouts = 2 if tier == 'quick' else 4
    for top in lvl1:
        full = tier == 'thorough' or (top['pos'] == 'TOP' and top['root'].get('style', 'choice') == 'choice')
        tasks.append([len(tasks), top, 'level1' if full else 'level1-short', seed, 0, n_layouts])
    n_schemas = 500 if tier == 'quick' else 6000
    n_data = 10 if tier == 'quick' else 16
    rng = random.Random(f"{seed}:schemas")
    gen = SchemaGen(rng)
    for _ in range(n_schemas):
        tasks.append([len(tasks), gen.top(), 'nested', seed, n_data, 2 if tier == 'quick' else 3])
    return tasks, len(lvl1), n_schemas


REQUIRED_REACH = ['final-delimiter-rejected-when-disallowed', 'final-delimiter-accepted-when-allowed',
                  'repeated-map-key', 'absent-optional', 'empty-container', 'empty-item-none',
                  'trailing-empty-item', 'depth-3', 'bracket-less-list', 'bracket-less-map',
                  'list-without-delimiter', 'sequence', 'comment-filler', 'newline-filler', 'wrapper-object']


UNSPECIFIED_PROBES = [
    # (description, productions factory, text, reading with the final delimiter adding nothing)
    ("list of bracket-less lists, allow_final_delimiter on",
     lambda: {'E': [('OUT',)], 'OUT': ListProds('[', 'IN', ';', ']'), 'IN': ListProds(None, 'WORD', ',', None)},
     "[a;]", [['a']]),
    ("list of sequences, allow_final_delimiter on",
     lambda: {'E': [('OUT',)], 'OUT': ListProds('[', 'IN', ';', ']'), 'IN': ProdSequence('WORD')},
     "[a;]", 1),
]


def probe_unspecified(b):
    """texts whose reading the statement leaves open (an item that derives the empty string without being
    None, in a list that allows a final delimiter).  Reported as diagnostics only, never as a violation."""
    for descr, mk, text, reading in UNSPECIFIED_PROBES:
        try:
            with quiet(), time_budget(PARSE_BUDGET_S):
                parser = LLParser(TOKENIZER, synonyms=dict(SYNONYMS), span_matchers=dict(SPAN_MATCHERS),
                                  productions=mk())
                v = parser.parse(text).value
            n = len(reading) if isinstance(reading, list) else reading
            if not isinstance(v, list) or len(v) != n:
                b.diag(f"outside the checked family ({descr}): {text!r} -> {short(v)}; the final delimiter is read "
                       f"as one more (empty) item, i.e. {len(v) if isinstance(v, list) else '?'} entries instead of {n}")
        except BaseException as e:      # noqa
            if isinstance(e, (KeyboardInterrupt, SystemExit)):
                raise
            b.diag(f"outside the checked family ({descr}): {text!r} -> {type(e).__name__}")


def run(b):
    global _ABORT
    probe_unspecified(b)
    tasks, n_lvl1, n_nested = tasks_for(b.tier, b.seed)
    b.notes['level1_schemas'] = n_lvl1
    b.notes['nested_schemas'] = n_nested
    b.notes['schemas_skipped_after_budget_overruns'] = 0
    b.notes['schemas_refused_by_constructor'] = 0
    nproc = min(16, os.cpu_count() or 1)
    ctx = multiprocessing.get_context('fork')
    _ABORT = ctx.Value('i', 0)
    try:
        if nproc > 1:
            with ctx.Pool(nproc) as pool:
                _collect(b, pool.imap(run_schema, tasks, chunksize=4))
        else:
            _collect(b, map(run_schema, tasks))
    finally:
        _ABORT = None
    refused = b.notes['schemas_refused_by_constructor']
    if refused * 10 > len(tasks):
        b.error(f"{refused} of {len(tasks)} grammars of the explored family are refused by the LLParser constructor "
                f"(see the diagnostics): the run says nothing about them")
    if not b.notes['schemas_skipped_after_budget_overruns']:
        b.require_reach(REQUIRED_REACH)


def _collect(b, results):
    for res in results:
        if res['skipped']:
            b.notes['schemas_skipped_after_budget_overruns'] += 1
            continue
        if res['build_error']:
            b.notes['schemas_refused_by_constructor'] += 1
            b.hit('grammar-refused-by-constructor')
            b.diag(f"LLParser constructor refuses a grammar of the explored family: {res['build_error']}")
        for e in res['errors']:
            b.error(e)
        for case, nontrivial in res['cases']:
            b.case(case, nontrivial=nontrivial)
        for t, n in res['hits'].items():
            b.hit(t, n)
        for clause, kind, text, case in res['fails']:
            b.fail(f"{PROP}.{clause}", f"{PROP}.{clause}:{kind}", text, case)


def replay_case(case):
    fails, observed = evaluate(case, None)
    return (not fails), {'observed': observed, 'failed': [f"{c}:{k}: {t}" for c, k, t in fails]}
