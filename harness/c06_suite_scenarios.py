"""The hand-built histories of /repo/tests/test_ghist.py, transcribed line by line, with the suite's
expectations re-expressed as observations (commit ids instead of printed build numbers).  They are
the yardstick of the C06 / C07 oracles: an oracle that rejects one of these expectations, or that
accepts a different listing, is not used."""
import copy

from harness import ghist_mock as gm


def B(commit, listed, nb=False):
    return {'kind': 'build', 'commit': commit, 'not_built': nb, 'listed': list(listed)}


def NM(listed):
    return {'kind': 'not_merged', 'commit': None, 'not_built': False, 'listed': list(listed)}


def br(name, *builds):
    return {'branch': name, 'builds': list(builds)}


SINGLE_BRANCH = gm.from_suite_lines(
    "component_1",
    "branch: origin/master",
    "50 | BUG-555",
    "40 | BUG-444",
    "30 | BUG-333|tags: build_4304_release_10_250_success ",
    "20 | BUG-222|tags: build_4303_release_10_250_success",
    "10 | BUG-111",
    "5  | Initial Commit",
)

MULTI_BRANCH = gm.from_suite_lines(
    "component_1",
    "branch: origin/master",  # ---- branch
    "340 | BUG-177",
    "330<-230, 320| merge",
    "320<-220| branch out |tags: build_4500_master_success",
    "--> |file:VERSION:10.270|",
    "branch: origin/release/10.260",  # ---- branch
    "240<-230, 140| merge|tags: build_4445_release_10_260_success",
    "230 | BUG-133|tags: build_4444_release_10_260_success",
    "225 | BUG-166",
    "220<-120 | first commit after branch",
    "branch: origin/release/10.250",  # ---- branch
    "150 | BUG-155",
    "140 | BUG-144",
    "130 | BUG-133|tags: build_4304_release_10_250_success ",
    "120 | BUG-122|tags: build_4303_release_10_250_success",
    "110 | BUG-111",
    "15  | Initial Commit",
)

R250, R260 = 'release/10.250', 'release/10.260'


def single_repo_expectations():
    """(scenario, history, search text, expected observation) - TestSingleRepoSingleBranch and
    TestSingleRepoMultyBranch of tests/test_ghist.py"""
    s, m = SINGLE_BRANCH, MULTI_BRANCH
    return [
        ('single', s, 'BUG-xxx', []),
        ('single', s, 'BUG-111', [br('master', B(20, [10]))]),
        ('single', s, 'BUG-222', [br('master', B(20, [20]))]),
        ('single', s, 'BUG-444', [br('master', B(50, [40], nb=True))]),
        ('single', s, 'BUG-555', [br('master', B(50, [50], nb=True))]),
        ('single', s, 'BUG', [br('master', B(50, [50, 40], nb=True), B(30, [30]), B(20, [20, 10]))]),
        ('multi', m, 'BUG-111', [br('master', B(320, [110])), br(R260, B(230, [110])), br(R250, B(120, [110]))]),
        ('multi', m, 'BUG-122', [br('master', B(320, [120])), br(R260, B(230, [120])), br(R250, B(120, [120]))]),
        ('multi', m, 'BUG-133', [br('master', NM([130]), B(340, [230], nb=True)),
                                 br(R260, B(240, [130]), B(230, [230])),
                                 br(R250, B(130, [130]))]),
        ('multi', m, 'BUG-144', [br('master', NM([140])), br(R260, B(240, [140])), br(R250, B(150, [140], nb=True))]),
        ('multi', m, 'BUG-155', [br('master', NM([150])), br(R260, NM([150])), br(R250, B(150, [150], nb=True))]),
        ('multi', m, 'BUG-166', [br('master', B(340, [225], nb=True)), br(R260, B(230, [225]))]),
        ('multi', m, 'BUG-177', [br('master', B(340, [340], nb=True))]),
        ('multi', m, 'BUG', [
            br('master', NM([150, 140, 130]), B(340, [340, 230, 225], nb=True), B(320, [120, 110])),
            br(R260, NM([150]), B(240, [140, 130]), B(230, [230, 225, 120, 110])),
            br(R250, B(150, [150, 140], nb=True), B(130, [130]), B(120, [120, 110]))]),
    ]


def mutations(obs):
    """observations that differ from obs in the place of one listed commit: dropped, moved to
    another build of the same branch, or shown twice"""
    for bi, o in enumerate(obs):
        for ri, rb in enumerate(o['builds']):
            for ci, c in enumerate(rb['listed']):
                m = copy.deepcopy(obs)
                del m[bi]['builds'][ri]['listed'][ci]
                yield m
                for rj in range(len(o['builds'])):
                    if rj == ri:
                        continue
                    m = copy.deepcopy(obs)
                    m[bi]['builds'][rj]['listed'].append(c)
                    yield m                                   # shown twice
                    del m[bi]['builds'][ri]['listed'][ci]
                    yield copy.deepcopy(m)                    # moved
    for bi in range(len(obs) - 1):
        m = copy.deepcopy(obs)
        m[bi], m[bi + 1] = m[bi + 1], m[bi]
        yield m                                               # two branches swapped


# ---- two-repository scenarios (TestReposDependentComponent) --------------------------------------

BUMPS_MASTER = gm.from_suite_lines(
    "c_master",
    'branch: origin/master',  # ---- branch master
    '990<-10|branch master head',
    '--> |file:DEPENDS:{"proj_lib": "10.120.2019"}',
    'branch: origin/release/5.7',  # ---- branch 5.7
    '490|branch 5.7 head - not a build',
    '--> |file:DEPENDS:{"proj_lib": "10.120.2019"}',
    '480<-10|build 5.7.77',
    '--> |tags:build_77_release_5_7_success',
    '--> |file:DEPENDS:{"proj_lib": "10.120.2019"}',
    'branch: origin/release/5.6',  # ---- branch 5.6
    '390<-10|branch 5.6 head',
    '--> |tags:build_67_release_5_6_success',
    '--> |file:DEPENDS:{"proj_lib": "10.120.2019"}',
    'branch: origin/release/5.5',  # ---- branch 5.5
    '290<-10|branch 5.5 head',
    '--> |file:DEPENDS:{"proj_lib": "10.120.2010"}',
    'branch: origin/release/5.4',  # ---- branch 5.4
    '128|head of branch',
    '--> |file:DEPENDS:{"proj_lib": "10.120.2018"}',
    '127|build 17|tags: build_17_release_5_4_success',
    '--> |file:DEPENDS:{"proj_lib": "10.120.2017"}',
    '124|build 14|tags: build_14_release_5_4_success',
    '--> |file:DEPENDS:{"proj_lib": "10.120.2014"}',
    '121|build 11|tags: build_11_release_5_4_success',
    '--> |file:DEPENDS:{"proj_lib": "10.120.2011"}',
    '120|build 10|tags: build_10_release_5_4_success',
    '--> |file:DEPENDS:{"proj_lib": "10.120.2010"}',
    'branch: origin/release/5.3',  # -- branch 5.3
    '90|build 5|tags: build_5_release_5_3_success',
    '--> |file:DEPENDS:{"proj_lib": "10.120.2010"}',
    '10|build 3|tags: build_3_release_5_3_success',
    '--> |file:DEPENDS:{"proj_lib": "10.110.2020"}',
)

BUMPS_LIB = gm.from_suite_lines(
    "proj_lib",
    'branch: origin/master',  # ---- branch
    '990 | final_build |tags: build_3090_release_10_130_success',
    '--> |file:VERSION:10.130|',
    'branch: origin/release/10.120',  # ---- branch
    '190 | BUG-211 g |tags: build_2019_release_10_120_success',
    '180 | BUG-211 f |tags: build_2018_release_10_120_success',
    '160 | BUG-211 e |tags: build_2016_release_10_120_success',
    '150 | BUG-211 d |tags: build_2015_release_10_120_success',
    '140 | no bug    |tags: build_2014_release_10_120_success',
    '130 | BUG-211 c |tags: build_2013_release_10_120_success',
    '120 | BUG-211 b |tags: build_2012_release_10_120_success',
    '110 | BUG-211 a |tags: build_2011_release_10_120_success',
    '100 | some build |tags: build_2010_release_10_120_success',
)

# suite: which builds of c_master are reported (bump lines), per branch, newest first
BUMPS_REPORTED = {
    'release/5.4': ['not merged', 'not built', '5.4.14', '5.4.11'],
    'release/5.6': ['5.6.67'],
    'release/5.7': ['5.7.77'],
    'master': ['not built'],
}

INCL_MASTER = gm.from_suite_lines(
    "c_master",
    'branch: origin/release/5.5',  # ---- branch 5.5
    '590 |branch 5.5 head',
    '--> |file:DEPENDS:{"proj_lib": "10.20.7"}',
    '550 |build 5.5.5',
    '--> |tags: build_5_release_5_5_success',
    '--> |file:DEPENDS:{"proj_lib": "10.20.4"}',
    'branch: origin/release/5.4',  # ---- branch 5.4
    '390<-10|branch 5.4 head',
    '--> |tags:build_47_release_5_4_success',
    '--> |file:DEPENDS:{"proj_lib": "10.20.7"}',
    'branch: origin/release/5.3',  # ---- branch 5.3
    '90|build 5|tags: build_5_release_5_3_success',
    '--> |file:DEPENDS:{"proj_lib": "10.20.1"}',
    '10|build 3|tags: build_3_release_5_3_success',
    '--> |file:DEPENDS:{"proj_lib": "10.10.1"}',
)

INCL_LIB = gm.from_suite_lines(
    "proj_lib",
    'branch: origin/master',  # ---- branch
    '990 | final_build |tags: build_3090_release_10_130_success',
    '--> |file:VERSION:10.130|',
    'branch: origin/release/10.20',  # ---- branch
    '190 | BUG-212 g |tags: build_9_release_10_20_success',
    '170 | BUG-212 f |tags: build_7_release_10_20_success',
    '150 | BUG-212 d |tags: build_5_release_10_20_success',
    '140 | no bug    |tags: build_4_release_10_20_success',
    '120 | BUG-212 b |tags: build_3_release_10_20_success',
    '110 | BUG-212 a |tags: build_2_release_10_20_success',
    '100 | some build |tags: build_1_release_10_20_success',
)

# suite: included_at of every report-related build of proj_lib (by component commit id)
INCL_EXPECTED = {
    110: {('c_master', 'release/5.4', '5.4.47'), ('c_master', 'release/5.5', '5.5.5')},
    120: {('c_master', 'release/5.4', '5.4.47'), ('c_master', 'release/5.5', '5.5.5')},
    150: {('c_master', 'release/5.4', '5.4.47'), ('c_master', 'release/5.5', 'not built')},
    170: {('c_master', 'release/5.4', '5.4.47'), ('c_master', 'release/5.5', 'not built')},
    190: set(),
}

NOVERSION_LIB = gm.from_suite_lines(
    "proj_lib",
    'branch: origin/master',  # ---- branch
    '900 <- 310 | branch ',
    'branch: origin/release/22.11',  # ---- branch
    '310 | build me |tags: build_2_release_22_11_success',
    '300 <- 220 | branch 22.11',
    'branch: origin/release/22.10',  # ---- branch
    '220 | current 22.10 head',
    '210 | BUG-42 x1',  # but there is no build in this branch
    '200 <- 120 | branch 22.10',
    'branch: origin/release/22.09',  # ---- branch
    '120 | build me |tags: build_1_release_22_09_success',
    '110 | BUG-42',
    '100 | initial commit',
)

NOVERSION_MASTER = gm.from_suite_lines(
    "c_master",
    'branch: origin/master',  # ---- branch
    '900 <- 310 | branch ',
    'branch: origin/release/22.11',  # ---- branch
    '310 | include fix here',
    '--> |file:DEPENDS:{"proj_lib": "22.11.2"}',
    '300 <- 220| branch 22.11',
    'branch: origin/release/22.10',  # ---- branch
    '220 | current head of 22.10',
    '210 | BUG-42 some fixes in owner repo',
    '200 <- 100| branch 22.10',
    '--> |file:DEPENDS:{"proj_lib": "22.09.1"}',
    'branch: origin/release/22.09',  # ---- branch
    '100 | initial commit',
)

# single-repository histories of the suite on which the unchanged code is run as ordinary cases
SUITE_SINGLE_CASES = (
    [(h, t) for _, h, t, _ in single_repo_expectations()]
    + [(BUMPS_LIB, 'BUG-211'), (INCL_LIB, 'BUG-212'), (NOVERSION_LIB, 'BUG-42'),
       (NOVERSION_MASTER, 'BUG-42'), (BUMPS_MASTER, 'branch'), (INCL_MASTER, 'build')]
)
