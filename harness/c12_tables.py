"""Shared helpers of the C12 / C13 drivers: JSON table descriptions -> real PPTable objects, and the
independent reference definitions (DESIGN.md appendix D.5) used as oracles.

A *table description* (JSON-able dict):
  mode      'fields'      records are tuples, PPTable(..., fields=[names])
            'namedtuple'  records are namedtuples, no 'fields' argument
            'path'        records are {'t': tuple, 'd': dict}; every field is introduced by the fmt
                          with a value path ('enhanced' fmt)
            'attr'        records are objects with attributes named as the fields, fields come from
                          the fmt (path = field name)
  fields    [{'name': str, 'type': None | {'enum': [[value, name | [name, syntax]], ...]}
                                          | {'bounds': [min, max]},
              'title': None | str | [items]}]
  records   [[value per field], ...]          (scalars only: int, float, bool, None, str)
  columns   None (no fmt: one default column per field) or
            [{'field': name, 'mod': None|'val'|'name'|'full', 'brk': bool,
              'w': None | [n] | [min, max] | 'hidden'}]
  limits    None | [n, m] | '*' ;  limits_via 'fmt' | 'arg'
  header, footer   None | str
  skip      None | [names]       (skip_columns argument)
  spaces    bool                  (blank after the commas of the fmt)

Nothing here calls the code under test to compute an expectation.
"""
import contextlib
import io
import re
import signal
import sys
import types
from collections import namedtuple

from ak import ppobj

DEFAULT_BOUNDS = (1, 999)        # documented defaults of FieldType(min_width=1, max_width=999)
PUNCT = set(',:;/!<-()')
MISSING_NAME = '<???>'           # documented text of an unexpected enum value


class Budget(BaseException):
    """the code under test did not come back within its time budget"""


@contextlib.contextmanager
def guarded(seconds=10.0):
    """silence stdout/stderr of the code under test and bound its running time"""
    def on_alarm(signum, frame):
        raise Budget()
    old_out, old_err = sys.stdout, sys.stderr
    sys.stdout, sys.stderr = io.StringIO(), io.StringIO()
    use_alarm = hasattr(signal, 'setitimer')
    old_handler = None
    if use_alarm:
        try:
            old_handler = signal.signal(signal.SIGALRM, on_alarm)
            signal.setitimer(signal.ITIMER_REAL, seconds)
        except ValueError:          # not in the main thread
            use_alarm = False
    try:
        yield
    finally:
        if use_alarm:
            signal.setitimer(signal.ITIMER_REAL, 0)
            signal.signal(signal.SIGALRM, old_handler)
        sys.stdout, sys.stderr = old_out, old_err


# ------------------------------------------------------------------------------------------------
# description -> real objects

def make_field_types(desc):
    """{field name: FieldType object} for the typed fields of the description"""
    out = {}
    for f in desc['fields']:
        ty = f.get('type')
        if not ty:
            continue
        if 'enum' in ty:
            out[f['name']] = ppobj.PPEnumFieldType(
                {v: (tuple(n) if isinstance(n, list) else n) for v, n in ty['enum']})
        elif 'bounds' in ty:
            out[f['name']] = ppobj.FieldType(ty['bounds'][0], ty['bounds'][1])
    return out


def make_titles(desc):
    out = {}
    for f in desc['fields']:
        if f.get('title') is not None:
            out[f['name']] = f['title']
    return out or None


def make_records(desc):
    names = [f['name'] for f in desc['fields']]
    mode = desc['mode']
    recs = desc['records']
    if mode == 'fields':
        return [tuple(r) for r in recs]
    if mode == 'namedtuple':
        nt = namedtuple('Rec', names)
        return [nt(*r) for r in recs]
    if mode == 'path':
        return [{'t': tuple(r), 'd': dict(zip(names, r))} for r in recs]
    if mode == 'attr':
        return [types.SimpleNamespace(**dict(zip(names, r))) for r in recs]
    raise ValueError(f"unknown mode {mode!r}")


def col_fmt(col, path=None):
    s = col['field']
    if col.get('mod') is not None:
        s += '/' + col['mod']
    if col.get('brk'):
        s += '!'
    if path is not None:
        s += '<-' + path
    w = col.get('w')
    if w == 'hidden':
        s += ':-1'
    elif w is not None:
        s += ':' + '-'.join(str(x) for x in w)
    return s


def limits_fmt(limits):
    if limits is None:
        return None
    if limits == '*':
        return '*'
    return f"{limits[0]}:{limits[1]}"


def fmt_string(desc, columns, limits, with_paths=False):
    """fmt string of `columns` (None = no columns section) and `limits` (None = no limits section)"""
    names = [f['name'] for f in desc['fields']]
    sep = ', ' if desc.get('spaces') else ','
    if columns is None:
        cols_s = ''
    else:
        parts = []
        for c in columns:
            path = None
            if with_paths and desc['mode'] == 'path':
                i = names.index(c['field'])
                path = f"[t].{i}" if i % 2 == 0 else f"[d].[{c['field']}]"
            parts.append(col_fmt(c, path))
        cols_s = sep.join(parts)
    lim_s = limits_fmt(limits)
    if lim_s is None:
        return cols_s
    return cols_s + ';' + lim_s


def ctor_kwargs(desc, field_types):
    """keyword arguments of PPTable for everything but records / fmt / limits"""
    kw = {}
    if desc['mode'] == 'fields':
        kw['fields'] = [f['name'] for f in desc['fields']]
    if field_types:
        kw['fields_types'] = field_types
    titles = make_titles(desc)
    if titles:
        kw['fields_titles'] = titles
    if desc.get('header') is not None:
        kw['header'] = desc['header']
    if desc.get('footer') is not None:
        kw['footer'] = desc['footer']
    return kw


def build_table(desc, field_types=None, records=None):
    """the PPTable the description stands for"""
    if field_types is None:
        field_types = make_field_types(desc)
    if records is None:
        records = make_records(desc)
    kw = ctor_kwargs(desc, field_types)
    limits = desc.get('limits')
    via = desc.get('limits_via', 'fmt')
    fmt_limits = limits if via == 'fmt' else None
    if desc.get('columns') is None and fmt_limits is None:
        fmt = None
    else:
        fmt = fmt_string(desc, desc.get('columns'), fmt_limits, with_paths=True)
    if fmt is not None:
        kw['fmt'] = fmt
    if via == 'arg' and limits is not None:
        kw['limits'] = (None, None) if limits == '*' else tuple(limits)
    if desc.get('skip'):
        kw['skip_columns'] = list(desc['skip'])
    return ppobj.PPTable(records, **kw)


def render(table):
    """the observation point of C12/C13: no-colour text of the table"""
    return table.ch_text(no_color=True).plain_text()


# ------------------------------------------------------------------------------------------------
# the model: what the description / history configures (independent of the implementation)

class Col:
    __slots__ = ('field', 'fidx', 'mod', 'brk', 'min', 'max', 'ftype')

    def key(self):
        return (self.field, self.mod, bool(self.brk), self.min, self.max)


def field_bounds(fdesc):
    ty = fdesc.get('type')
    if ty and 'bounds' in ty:
        return tuple(ty['bounds'])
    return DEFAULT_BOUNDS


def model_columns(desc, columns):
    """visible columns configured by a column list (None = one default column per field)"""
    names = [f['name'] for f in desc['fields']]
    out = []
    if columns is None:
        columns = [{'field': n} for n in names]
    for c in columns:
        w = c.get('w')
        if w == 'hidden':
            continue
        col = Col()
        col.field = c['field']
        col.fidx = names.index(c['field'])
        fdesc = desc['fields'][col.fidx]
        col.ftype = fdesc.get('type')
        col.mod = c.get('mod')
        col.brk = bool(c.get('brk'))
        if w is None:
            col.min, col.max = field_bounds(fdesc)
        elif len(w) == 1:
            col.min = col.max = w[0]
        else:
            col.min, col.max = w
        out.append(col)
    return out


def model_limits(limits):
    """None = never specified; (None, None) = explicitly unlimited; (n, m)"""
    if limits is None:
        return None
    if limits == '*':
        return (None, None)
    return tuple(limits)


def initial_model(desc):
    cols = model_columns(desc, desc.get('columns'))
    if desc.get('skip'):
        cols = [c for c in cols if c.field not in desc['skip']]
    return cols, model_limits(desc.get('limits'))


# ------------------------------------------------------------------------------------------------
# reference definitions (appendix D.5)

def is_keyword(v):
    return v is True or v is False or v is None


def plain_text_of(v):
    """text and alignment of a value of an ordinary field: keywords and numbers right, text left"""
    if is_keyword(v) or isinstance(v, (int, float)):
        return str(v), 'R'
    return str(v), 'L'


def enum_text_of(v, pairs, mod):
    """text and alignment of an enum cell.  '10 Active' (value right-aligned to the longest declared
    value), 'val' -> '10', 'name' -> 'Active'; an undeclared None is shown as a plain None; any other
    undeclared value gets the name '<???>'"""
    declared = [k for k, _ in pairs]
    name = None
    found = False
    for k, n in pairs:
        if k == v and type(k) is type(v):
            name = n[0] if isinstance(n, list) else n
            found = True
            break
    longest = max([len(str(k)) for k in declared if k is not None], default=1)
    if not found:
        if v is None:
            return plain_text_of(v)
        name = MISSING_NAME
        longest = max(longest, len(str(v)))
    vtext, valign = plain_text_of(v)
    if mod == 'val':
        return vtext, valign
    if mod == 'name':
        return str(name), valign
    return vtext.rjust(longest) + ' ' + str(name), 'L'


def text_of(v, ftype, mod):
    if ftype and 'enum' in ftype:
        return enum_text_of(v, ftype['enum'], mod)
    return plain_text_of(v)


def fit(text, width, align):
    """pad to exactly `width` (side given by align) or prefix + dots"""
    if len(text) <= width:
        pad = ' ' * (width - len(text))
        return text + pad if align == 'L' else pad + text
    d = min(3, width)
    return text[:width - d] + '.' * d


def title_lines_of(fdesc):
    """title lines of a field: its name, or the given title items, strings split at line breaks"""
    title = fdesc.get('title')
    if title is None:
        items = [fdesc['name']]
    elif isinstance(title, list):
        items = title
    else:
        items = [title]
    out = []
    for it in items:
        if isinstance(it, str):
            out.extend(x.strip() for x in it.split('\n'))
        else:
            out.append(it)
    return out


BREAK, SKIP = 'break', 'skip'


def table_lines_of(records, cols):
    """records (index) with one service line between consecutive records whose break-by values differ"""
    bidx = [c.fidx for c in cols if c.brk]
    out = []
    prev = None
    for i, r in enumerate(records):
        cur = [r[j] for j in bidx]
        if prev is not None and cur != prev:
            out.append(BREAK)
        out.append(i)
        prev = cur
    return out


def apply_limits(lines, limits):
    """-> (shown lines, limits_apply).  With (n, m) and more than n+m+1 table lines: the first n, one
    service line, the last m"""
    if limits is None or limits[0] is None or limits[1] is None:
        return list(lines), False
    n, m = limits
    if len(lines) > n + m + 1:
        first = lines[:n] if n else []
        last = lines[len(lines) - m:] if m else []
        return first + [SKIP] + last, True
    return list(lines), False


# ------------------------------------------------------------------------------------------------
# inverse parser of the format string (grammar of appendix D.5), for C13

_NAME = r"[^,:;/!<()\-\s][^,:;/!<()\-]*"
_COL_RE = re.compile(
    rf"^({_NAME})(?:/({_NAME}))?(!)?:(\d+)(?:-(\d+)(?:\((\d+)\))?)?$")


class FmtSyntaxError(Exception):
    pass


def parse_fmt(s):
    """'columns[;limits[;]]' -> ([(name, mod, brk, min, max, width|None)], limits)
    limits: None (section absent/empty), (None, None) for '*', (n, m)"""
    if not isinstance(s, str):
        raise FmtSyntaxError(f"not a string: {s!r}")
    parts = s.split(';')
    if len(parts) > 3:
        raise FmtSyntaxError(f"more than 3 sections: {s!r}")
    while len(parts) < 3:
        parts.append('')
    cols_s, lim_s, w_s = parts
    if w_s.strip():
        raise FmtSyntaxError(f"third section is not empty: {s!r}")
    cols = []
    if cols_s != '':
        for piece in cols_s.split(','):
            m = _COL_RE.match(piece.strip())
            if not m:
                raise FmtSyntaxError(f"column description {piece!r} is outside the grammar")
            name, mod, brk, lo, hi, w = m.groups()
            lo = int(lo)
            hi = lo if hi is None else int(hi)
            cols.append((name.strip(), mod, brk is not None, lo, hi, None if w is None else int(w)))
    lim_s = lim_s.strip()
    if lim_s == '':
        limits = None
    elif lim_s == '*':
        limits = (None, None)
    else:
        m = re.match(r"^(\d+)\s*:\s*(\d+)$", lim_s)
        if not m:
            raise FmtSyntaxError(f"limits section {lim_s!r} is outside the grammar")
        limits = (int(m.group(1)), int(m.group(2)))
    return cols, limits
