"""C12 bounded driver: printed tables are rectangular, aligned, width-bounded and account for every
record.  Observation point: PPTable(...).ch_text(no_color=True).plain_text(), line by line.

Top-level clauses (from the property statement; reference definitions: DESIGN.md appendix D.5)
  rectangular                  every line has the same visible width
  separators_under_plus        the border is '+' / '-' only with one '+' more than there are columns;
                               every title row and record row has '|' at each position of a '+'
  width_bounds                 configured min <= observed column width <= configured max
  cell_content                 cell j of the row of record r == fit(text_of(r[j]), width_j, align):
                               padded full text, or prefix + dots - regenerated from the record and
                               the observed width, so a neighbour's characters can never match
  record_order_and_accounting  the body is exactly: records in order with one service line between
                               consecutive records whose break-by values differ; with limits (n, m)
                               and more than n+m+1 such lines: the first n, one service line, the last
                               m, and the number announced on that line == total - records shown

Rows are located structurally (border lines; position in the body computed from the record list, the
break-by values and the limits), never by their text.  Supporting clauses (b.diag only): break line
is blank, header / title / footer text.

The lines of a table are produced lazily (iterating table.ch_text(...) yields them one by one), so
besides printing each table on its own the driver prints several tables *interleaved*: the lines
of two or three tables (different tables, or the same table twice) are pulled in turn - side by side
like zip(t1.ch_text(), t2.ch_text()), a table printed completely while the generator of another one
is half consumed, or a seeded random order of pulls.  Every table is a value of its own, so the
oracle of each table is the very same per-table oracle (check_lines), applied to the lines obtained
that way.
"""
import itertools
import multiprocessing
import random
import re

from harness import c12_tables as T
from harness.c12_tables import BREAK, SKIP

CLAUSES = ('rectangular', 'separators_under_plus', 'width_bounds', 'cell_content',
           'record_order_and_accounting')
REACH = ['truncation', 'break-line', 'skipped-records', 'width-0', 'min=max',
         'limits+break-lines', 'enum-val', 'enum-name', 'enum-full', 'header-overlong',
         'footer-overlong', 'border-chars-in-value', 'announcement-readable',
         'announcement-truncated', 'records-0',
         'interleaved-zip', 'interleaved-half-consumed', 'interleaved-random-order',
         'interleaved-same-table', 'interleaved-three-tables', 'interleaved-service-lines']
MAX_LINES = 5000         # step budget of one lazily generated table


# ------------------------------------------------------------------------------------------------
# checking one table

class Res:
    def __init__(self):
        self.fails = []      # (clause, key suffix, text)
        self.diags = []
        self.hits = set()
        self.nontrivial = False
        self.service_rows = []   # indices of the printed lines that are break / skipped-records lines
        self.n_skipped = 0       # number of records the expectation hides

    def fail(self, clause, ksuf, text):
        self.fails.append((clause, ksuf, text))


def _short(s, n=60):
    s = repr(s)
    return s if len(s) <= n else s[:n] + '...'


def check_table(desc):
    """evaluate every clause on the table of one description, printed on its own -> Res"""
    res = Res()
    try:
        with T.guarded():
            table = T.build_table(desc)
            text = T.render(table)
    except T.Budget:
        res.fail('rectangular', 'render-budget', "rendering did not come back within 10 s")
        return res
    except Exception as e:      # noqa  (the table cannot be printed at all)
        res.fail('rectangular', 'render-raises-' + type(e).__name__,
                 f"building/printing the table raises {type(e).__name__}: {_short(str(e), 120)}")
        return res
    if not isinstance(text, str):
        res.fail('rectangular', 'render-not-text', f"rendering is {type(text).__name__}, not text")
        return res
    return check_lines(desc, text.split('\n'), res)


def check_lines(desc, L, res=None):
    """the per-table oracle: evaluate every clause on the printed lines `L` (plain text) of the table
    of `desc`, however the lines were obtained -> Res"""
    if res is None:
        res = Res()
    cols, limits = T.initial_model(desc)
    records = desc['records']
    if not L:
        res.fail('rectangular', 'render-not-text', "the table has no lines at all")
        return res

    header, footer = desc.get('header'), desc.get('footer')
    H = 1 if header else 0
    if footer is None:                      # default summary line ('Total N records'), located structurally
        F = 0 if (len(L) >= 3 and L[-1] == L[0]) else 1
    else:
        F = 1 if footer else 0

    # expected body
    tl = T.table_lines_of(records, cols)
    body, lim_apply = T.apply_limits(tl, limits)
    shown_recs = [x for x in body if isinstance(x, int)]
    res.n_skipped = len(records) - len(shown_recs)

    # ---- reach / non-triviality, measured on the expectation
    if not records:
        res.hits.add('records-0')
    if BREAK in body:
        res.hits.add('break-line')
        res.nontrivial = True
    if lim_apply:
        res.hits.add('skipped-records')
        res.nontrivial = True
        if BREAK in tl:
            res.hits.add('limits+break-lines')
    for c in cols:
        if c.min == c.max:
            res.hits.add('min=max')
        if c.max == 0:
            res.hits.add('width-0')
        if c.ftype and 'enum' in c.ftype:
            res.hits.add('enum-' + (c.mod or 'full'))
    if any(isinstance(v, str) and (set(v) & set('|+-')) for r in records for v in r):
        res.hits.add('border-chars-in-value')

    # ---- rectangular
    w0 = len(L[0])
    kinds = {}

    def kind_of(i):
        return kinds.get(i, 'line')

    # ---- border / layout
    border = L[0]
    if not re.fullmatch(r"\+(?:-*\+)+", border):
        res.fail('separators_under_plus', 'border-shape', f"first line {_short(border)} is not a +---+ border")
        _rect(res, L, w0, kind_of)
        return res
    plus = [i for i, ch in enumerate(border) if ch == '+']
    widths = [plus[k + 1] - plus[k] - 1 for k in range(len(plus) - 1)]
    if len(widths) != len(cols):
        res.fail('separators_under_plus', 'border-shape',
                 f"border {_short(border)} has {len(widths)} columns, {len(cols)} configured")
        _rect(res, L, w0, kind_of)
        return res
    tw = len(border)

    nb = len(L) - F
    borders = [i for i in range(nb) if L[i] == border]
    layout_ok = (len(borders) == 3 and borders[2] == nb - 1 and borders[1] >= 1 + H and nb >= 3)
    if not layout_ok:
        res.fail('record_order_and_accounting', 'layout',
                 f"expected border / titles / border / body / border{' / footer' if F else ''}; border lines "
                 f"found at {borders} of {len(L)} lines")
        _rect(res, L, w0, kind_of)
        return res
    b2, b3 = borders[1], borders[2]
    for i in borders:
        kinds[i] = 'border'
    if H:
        kinds[1] = 'header'
    title_rows = list(range(1 + H, b2))
    for i in title_rows:
        kinds[i] = 'title'
    obs_body = list(range(b2 + 1, b3))
    if F:
        kinds[len(L) - 1] = 'footer'

    # ---- width bounds
    for k, c in enumerate(cols):
        if not (c.min <= widths[k] <= c.max):
            res.fail('width_bounds', 'out-of-bounds',
                     f"column #{k} ({c.field}) has width {widths[k]}, configured {c.min}-{c.max}")

    # ---- body accounting
    if len(obs_body) != len(body):
        res.fail('record_order_and_accounting', 'body-line-count',
                 f"{len(obs_body)} body lines printed, expected {len(body)} "
                 f"({len(records)} records, limits {limits}, {tl.count(BREAK)} break lines)")
        _rect(res, L, w0, kind_of)
        _separators(res, L, title_rows, plus)
        return res

    def expected_row(ri):
        cells = []
        for k, c in enumerate(cols):
            txt, al = T.text_of(records[ri][c.fidx], c.ftype, c.mod)
            cells.append(T.fit(txt, widths[k], al))
        return cells

    all_rows = None
    record_rows = []
    for li, what in zip(obs_body, body):
        line = L[li]
        if what == BREAK:
            kinds[li] = 'break'
            res.service_rows.append(li)
            if line != '|' + ' ' * (tw - 2) + '|':
                res.diags.append(f"[supporting] break line is not blank: {_short(line)}")
        elif what == SKIP:
            kinds[li] = 'skipped'
            res.service_rows.append(li)
            want = len(records) - len(shown_recs)
            # a number followed by something else than a digit or a dot is completely visible (the line is
            # truncated to '...' at small widths); the announcement is right if such a number == want
            nums = [int(x) for x in re.findall(r"(\d+)(?=[^\d.])", line[1:-1])]
            if nums:
                res.hits.add('announcement-readable')
                if want not in nums:
                    res.fail('record_order_and_accounting', 'announced-count',
                             f"line {_short(line)} announces {nums[0]} skipped records; total "
                             f"{len(records)} - shown {len(shown_recs)} = {want}")
            else:
                res.hits.add('announcement-truncated')
        else:
            kinds[li] = 'record'
            record_rows.append(li)
            exp = expected_row(what)
            # cut the line at the separator positions (never by searching for '|')
            obs = [line[plus[k] + 1:plus[k + 1]] for k in range(len(cols))]
            for k, c in enumerate(cols):
                txt, _al = T.text_of(records[what][c.fidx], c.ftype, c.mod)
                if len(txt) > widths[k]:
                    res.hits.add('truncation')
                    res.nontrivial = True
            if obs != exp:
                if all_rows is None:
                    all_rows = {ri: expected_row(ri) for ri in range(len(records))}
                others = [ri for ri, cells in all_rows.items() if cells == obs and ri != what]
                if others and len(line) == tw:
                    res.fail('record_order_and_accounting', 'wrong-record',
                             f"body line {li - b2 - 1} shows record #{others[0]}, expected record #{what}")
                else:
                    bad = [k for k in range(len(cols)) if k >= len(obs) or obs[k] != exp[k]]
                    k = bad[0]
                    c = cols[k]
                    txt, _al = T.text_of(records[what][c.fidx], c.ftype, c.mod)
                    cls = 'truncated' if len(txt) > widths[k] else 'padded'
                    if c.ftype and 'enum' in c.ftype:
                        cls = 'enum-' + cls
                    res.fail('cell_content', cls,
                             f"record #{what} column #{k} ({c.field}, width {widths[k]}): cell {obs[k]!r}, "
                             f"expected {exp[k]!r} for value {_short(records[what][c.fidx])}")

    # ---- separators under '+'
    _separators(res, L, title_rows + record_rows, plus)

    # ---- rectangular
    _rect(res, L, w0, kind_of)

    # ---- supporting: header / titles / footer text
    if H:
        if len(header) > tw - 2:
            res.hits.add('header-overlong')
        if L[1] != '|' + T.fit(header, tw - 2, 'L') + '|':
            res.diags.append(f"[supporting] header line {_short(L[1])} is not the header fitted to the table")
    if F:
        ftxt = footer if footer is not None else f"Total {len(records)} records"
        if footer is not None and len(ftxt) > tw:
            res.hits.add('footer-overlong')
        if L[-1] != T.fit(ftxt, tw, 'L'):
            res.diags.append(f"[supporting] footer line {_short(L[-1])} is not the footer fitted to the table")
    tlines = [T.title_lines_of(desc['fields'][c.fidx]) for c in cols]
    n_t = max(len(x) for x in tlines)
    if len(title_rows) != n_t:
        res.diags.append(f"[supporting] {len(title_rows)} title rows, expected {n_t}")
    else:
        for ti, li in enumerate(title_rows):
            exp = []
            for k, c in enumerate(cols):
                item = tlines[k][ti] if ti < len(tlines[k]) else ''
                if isinstance(item, str):
                    exp.append(T.fit(item, widths[k], 'L'))
                else:
                    txt, al = T.plain_text_of(item)
                    exp.append(T.fit(txt, widths[k], al))
            if L[li] != '|' + '|'.join(exp) + '|':
                res.diags.append(f"[supporting] title row {_short(L[li])} differs from the fitted titles")
                break
    return res


def _rect(res, L, w0, kind_of):
    for i, line in enumerate(L):
        if len(line) != w0:
            res.fail('rectangular', kind_of(i),
                     f"line {i} ({kind_of(i)}) has width {len(line)}, the first line {w0}: {_short(line)}")
            return


def _separators(res, L, rows, plus):
    for li in rows:
        line = L[li]
        bad = [p for p in plus if p >= len(line) or line[p] != '|']
        if bad:
            res.fail('separators_under_plus', 'row',
                     f"line {li} {_short(line)} has no '|' at position {bad[0]} of a border '+'")
            return


# ------------------------------------------------------------------------------------------------
# several tables printed interleaved, line by line

def _resolve(entries):
    """entries of an interleaved case -> (description per entry, index of the entry whose table object
    the entry uses)"""
    descs, obj = [], []
    for i, e in enumerate(entries):
        if 'same_as' in e:
            j = obj[e['same_as']]
            descs.append(descs[j])
            obj.append(j)
        else:
            descs.append(e)
            obj.append(i)
    return descs, obj


def _plain(line):
    txt = line.plain_text()
    if not isinstance(txt, str):
        raise TypeError(f"plain_text() of a generated line is {type(txt).__name__}")
    return txt


def pull_lines(tables, schedule):
    """pull the lines of the tables in the order the schedule says (public way: iterating
    table.ch_text(no_color=True) yields the lines; 'half': the other tables are printed completely with
    ch_text(no_color=True).plain_text()).
    -> (lines per table, time of the first pull per table, time of the pull of each line per table)"""
    n = len(tables)
    its = [iter(t.ch_text(no_color=True)) for t in tables]
    lines = [[] for _ in range(n)]
    when = [[] for _ in range(n)]
    first = [None] * n
    clock = [0]

    def pull(i):
        """one line of table i; False when its generator is exhausted"""
        clock[0] += 1
        if first[i] is None:
            first[i] = clock[0]
        try:
            line = next(its[i])
        except StopIteration:
            return False
        lines[i].append(_plain(line))
        when[i].append(clock[0])
        if len(lines[i]) > MAX_LINES:
            raise T.Budget()
        return True

    live = list(range(n))
    if schedule == 'zip':
        while live:
            live = [i for i in live if pull(i)]
    elif schedule[0] == 'half':
        for _ in range(schedule[1]):
            if not pull(0):
                live = live[1:]
                break
        for i in range(1, n):
            clock[0] += 1
            first[i] = clock[0]
            text = T.render(tables[i])
            if not isinstance(text, str):
                raise TypeError(f"rendering is {type(text).__name__}, not text")
            lines[i] = text.split('\n')
            when[i] = [clock[0]] * len(lines[i])
        while live and live[0] == 0 and pull(0):
            pass
    elif schedule[0] == 'seed':
        rnd = random.Random(f"C12:schedule:{schedule[1]}")
        while live:
            i = rnd.choice(live)
            if not pull(i):
                live.remove(i)
    else:
        raise ValueError(f"unknown schedule {schedule!r}")
    return lines, first, when


_solo_cache = {}


def _solo(desc):
    key = id(desc)
    hit = _solo_cache.get(key)
    if hit is None or hit[0] is not desc:
        if len(_solo_cache) > 2000:
            _solo_cache.clear()
        hit = _solo_cache[key] = (desc, check_table(desc))
    return hit[1]


def check_interleaved(case):
    """-> (nontrivial, hits, [(clause, key suffix, text, case to record)], diags)
    Every table is first printed on its own (a fresh object); what fails there is a failure of that
    single table (recorded with the single description).  What fails only for the lines obtained by
    interleaved generation is recorded with the whole case and '+interleaved' in the key."""
    entries = case['tables']
    schedule = case['schedule']
    descs, obj = _resolve(entries)
    n = len(descs)
    hits, fails, diags = set(), [], []
    solo = []
    for i in range(n):
        r = _solo(descs[i])
        solo.append(r)
        if obj[i] == i:
            hits |= r.hits
            diags.extend(r.diags)
            fails.extend((c, k, t, descs[i]) for c, k, t in r.fails)
    # tables that cannot even be printed on their own say nothing about interleaving
    if any(k.startswith('render-') for r in solo for _c, k, _t in r.fails):
        return False, hits, fails, diags

    try:
        with T.guarded():
            tables = []
            for i in range(n):
                tables.append(tables[obj[i]] if obj[i] != i else T.build_table(descs[i]))
            lines, first, when = pull_lines(tables, schedule)
    except T.Budget:
        fails.append(('rectangular', 'render-budget+interleaved',
                      f"generating the lines of {n} tables in turn did not finish within 10 s / "
                      f"{MAX_LINES} lines", case))
        return False, hits, fails, diags
    except Exception as e:      # noqa
        fails.append(('rectangular', 'render-raises-' + type(e).__name__ + '+interleaved',
                      f"generating the lines of {n} tables in turn raises {type(e).__name__}: "
                      f"{_short(str(e), 120)}", case))
        return False, hits, fails, diags

    results = []
    for i in range(n):
        r = check_lines(descs[i], lines[i])
        results.append(r)
        alone = {(c, k) for c, k, _t in solo[i].fails}
        for c, k, t in r.fails:
            if (c, k) not in alone:
                fails.append((c, k + '+interleaved',
                              f"table #{i} of {n} tables whose lines are generated in turn "
                              f"({_sched_text(schedule)}): {t}", case))
        for dtxt in r.diags:
            if dtxt not in solo[i].diags:
                diags.append("[interleaved] " + dtxt)
        hits |= r.hits

    # ---- reach / non-triviality
    last = [max([first[i] or 0] + when[i]) for i in range(n)]
    overlap = any(first[j] is not None and first[i] is not None and first[i] < first[j] <= last[i]
                  for i in range(n) for j in range(n) if i != j)
    if overlap:
        if schedule == 'zip':
            hits.add('interleaved-zip')
        elif schedule[0] == 'half':
            hits.add('interleaved-half-consumed')
        else:
            hits.add('interleaved-random-order')
        if any(obj[i] != i for i in range(n)):
            hits.add('interleaved-same-table')
        if len(set(obj)) >= 3:
            hits.add('interleaved-three-tables')
    hard = False
    for a in range(n):
        for bb in range(n):
            if obj[a] == obj[bb] or not (results[a].service_rows and results[bb].service_rows):
                continue
            if not (solo[a].service_rows and solo[bb].service_rows):
                continue
            differ = (len(lines[a][0]) != len(lines[bb][0])
                      or results[a].n_skipped != results[bb].n_skipped)
            # table bb is started after table a and before table a yields one of its service lines
            late = any(li < len(when[a]) and first[a] < first[bb] <= when[a][li]
                       for li in results[a].service_rows)
            if differ and late:
                hard = True
    if hard:
        hits.add('interleaved-service-lines')
    nontrivial = overlap and any(r.nontrivial for r in results)
    return nontrivial, hits, fails, diags


def _sched_text(schedule):
    if schedule == 'zip':
        return "side by side, one line of each table in turn"
    if schedule[0] == 'half':
        return (f"{schedule[1]} lines of table #0, then the other tables printed completely, then the "
                f"rest of table #0")
    return f"seeded random order of pulls, seed {schedule[1]}"


# ------------------------------------------------------------------------------------------------
# input spaces

ENUM_INT = {'enum': [[10, 'Ok'], [999, ['Error status', 'name_warn']], [5, 'x|y']]}
ENUM_STR = {'enum': [['A', 'Active'], ['del', ['Deleted', 'name_warn']], ['-', '+-+']]}
ENUM_NONE = {'enum': [[None, 'nothing'], [7, 'seven']]}

INTS = [7, -3, 42, 12345, 1234567890123]
KEYWORDS = [None, True, False]
FLOATS = [1.5, -0.25, 1e+20, 3.0]
STRS = ['a', 'ab', 'abc', 'abcd', 'hello', '', ' ', 'x|y', '|', '+', '-', '+-+', '|+-|', 'a|b+c-d', '--',
        '||||||', 'long text value here', 'L' * 25, 'ends with dots...', '...', 'ä', 'жук',
        ' lead', 'trail ', 'None', '+------+', '| a | b |']
VALUES = INTS + KEYWORDS + FLOATS + STRS

WIDTHS = [None, [0], [1], [2], [3], [4], [8], [0, 2], [0, 3], [1, 2], [2, 8], [1, 999], [3, 3], [0, 0],
          [5, 5], [10, 20], [0, 999]]
LIMITS = [None, [0, 0], [1, 0], [0, 1], [1, 1], [2, 2]]
LIMITS_MORE = [[3, 0], [0, 3], [2, 1], [3, 3], '*']

NAMES_ANY = ['id', 'name', 'st', 'v', 'f0', 'grp', 'level', 'x', 'T_2', 'my col', 'Ünï',
             'a_very_long_field_name_0123456789']
NAMES_IDENT = ['id', 'name', 'st', 'v', 'f0', 'grp', 'level', 'x', 'T_2', 'a_very_long_field_name_0123456789']


def enum_values_for(ty):
    keys = [k for k, _ in ty['enum']]
    if ty is ENUM_INT or any(isinstance(k, int) and k is not None for k in keys):
        extra = [20, 1234567, None]
    else:
        extra = ['zz', 'unexpected long value', None]
    return keys + extra


def family_cells():
    """A: every value of the pool (and every enum cell form) x every width spec around its length,
    next to a neighbour column on either side; one record"""
    targets = [(None, None, v) for v in VALUES]
    for ty in (ENUM_INT, ENUM_STR, ENUM_NONE):
        for mod in (None, 'val', 'name', 'full'):
            for v in enum_values_for(ty):
                targets.append((ty, mod, v))
    for ty, mod, v in targets:
        n = len(T.text_of(v, ty, mod)[0])
        specs = [[0], [1], [2], [3], [4], [5], [8], [0, 3], [2, 8], [1, 999], [3, 3], None]
        for x in (n - 1, n, n + 1):
            if x >= 0 and [x] not in specs:
                specs.append([x])
        for w in specs:
            for first in (True, False):
                tcol = {'field': 'a', 'mod': mod, 'w': w}
                ncol = {'field': 'b', 'w': [2, 6]}
                yield {
                    'family': 'cell', 'mode': 'fields',
                    'fields': [{'name': 'a', 'type': ty}, {'name': 'b'}],
                    'records': [[v, 'NNNN']],
                    'columns': [tcol, ncol] if first else [ncol, tcol],
                    'limits': None,
                }


def family_accounting(max_n, limits_list):
    """B: every record count 0..max_n x every pattern of break-by changes x every limit pair, limits
    given by the fmt and by the constructor argument"""
    for n in range(max_n + 1):
        for bits in itertools.product([0, 1], repeat=max(0, n - 1)):
            g = 0
            recs = []
            for i in range(n):
                if i > 0 and bits[i - 1]:
                    g += 1
                recs.append([i + 1, f"g{g}"])
            for lim in limits_list:
                for via in ('fmt', 'arg'):
                    if lim is None and via == 'arg':
                        continue
                    yield {
                        'family': 'accounting', 'mode': 'fields',
                        'fields': [{'name': 'id'}, {'name': 'grp'}],
                        'records': recs,
                        'columns': [{'field': 'id'}, {'field': 'grp', 'brk': True}],
                        'limits': lim, 'limits_via': via,
                    }


def random_desc(rnd, thorough):
    nrec = rnd.randint(0, 12 if thorough and rnd.random() < 0.3 else 8)
    if nrec == 0:
        mode = 'fields'
    else:
        mode = rnd.choices(['fields', 'namedtuple', 'path', 'attr'], [70, 12, 12, 6])[0]
    pool = NAMES_ANY if mode in ('fields', 'path') else NAMES_IDENT
    nf = rnd.randint(1, 4)
    names = rnd.sample(pool, nf)
    fields = []
    for nm in names:
        r = rnd.random()
        if r < 0.6:
            ty = None
        elif r < 0.85:
            ty = rnd.choice([ENUM_INT, ENUM_STR, ENUM_NONE])
        else:
            lo = rnd.choice([0, 1, 2, 4])
            ty = {'bounds': [lo, lo + rnd.choice([0, 1, 3, 10])]}
        f = {'name': nm, 'type': ty}
        r = rnd.random()
        if r < 0.07:
            f['title'] = 'A rather long title of the column'
        elif r < 0.14:
            f['title'] = rnd.choice(['two\nlines', ['top', 555], ['x\ny z', None, 2.5], 'T|+-'])
        fields.append(f)
    # values: per field a small palette (so that break-by runs occur) or the whole pool
    palettes = []
    for f in fields:
        ty = f['type']
        if ty and 'enum' in ty:
            base = enum_values_for(ty)
        else:
            base = VALUES
        if rnd.random() < 0.5:
            palettes.append(rnd.sample(base, min(len(base), rnd.randint(1, 3))))
        else:
            palettes.append(base)
    records = []
    for i in range(nrec):
        if records and rnd.random() < 0.3:
            rec = list(records[-1])
            j = rnd.randrange(nf)
            rec[j] = rnd.choice(palettes[j])
        else:
            rec = [rnd.choice(p) for p in palettes]
        records.append(rec)
    # columns
    must_cols = mode in ('path', 'attr')
    if not must_cols and rnd.random() < 0.2:
        columns = None
    else:
        ncol = rnd.randint(1, 5 if thorough else 3)
        columns = []
        for _ in range(ncol):
            j = rnd.randrange(nf)
            ty = fields[j]['type']
            col = {'field': names[j]}
            if ty and 'enum' in ty:
                col['mod'] = rnd.choice([None, 'val', 'name', 'full'])
            if rnd.random() < 0.25:
                col['brk'] = True
            col['w'] = rnd.choice(WIDTHS)
            columns.append(col)
        if rnd.random() < 0.15:
            j = rnd.randrange(nf)
            columns.insert(rnd.randint(0, len(columns)),
                           {'field': names[j], 'w': 'hidden', 'brk': rnd.random() < 0.3})
    desc = {'family': 'random', 'mode': mode, 'fields': fields, 'records': records, 'columns': columns}
    r = rnd.random()
    if r < 0.15:
        desc['header'] = 'Hdr'
    elif r < 0.2:
        desc['header'] = ''
    elif r < 0.5:
        desc['header'] = rnd.choice(['H', 'The header | of + the - table ', '+-', 'head ']) * rnd.randint(3, 30)
    r = rnd.random()
    if r < 0.1:
        desc['footer'] = ''
    elif r < 0.2:
        desc['footer'] = 'end'
    elif r < 0.5:
        desc['footer'] = rnd.choice(['F', 'Footer | + - text ', '+--', '|']) * rnd.randint(3, 30)
    if rnd.random() < 0.7:
        desc['limits'] = rnd.choice(LIMITS[1:] + (LIMITS_MORE if rnd.random() < 0.3 else []))
        desc['limits_via'] = rnd.choice(['fmt', 'arg'])
    else:
        desc['limits'] = None
    if rnd.random() < 0.3:
        desc['spaces'] = True
    if rnd.random() < 0.05:
        vis = [c.field for c in T.model_columns(desc, columns)]
        cand = [n for n in set(vis) if any(v != n for v in vis)]
        if cand:
            desc['skip'] = [sorted(cand)[rnd.randrange(len(cand))]]
    return desc


def _acc_desc(n, bits, lim, via, wide):
    g = 0
    recs = []
    for i in range(n):
        if i > 0 and bits[i - 1]:
            g += 1
        recs.append([(100 if wide else 1) + i, f"{'group-' if wide else 'g'}{g}"])
    d = {
        'family': 'accounting', 'mode': 'fields',
        'fields': [{'name': 'id'}, {'name': 'grp'}],
        'records': recs,
        'columns': [{'field': 'id'}, {'field': 'grp', 'brk': True}],
        'limits': lim, 'limits_via': via,
    }
    if wide:
        d['columns'].append({'field': 'id', 'w': [12, 14]})     # wide enough for a readable announcement
    return d


def family_interleaved(ns, limits_list):
    """D: every ordered pair (narrow accounting table, wide accounting table with one column more) over
    record counts `ns` x every pattern of break-by changes x limits, x the schedules zip / first table
    half consumed after 1, 4, 6 lines / the wide table first"""
    def side(wide):
        out = []
        for n in ns:
            for bits in itertools.product([0, 1], repeat=max(0, n - 1)):
                for lim in limits_list:
                    out.append(_acc_desc(n, bits, lim, 'arg' if (wide and lim is not None) else 'fmt', wide))
        return out
    left, right = side(False), side(True)
    for a in left:
        for c in right:
            for sch in ('zip', ['half', 1], ['half', 4], ['half', 6]):
                yield {'family': 'interleaved', 'tables': [a, c], 'schedule': sch}
            yield {'family': 'interleaved', 'tables': [c, a], 'schedule': 'zip'}
            yield {'family': 'interleaved', 'tables': [c, a], 'schedule': ['half', 5]}


def random_interleaved(rnd, thorough):
    """E: two or three random tables (sometimes the same table twice) x a schedule"""
    n = 3 if rnd.random() < 0.15 else 2
    tables = []
    for i in range(n):
        if i > 0 and rnd.random() < 0.12:
            j = rnd.randrange(i)
            if 'same_as' in tables[j]:
                j = tables[j]['same_as']
            tables.append({'same_as': j})
        else:
            tables.append(random_desc(rnd, thorough))
    r = rnd.random()
    if r < 0.4:
        sch = 'zip'
    elif r < 0.75:
        sch = ['half', rnd.randint(1, 9)]
    else:
        sch = ['seed', rnd.randrange(1000)]
    return {'family': 'interleaved', 'tables': tables, 'schedule': sch}


def _work(args):
    """worker: descriptions of one chunk -> compact results"""
    kind, payload = args
    if kind == 'list':
        descs = payload
    elif kind == 'seeded-interleaved':
        seed, chunk, n, thorough = payload
        rnd = random.Random(f"C12:interleaved:{seed}:{chunk}")
        descs = [random_interleaved(rnd, thorough) for _ in range(n)]
    else:
        seed, chunk, n, thorough = payload
        rnd = random.Random(f"C12:{seed}:{chunk}")
        descs = [random_desc(rnd, thorough) for _ in range(n)]
    out = []
    for d in descs:
        if d.get('family') == 'interleaved':
            nontrivial, hits, fails, diags = check_interleaved(d)
            out.append((d, nontrivial, sorted(hits), fails, diags))
        else:
            r = check_table(d)
            out.append((d, r.nontrivial, sorted(r.hits), [(c, k, t, d) for c, k, t in r.fails], r.diags))
    return out


def chunks(it, n):
    buf = []
    for x in it:
        buf.append(x)
        if len(buf) == n:
            yield buf
            buf = []
    if buf:
        yield buf


def sizes(tier):
    if tier == 'quick':
        return {'max_n': 8, 'limits': LIMITS, 'random': 12000,
                'il_ns': [2, 3, 4], 'il_limits': [None, [0, 0], [1, 0], [0, 1], [1, 1]],
                'il_random': 4000}
    return {'max_n': 10, 'limits': LIMITS + LIMITS_MORE, 'random': 300000,
            'il_ns': [1, 2, 3, 4, 5], 'il_limits': LIMITS + [[2, 1]], 'il_random': 100000}


def run(b):
    sz = sizes(b.tier)
    thorough = b.tier != 'quick'
    jobs = []
    for ch in chunks(family_cells(), 250):
        jobs.append(('list', ch))
    for ch in chunks(family_accounting(sz['max_n'], sz['limits']), 250):
        jobs.append(('list', ch))
    for ch in chunks(family_interleaved(sz['il_ns'], sz['il_limits']), 250):
        jobs.append(('list', ch))
    per = 250
    for k in range(sz['random'] // per):
        jobs.append(('seeded', (b.seed, k, per, thorough)))
    for k in range(sz['il_random'] // per):
        jobs.append(('seeded-interleaved', (b.seed, k, per, thorough)))
    ctx = multiprocessing.get_context('fork')
    with ctx.Pool(min(16, multiprocessing.cpu_count() or 1)) as pool:
        for out in pool.imap(_work, jobs, chunksize=1):
            for desc, nontrivial, hits, fails, diags in out:
                b.case(desc, nontrivial=nontrivial)
                for h in hits:
                    b.hit(h)
                for clause, ksuf, text, fcase in fails:
                    b.fail(f"C12.{clause}", f"C12.{clause}:{ksuf}", text, fcase)
                for dtxt in diags:
                    b.diag(dtxt)
    b.require_reach(REACH)


def replay_case(case):
    if case.get('family') == 'interleaved':
        _nt, _hits, fails, diags = check_interleaved(case)
        return (not fails), [f"{c}:{k}: {t}" for c, k, t, _case in fails] + diags
    r = check_table(case)
    return (not r.fails), [f"{c}:{k}: {t}" for c, k, t in r.fails] + r.diags
