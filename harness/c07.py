"""C07 bounded driver: component builds are reported at the first parent build that ships them;
repositories are analysed components first; cyclic dependencies are rejected.

Top-level clauses (from the property statement):

  repo_order          ReposCollection(repos) raises ValueError  <=>  the dependency graph restricted to the
                      supplied repositories has a cycle (self-dependency included); otherwise sorted_repos
                      is a permutation of the supplied ids with every component before its owners, and
                      make_reports_data analyses the repositories in such an order, handing each one
                      exactly the graphs of its supplied components.  Exhaustive: every dependency graph
                      over 4 repositories (65 536) and every graph over a proper subset of them with
                      dependencies on absent repositories, each under 3 supply orders.
  included_at_first   for every report-related component build Y (a build shown in the component's report)
                      included_at(Y), as a multiset, equals
                        { (parent, b_k, label(P)) : P in builds(b_k), pin(P) contains Y,
                                                    no build of b_k that is a strict ancestor of P has a pin
                                                    containing Y }
                      with builds(b_k) as in C06 (tagged commits of R_k \\ P_k and the head if not in P_k),
                      'pin(P) contains Y' = Y is the component commit named by the pin or one of its ancestors,
                      label = build number, 'not built' for an untagged head.
  pin_move_reported   every parent build P that is such a first build for some Y is itself shown in the
                      parent's report under its branch (whether or not it has a matching commit of its own).

Pre-conditions of the generated histories (the statement's, made precise): component build numbers grow
along ancestry; a component commit may carry two build tags (a rebuild) - both numbers name the same build;
every parent commit pins (by either number) a build-tagged component commit reachable from the component's
head; along every parent edge the pinned commit of the child is the pinned commit of the parent or a
descendant of it.  A component may have several branches provided no commit reachable from two of
its branch heads matches the search text (then 'the pinned version contains Y' means the same by ancestry
and by per-branch listing: every report-related build and everything that contains it is private to one
branch).  Commit times (the statement's 'within the cut-off windows', ak/ghist.py:38-48, 579-600,
1144-1156): a parent commit is never a day or more older than a component commit contained in the
build it pins (so that no parent commit whose pin contains a report-related component build is below
the component's cut-off 'oldest report-related build - 1 day', whichever builds are report-related),
and all commit times of the two repositories span less than 30 days (no branch head is 30 days older
than a report-related build).  'All times within one day' (the first family) is the special case.
Version numbers are non-negative integers: a fourth family repeats the first three with the releases and
build numbers of every repository replaced, order preserved, by numbers with components equal to 0
(release 0.9 on branch release/0.9 with tags build_N_release_0_9_success, release 0.0, build number 0,
version 0.0.0) - the oracle reads the numbers from the tags and the pins itself and compares them as
integers, so nothing in it depends on a number being positive.
"""
import itertools
import json
import multiprocessing
import random
import re
from collections import Counter

from harness import ghist_mock as gm
from harness import c06

PARENT, COMP = 'app', 'lib'
TEXT = 'BUG-7'
DAY = 86400
COMPONENT_WINDOW = DAY              # ak.ghist._CHECK_COMPONENTS_CUTOFF_PERIOD (read, not imported)
OBSOLETE_WINDOW = 30 * DAY          # ak.ghist._OBSOLETE_BRANCH_CUTOFF_PERIOD


# ------------------------------------------------------------------------------------------------
# repo_order (exhaustive)
# ------------------------------------------------------------------------------------------------

NAMES = ['a', 'b', 'c', 'd']


class StubRepo:
    """the part of ProjectRepo that ReposCollection touches"""

    def __init__(self, repo_id, deps, log):
        self.repo_id = repo_id
        self._COMPONENTS_VERSIONS_LOCATIONS = {d: 'DEPENDS' for d in deps}
        self._log = log

    def build_report_rgraph(self, search_text, components_rgraphs):
        self._log.append((self.repo_id, sorted(components_rgraphs),
                          all(v == ('graph-of', k) for k, v in components_rgraphs.items())))
        return ('graph-of', self.repo_id)


def has_cycle(deps, supplied):
    """deps: {repo: [components]}; cycle in the graph restricted to the supplied repositories"""
    sup = set(supplied)
    g = {r: [d for d in deps.get(r, []) if d in sup] for r in sup}
    state = {}

    def visit(r):
        state[r] = 1
        for d in g[r]:
            if state.get(d) == 1 or (d not in state and visit(d)):
                return True
        state[r] = 2
        return False
    return any(r not in state and visit(r) for r in sorted(sup))


def check_order(deps, order):
    """-> list of (key-suffix, text)"""
    from ak import ghist
    out = []
    log = []
    cyc = has_cycle(deps, order)
    descr = f"dependencies {json.dumps(deps, sort_keys=True)} supplied as {order}"
    try:
        with c06.guarded():
            coll = ghist.ReposCollection({r: StubRepo(r, deps.get(r, []), log) for r in order})
            sorted_repos = list(coll.sorted_repos)
    except ValueError:
        if not cyc:
            out.append(('ValueError-without-cycle', f"ValueError although there is no cycle: {descr}"))
        return out
    except c06.Budget:
        return [('budget', f"constructor does not return: {descr}")]
    except Exception as e:      # noqa
        return [('raises-' + type(e).__name__, f"{type(e).__name__}: {e} for {descr}")]
    if cyc:
        return [('cycle-accepted', f"cyclic dependencies accepted (sorted_repos={sorted_repos}): {descr}")]
    if sorted(sorted_repos) != sorted(order):
        return [('not-a-permutation', f"sorted_repos={sorted_repos}: {descr}")]
    for r in order:
        for d in deps.get(r, []):
            if d in order and sorted_repos.index(d) > sorted_repos.index(r):
                out.append(('owner-before-component', f"sorted_repos={sorted_repos} puts {r} before its "
                                                      f"component {d}: {descr}"))
    try:
        with c06.guarded():
            data = coll.make_reports_data('x')
    except c06.Budget:
        return out + [('budget', f"make_reports_data does not return: {descr}")]
    except Exception as e:      # noqa
        return out + [('raises-' + type(e).__name__, f"make_reports_data: {type(e).__name__}: {e} for {descr}")]
    done = []
    for rid, comps, intact in log:
        want = sorted(d for d in deps.get(rid, []) if d in order)
        if comps != want or not intact or any(c not in done for c in comps):
            out.append(('analysed-before-component',
                        f"{rid} analysed with component graphs {comps} (needs {want}; analysed so far {done}): {descr}"))
        done.append(rid)
    if sorted(done) != sorted(order):
        out.append(('not-all-analysed', f"analysed {done}: {descr}"))
    return out


def order_cases():
    """every supplied subset S of the 4 names x every assignment of component lists (subsets of the 4
    names, itself included) to the members of S x 3 supply orders"""
    for k in (4, 3, 2, 1):
        for sup in itertools.combinations(NAMES, k):
            subsets = [list(c) for r in range(5) for c in itertools.combinations(NAMES, r)]
            orders = []
            for o in (list(sup), list(sup)[::-1], list(sup)[1:] + list(sup)[:1]):
                if o not in orders:
                    orders.append(o)
            for choice in itertools.product(subsets, repeat=k):
                deps = {r: c for r, c in zip(sup, choice) if c}
                for o in orders:
                    yield deps, o


def _order_work(args):
    start, step = args
    out = []
    for i, (deps, order) in enumerate(order_cases()):
        if i % step != start:
            continue
        res = check_order(deps, order)
        if res:
            out.append((i, res))
    return out


# ------------------------------------------------------------------------------------------------
# histories: spec
# ------------------------------------------------------------------------------------------------

def build_versions(d):
    """[(major, minor, build)] of every build made from commit d (own parse of the tags), ascending.
    A commit may have been built several times: all its numbers denote the same build commit."""
    out = []
    for t in d.get('tags', []):
        p = gm.parse_build_tag(t)
        if p is not None:
            m = gm.RE_RELEASE_IN_TAG.match(p[1])
            if m:
                out.append((int(m.group(1)), int(m.group(2)), p[0]))
    return sorted(out)


def build_label(d, is_head):
    """how the report names the build made from commit d: its (smallest) build number"""
    v = build_versions(d)
    if v:
        return '.'.join(str(x) for x in v[0])
    return 'not built' if is_head else None


def pinned_commit(comp_hist, d):
    """the component commit named by the pin of parent commit d (None: no such build)"""
    try:
        ver = json.loads(d.get('files', {}).get('DEPENDS', '{}')).get(comp_hist['name'])
    except ValueError:
        ver = None
    if ver is None:
        return None
    try:
        want = tuple(int(x) for x in ver.split('.'))
    except ValueError:
        return None
    for c in comp_hist['commits']:
        if want in build_versions(c):
            return c['id']
    return None


def pinned_version(comp_hist, d):
    try:
        ver = json.loads(d.get('files', {}).get('DEPENDS', '{}')).get(comp_hist['name'])
        return tuple(int(x) for x in ver.split('.'))
    except (ValueError, AttributeError):
        return None


def expected_included(comp_hist, par_hist, ys):
    """-> ({Y: Counter{(parent, branch, label)}}, {branch: {P: [Y first shipped by P]}})"""
    csp = c06.Spec(comp_hist)
    psp = c06.Spec(par_hist)
    pin = {i: pinned_commit(comp_hist, d) for i, d in psp.commits.items()}
    exp = {y: Counter() for y in ys}
    firsts = {}
    for b in psp.order:
        builds = psp.builds[b]
        for P in builds:
            for y in ys:
                def cont(q):
                    return pin[q] is not None and csp.contains(pin[q], y)
                if cont(P) and not any(cont(P2) for P2 in builds if P2 != P and psp.contains(P, P2)):
                    exp[y][(par_hist['name'], b, build_label(psp.commits[P], P == psp.head[b]))] += 1
                    firsts.setdefault(b, {}).setdefault(P, []).append(y)
    return exp, firsts


def check(comp_hist, par_hist, text, obs_comp, obs_parent):
    """obs_comp: [(Y commit id, [(repo, branch, label)])] for every build shown in the component's report;
    obs_parent: {branch: [build commit ids shown]}.  -> (fails, facts)"""
    fails = []
    ys = [y for y, _ in obs_comp]
    exp, firsts = expected_included(comp_hist, par_hist, sorted(set(ys)))
    csp = c06.Spec(comp_hist)
    if len(comp_hist['branches']) > 1:
        shape = 'multi-branch-component'
    elif all(len(p) <= 1 for p in csp.parents.values()):
        shape = 'linear-component'
    else:
        shape = 'component-with-merges'
    if len(set(ys)) != len(ys):
        fails.append(('included_at_first', 'component-build-shown-twice', f"component builds shown: {ys}"))
    for y, incl in obs_comp:
        got = Counter(incl)
        want = exp[y]
        for k in sorted(set(got) | set(want), key=str):
            if got[k] < want[k]:
                fails.append(('included_at_first', 'missing:' + shape,
                              f"component build at commit {y} is first shipped by {k} but not recorded there "
                              f"(included_at={sorted(got.elements())})"))
            elif got[k] > want[k] and want[k] == 0:
                fails.append(('included_at_first', 'extra:' + shape,
                              f"component build at commit {y} recorded as included at {k}, which is not the first "
                              f"build of that branch shipping it (first: {sorted(want.elements())})"))
            elif got[k] > want[k]:
                fails.append(('included_at_first', 'repeated:' + shape,
                              f"component build at commit {y} recorded {got[k]} times at {k}"))
    for b, d in firsts.items():
        shown = obs_parent.get(b, [])
        for P, new in sorted(d.items()):
            if P not in shown:
                fails.append(('pin_move_reported', 'build-not-reported',
                              f"{par_hist['name']} {b}: build at commit {P} is the first to ship component build(s) "
                              f"{new} but is not in the report (reported: {shown})"))
    psp = c06.Spec(par_hist)
    M = psp.matching(text)
    pin = {i: pinned_commit(comp_hist, dd) for i, dd in psp.commits.items()}
    facts = {
        'distinct_pins': len({pin[P] for b in psp.order for P in psp.builds[b] if pin[P] is not None}),
        'move_across_2': any(len(new) >= 2 and any(P2 != P and psp.contains(P, P2) and
                                                   any(csp.contains(pin[P2], y) for y in ys if pin[P2] is not None)
                                                   for P2 in psp.builds[b])
                             for b, d in firsts.items() for P, new in d.items()),
        'pins_larger_of_two': any(
            pin[P] is not None and len(build_versions(csp.commits[pin[P]])) >= 2
            and pinned_version(comp_hist, psp.commits[P]) == build_versions(csp.commits[pin[P]])[-1]
            and pin[P] in ys
            for b in psp.order for P in psp.builds[b]),
        'first_without_own_match': any(not (M & psp.anc_or_self(P)) for d in firsts.values() for P in d),
        'shape': shape,
        'n_firsts': sum(len(d) for d in firsts.values()),
        'parallel_component_builds': shape == 'component-with-merges' and any(
            not csp.contains(x, y) and not csp.contains(y, x) for x, y in itertools.combinations(sorted(set(ys)), 2)),
    }
    facts.update(time_facts(csp, psp, sorted(set(ys)), firsts))
    facts.update(zero_facts(comp_hist, csp, psp, firsts))
    return fails, facts


def zero_facts(comp_hist, csp, psp, firsts):
    """reach facts about version components equal to 0 (spec side only): the versions of the
    report-related component builds some parent build first ships, the pins of those parent builds and
    the parent builds' own versions"""
    shipped = {y for d in firsts.values() for new in d.values() for y in new}
    cv = [v for y in shipped for v in build_versions(csp.commits[y])]
    first_builds = [P for d in firsts.values() for P in d]
    pins = [pinned_version(comp_hist, psp.commits[P]) for P in first_builds]
    pv = [v for P in first_builds for v in build_versions(psp.commits[P])]
    return {
        'zero_component_major': any(v[0] == 0 for v in cv),
        'zero_component_minor': any(v[1] == 0 for v in cv),
        'zero_component_build': any(v[2] == 0 for v in cv),
        'zero_component_version': any(v == (0, 0, 0) for v in cv),
        'zero_pin': any(v is not None and v[0] == 0 and v[2] == 0 for v in pins),
        'zero_parent_major': any(v[0] == 0 for v in pv),
        'zero_parent_build': any(v[2] == 0 for v in pv),
    }


def time_facts(csp, psp, ys, firsts):
    """reach facts about commit dates and component branches (spec side only)"""
    def ct(y):
        return csp.commits[y].get('t', 0)

    def pt(q):
        return psp.commits[q].get('t', 0)
    # the component branch a report-related build belongs to: the first branch (spec order) reaching it
    branch_of = {}
    for y in ys:
        for b in csp.order:
            if y in csp.R[b]:
                branch_of[y] = b
                break
    with_builds = [b for b in csp.order if any(branch_of.get(y) == b for y in ys)]
    first_builds = [(P, new) for d in firsts.values() for P, new in d.items()]
    older = any(pt(P) <= ct(y2) - DAY for P, _ in first_builds for y2 in ys)
    backport = False
    if len(with_builds) >= 2:
        low = [y for y in ys if branch_of.get(y) == with_builds[0]]
        oldest = min(ys, key=lambda y: (ct(y), y))
        if branch_of.get(oldest) != with_builds[0]:
            backport = any(oldest in new and pt(P) <= min(ct(y) for y in low) - DAY for P, new in first_builds)
    allt = [d.get('t', 0) for d in csp.commits.values()] + [d.get('t', 0) for d in psp.commits.values()]
    return {
        'component_branches_with_builds': len(with_builds),
        'first_older_than_other_build': older,
        'backport_pattern': backport,
        'span_days': (max(allt) - min(allt)) // DAY,
    }


# ------------------------------------------------------------------------------------------------
# histories: running the real code
# ------------------------------------------------------------------------------------------------

def label_of(bn):
    if bn.is_fake_not_built():
        return 'not built'
    if bn.is_fake_not_merged():
        return 'not merged'
    return str(bn)


def run_reports(comps, par_hist, text, supply):
    """comps: component histories in the order the owner declares them; supply: repository ids in the
    order they are handed to ReposCollection.  -> ({component: obs_comp}, obs_parent, error)"""
    from ak import ghist
    try:
        with c06.guarded():
            projects = {c['name']: gm.project(c['name'], c) for c in comps}
            projects[par_hist['name']] = gm.project(par_hist['name'], par_hist,
                                                    components=[c['name'] for c in comps])
            data = dict(ghist.ReposCollection({r: projects[r] for r in supply}).make_reports_data(text))
            obs = {}
            for c in comps:
                obs_comp = obs[c['name']] = []
                for rbranch in data[c['name']].branches:
                    for rb in rbranch.get_rbuilds_list():
                        if rb.rcommit is None:
                            continue
                        obs_comp.append((rb.rcommit.commit.intid,
                                         [(str(x[0]), str(x[1]), label_of(x[2])) for x in rb.included_at]))
            obs_parent = {}
            for rbranch in data[par_hist['name']].branches:
                obs_parent[str(rbranch.branch_name)] = [
                    rb.rcommit.commit.intid for rb in rbranch.get_rbuilds_list() if rb.rcommit is not None]
        return obs, obs_parent, None
    except c06.Budget:
        return None, None, f"no result within {c06.CALL_BUDGET_S} s"
    except Exception as e:      # noqa
        return None, None, f"{type(e).__name__}: {e}"


def run_report(comp_hist, par_hist, text, supply_parent_first=True):
    """-> (obs_comp, obs_parent, error)"""
    supply = [par_hist['name'], comp_hist['name']]
    if not supply_parent_first:
        supply.reverse()
    obs, obs_parent, err = run_reports([comp_hist], par_hist, text, supply)
    if err is not None:
        return None, None, err
    return obs[comp_hist['name']], obs_parent, None


def evaluate(case):
    if 'libs' in case:
        return evaluate_multi(case)
    comp_hist, par_hist, text = case['lib'], case['app'], case['text']
    obs_comp, obs_parent, err = run_report(comp_hist, par_hist, text, case.get('parent_first', True))
    if err is not None:
        _, facts = check(comp_hist, par_hist, text, [], {})
        kind = 'budget' if err.startswith('no result') else 'raises-' + err.split(':')[0]
        return [('included_at_first', kind, f"make_reports_data({text!r}) gives no report: {err}")], facts, None
    fails, facts = check(comp_hist, par_hist, text, obs_comp, obs_parent)
    return fails, facts, {'component_builds': obs_comp, 'parent_builds': obs_parent}


# ---- an owner repository pinning several components ----

SEVERAL = 'several-components'


def same_shape(x, y):
    """two component histories that differ in nothing the reduction of the history looks at: the same
    commit ids, parents, branches, the same commits built (equally often) and matching"""
    def sig(h):
        return (sorted((d['id'], tuple(d.get('parents', [])), len(build_versions(d)), TEXT in d.get('msg', ''))
                       for d in h['commits']),
                sorted((b, hd) for b, hd in h['branches']))
    return sig(x) == sig(y)


def check_multi(comps, par_hist, text, obs, obs_parent):
    """the statement's clauses hold for every component the owner pins, each on its own: what is demanded
    for the builds of one component is a function of that component's history, of the owner's history and
    of the owner's pins of THAT component only.
    obs: {component: obs_comp as in check()}.  -> (fails, facts)"""
    fails, per = [], {}
    for comp in comps:
        f, facts = check(comp, par_hist, text, obs.get(comp['name'], []), obs_parent)
        per[comp['name']] = facts
        for clause, ksuf, txt in f:
            if clause == 'included_at_first':
                ksuf = ksuf.split(':')[0] + ':' + SEVERAL
            fails.append((clause, ksuf, f"[component {comp['name']}] {txt}"))
    merged = {}
    for facts in per.values():
        for k, v in facts.items():
            if isinstance(v, bool):
                merged[k] = merged.get(k, False) or v
            elif isinstance(v, int):
                merged[k] = max(merged.get(k, 0), v)
    merged['n_firsts'] = sum(f['n_firsts'] for f in per.values())
    merged['shape'] = SEVERAL
    # facts about the interplay of the pins (spec side only)
    psp = c06.Spec(par_hist)
    info = {}
    for comp in comps:
        ys = sorted({y for y, _ in obs.get(comp['name'], [])})
        _, firsts = expected_included(comp, par_hist, ys)
        csp = c06.Spec(comp)
        pin = {i: pinned_commit(comp, d) for i, d in psp.commits.items()}
        info[comp['name']] = (comp, csp, pin, ys, firsts)
    one_moves = same_position = both_move = False
    for x_info, y_info in itertools.permutations(info.values(), 2):
        xc, xsp, xpin, xys, xfirsts = x_info
        yc, _, ypin, _, yfirsts = y_info
        for b, d in yfirsts.items():
            for P in d:
                if P in xfirsts.get(b, {}):
                    both_move = True
                    continue
                # the pin of X names a build with report content and is what an earlier build of the branch
                # pinned already, while the pin of Y moved across a report-related build
                if xpin[P] is None or not any(xsp.contains(xpin[P], y) for y in xys):
                    continue
                earlier = [P2 for P2 in psp.builds[b] if P2 != P and psp.contains(P, P2)]
                if any(xpin[P2] == xpin[P] and ypin[P2] != ypin[P] for P2 in earlier):
                    one_moves = True
                    if ypin[P] == xpin[P] and same_shape(xc, yc):
                        same_position = True
    allt = [d.get('t', 0) for h in list(comps) + [par_hist] for d in h['commits']]
    merged['span_days'] = (max(allt) - min(allt)) // DAY
    merged.update({
        'components': len(comps),
        'components_with_firsts': sum(1 for v in info.values() if any(v[4].values())),
        'one_pin_moves': one_moves,
        'one_pin_moves_to_twin_position': same_position,
        'two_pins_move_at_once': both_move,
    })
    return fails, merged


def evaluate_multi(case):
    comps, par_hist, text = case['libs'], case['app'], case['text']
    supply = case.get('supply') or [par_hist['name']] + [c['name'] for c in comps]
    obs, obs_parent, err = run_reports(comps, par_hist, text, supply)
    if err is not None:
        _, facts = check_multi(comps, par_hist, text, {}, {})
        kind = 'budget' if err.startswith('no result') else 'raises-' + err.split(':')[0]
        return [('included_at_first', kind, f"make_reports_data({text!r}) gives no report: {err}")], facts, None
    fails, facts = check_multi(comps, par_hist, text, obs, obs_parent)
    return fails, facts, {'component_builds': obs, 'parent_builds': obs_parent}


# ------------------------------------------------------------------------------------------------
# histories: generator
# ------------------------------------------------------------------------------------------------

def gen_component(rnd):
    """one-branch component history: a chain, a random DAG, or a 'braid' (a main line with fork/join
    segments whose arms carry builds - parallel tagged sub-branches)"""
    mode = rnd.choice(['linear', 'linear', 'dag', 'braid', 'braid'])
    if mode == 'braid':
        plist = [[]]
        tip = 1
        while len(plist) < 8:
            room = 8 - len(plist)
            if room >= 3 and rnd.random() < .6:
                arms = []
                for _ in range(2):
                    prev = tip
                    for _ in range(rnd.choice([1, 1, 2]) if room >= 5 else 1):
                        plist.append([prev])
                        prev = len(plist)
                    arms.append(prev)
                plist.append(arms if rnd.random() < .5 else arms[::-1])
                tip = len(plist)
            else:
                plist.append([tip])
                tip = len(plist)
            if rnd.random() < .25:
                break
        n = len(plist)
        p_tag, p_match = rnd.choice([.5, .8]), rnd.choice([.4, .7])
        tagged = {i for i in range(1, n + 1) if rnd.random() < p_tag} or {n}
        match = {i for i in range(1, n + 1) if rnd.random() < p_match} or {1}
    else:
        n = rnd.randint(2, 8)
        plist = []
        for i in range(1, n + 1):
            if i == 1:
                parents = []
            elif mode == 'linear' or i == 2:
                parents = [i - 1]
            else:
                r = rnd.random()
                if r < .3:
                    parents = sorted(rnd.sample(range(1, i), 2), reverse=rnd.random() < .5)
                elif r < .65:
                    parents = [i - 1]
                else:
                    parents = [rnd.randrange(1, i)]
            plist.append(parents)
        tagged = set(rnd.sample(range(1, n + 1), rnd.randint(1, min(5, n))))
        if rnd.random() < .5:
            tagged.add(n)
        match = set(rnd.sample(range(1, n + 1), rnd.randint(1, min(4, n))))
    commits = []
    num = rnd.randint(1, 5)
    p_rebuild = rnd.choice([0, 0, .3, .6])
    times = sorted(rnd.randrange(40000) for _ in range(n))
    for i in range(1, n + 1):
        d = {'id': i, 'parents': plist[i - 1], 't': times[i - 1],
             'msg': f"{TEXT} lib change {i}" if i in match else f"lib work {i}"}
        if i in tagged:
            d['tags'] = [gm.release_tag(num, 3, 1)]
            if rnd.random() < p_rebuild:
                num += rnd.randint(1, 2)
                d['tags'].append(gm.release_tag(num, 3, 1))       # the same commit built again
                if rnd.random() < .5:
                    d['tags'].reverse()
            num += rnd.randint(1, 3)
        commits.append(d)
    return {'name': COMP, 'commits': commits, 'branches': [[rnd.choice(['master', 'release/3.1']), n]]}


def gen_parent(rnd, comp_hist):
    csp = c06.Spec(comp_hist)
    (cb, chead), = comp_hist['branches']
    targets = [c['id'] for c in comp_hist['commits']
               if gm.is_build_commit(c) and c['id'] in csp.anc_or_self(chead)]
    if not targets:
        return None
    versions = {c['id']: build_versions(c) for c in comp_hist['commits']}
    pinver = {}
    n = rnd.randint(2, 10)
    commits = []
    pins = {}
    times = sorted(40000 + rnd.randrange(40000) for _ in range(n))
    if rnd.random() < .4:
        tagged = {i for i in range(1, n + 1) if rnd.random() < .7}       # densely built parent
    else:
        tagged = set(rnd.sample(range(1, n + 1), rnd.randint(0, min(5, n))))
    match = set(rnd.sample(range(1, n + 1), rnd.choice([0, 0, 1, 2])))
    roots = 1 if rnd.random() < .85 else 2
    stay = rnd.choice([.3, .6, .8])
    for i in range(1, n + 1):
        if i <= roots:
            parents = []
        else:
            r = rnd.random()
            if r < .2 and i > 2:
                parents = sorted(rnd.sample(range(1, i), 2), reverse=rnd.random() < .5)
            elif r < .75:
                parents = [i - 1]
            else:
                parents = [rnd.randrange(1, i)]
        cands = [t for t in targets if all(csp.contains(t, pins[p]) for p in parents)]
        if not cands:
            return None
        keep = [t for t in cands if any(pins[p] == t for p in parents)]
        if keep and rnd.random() < stay:
            pins[i] = rnd.choice(keep)
        elif not parents:
            pins[i] = cands[0] if rnd.random() < .6 else rnd.choice(cands)
        else:
            pins[i] = rnd.choice(cands)
        # any build number of the pinned commit that is not below a parent's pinned number
        floor = max([pinver[p] for p in parents], default=(0, 0, 0))
        pinver[i] = rnd.choice([v for v in versions[pins[i]] if v >= floor])
        d = {'id': i, 'parents': parents, 't': times[i - 1],
             'msg': f"{TEXT} app change {i}" if i in match else f"app work {i}",
             'files': {'DEPENDS': json.dumps({COMP: '.'.join(str(x) for x in pinver[i])})}}
        if i in tagged:
            d['tags'] = [gm.release_tag(10 + i, 5, rnd.choice([4, 5]))]
        commits.append(d)
    names = rnd.sample(['release/5.4', 'release/5.5', 'release/5.10'], rnd.randint(0, 2)) + ['master']
    branches = []
    for nm in names:
        if rnd.random() < .5:
            head = rnd.randint(max(1, n - 2), n)
        else:
            head = rnd.randint(1, n)
        branches.append([nm, head])
    rnd.shuffle(branches)
    return {'name': PARENT, 'commits': commits, 'branches': branches}


# ---- second family: commit dates spread over several days, components with several branches ----

SPREAD_BASE = 1_000_000          # case indices >= SPREAD_BASE belong to the second family
COMP_BRANCH_NAMES = ['release/3.1', 'release/3.2', 'release/3.10', 'master']


def _delta(rnd):
    """time between a commit and its latest parent: minutes .. hours, or up to 2.5 days"""
    return rnd.randint(60, 20000) if rnd.random() < .55 else rnd.randint(20000, 5 * DAY // 2)


def _retime(rnd, hist, lag=None):
    """explicit commit dates growing along ancestry (ids of the generated histories are topological);
    lag: {commit id: extra seconds} - work on a branch may start long after the branch point"""
    t = {}
    for d in hist['commits']:
        t[d['id']] = (max([t[p] for p in d['parents']], default=rnd.randint(0, DAY)) + _delta(rnd)
                      + (lag or {}).get(d['id'], 0))
        d['t'] = t[d['id']]


def gen_component_branches(rnd):
    """component with 2-3 branches forking from a common trunk: the trunk (1-3 commits, some built, none
    matching) is shared, every branch has a private part of 0-4 commits (a chain, or fork/join segments)
    carrying builds and matching commits; the branches never merge one another.  Dates grow along
    ancestry, independently per branch (any branch may hold the oldest report-related build); build
    numbers are given in the order of the dates (a CI counter), with one release in all tags or one
    release per branch (the trunk has the smallest)."""
    nb = rnd.choice([2, 2, 2, 3])
    names = rnd.sample(COMP_BRANCH_NAMES, nb)
    commits = []

    def new(parents, kind):
        d = {'id': len(commits) + 1, 'parents': list(parents), 'kind': kind}
        commits.append(d)
        return d['id']
    tip = None
    trunk = []
    for _ in range(rnd.randint(1, 3)):
        tip = new([tip] if tip else [], 'trunk')
        trunk.append(tip)
    branches = []
    empty_used = False
    lag = {}
    for k, nm in enumerate(names):
        tip = trunk[-1] if rnd.random() < .6 else rnd.choice(trunk)
        m = rnd.randint(1, 4)
        if not empty_used and rnd.random() < .08:
            m, empty_used = 0, True
        made = 0
        if m and rnd.random() < .4:
            lag[len(commits) + 1] = rnd.randint(DAY, 6 * DAY)      # e.g. a back-port made days later
        while made < m:
            if m - made >= 3 and rnd.random() < .3:
                a, c = new([tip], k), new([tip], k)
                tip = new([a, c] if rnd.random() < .5 else [c, a], k)
                made += 3
            else:
                tip = new([tip], k)
                made += 1
        branches.append([nm, tip])
    _retime(rnd, {'commits': commits}, lag)
    p_tag, p_match = rnd.choice([.5, .8]), rnd.choice([.4, .7])
    private = [d for d in commits if d['kind'] != 'trunk']
    tagged = {d['id'] for d in private if rnd.random() < p_tag}
    tagged |= {d['id'] for d in commits if d['kind'] == 'trunk' and rnd.random() < (.8 if d['id'] == 1 else .4)}
    match = {d['id'] for d in private if rnd.random() < p_match} or {rnd.choice(private)['id']}
    per_branch_release = rnd.random() < .5
    rel = {nm: (3, 1 + i) for i, nm in enumerate(sorted(names, key=c06.branch_sort_key))}
    p_rebuild = rnd.choice([0, 0, .3])
    num = rnd.randint(1, 5)
    for d in sorted(commits, key=lambda d: (d['t'], d['id'])):
        i = d['id']
        d['msg'] = f"{TEXT} lib change {i}" if i in match else f"lib work {i}"
        if i in tagged:
            major, minor = (3, 0) if d['kind'] == 'trunk' else rel[names[d['kind']]]
            if not per_branch_release:
                major, minor = 3, 1
            d['tags'] = [gm.release_tag(num, major, minor)]
            if rnd.random() < p_rebuild:
                num += rnd.randint(1, 2)
                d['tags'].append(gm.release_tag(num, major, minor))
                if rnd.random() < .5:
                    d['tags'].reverse()
            num += rnd.randint(1, 3)
    for d in commits:
        del d['kind']
    rnd.shuffle(branches)
    return {'name': COMP, 'commits': commits, 'branches': branches}


def gen_parent_spread(rnd, comp_hist):
    """as gen_parent, for a component with any number of branches and explicit dates: a parent commit is
    made after its parents and - normally - after the component build it pins (in 15 % of the commits its
    clock is behind by less than a day); a merge of two lines that follow different component branches
    cannot have a monotone pin, such a commit gets one parent instead"""
    csp = c06.Spec(comp_hist)
    reach = set()
    for _, h in comp_hist['branches']:
        reach |= csp.anc_or_self(h)
    targets = [c['id'] for c in comp_hist['commits'] if gm.is_build_commit(c) and c['id'] in reach]
    if not targets:
        return None
    ctime = {c['id']: c['t'] for c in comp_hist['commits']}
    versions = {c['id']: build_versions(c) for c in comp_hist['commits']}
    pinver, pins, ptime = {}, {}, {}
    n = rnd.randint(2, 10)
    commits = []
    if rnd.random() < .4:
        tagged = {i for i in range(1, n + 1) if rnd.random() < .7}
    else:
        tagged = set(rnd.sample(range(1, n + 1), rnd.randint(0, min(5, n))))
    match = set(rnd.sample(range(1, n + 1), rnd.choice([0, 0, 1, 2])))
    roots = 1 if rnd.random() < .85 else 2
    stay = rnd.choice([.3, .6, .8])
    for i in range(1, n + 1):
        if i <= roots:
            parents = []
        else:
            r = rnd.random()
            if r < .2 and i > 2:
                parents = sorted(rnd.sample(range(1, i), 2), reverse=rnd.random() < .5)
            elif r < .7:
                parents = [i - 1]
            else:
                parents = [rnd.randrange(1, i)]
        cands = [t for t in targets if all(csp.contains(t, pins[p]) for p in parents)]
        if not cands and len(parents) == 2:
            parents = parents[:1]
            cands = [t for t in targets if csp.contains(t, pins[parents[0]])]
        if not cands:
            return None
        keep = [t for t in cands if any(pins[p] == t for p in parents)]
        if keep and rnd.random() < stay:
            pins[i] = rnd.choice(keep)
        elif not parents:
            pins[i] = cands[0] if rnd.random() < .6 else rnd.choice(cands)
        else:
            pins[i] = rnd.choice(cands)
        floor = max([pinver[p] for p in parents], default=(0, 0, 0))
        vs = [v for v in versions[pins[i]] if v >= floor]
        if not vs:
            return None
        pinver[i] = rnd.choice(vs)
        # dates: later than the parents; relative to the pinned build (the youngest component commit it
        # contains, dates grow along the component's ancestry): after it, or behind it by < 1 day
        newest = max(ctime[c] for c in csp.anc_or_self(pins[i]))
        if rnd.random() < .15:
            after = newest - rnd.randint(0, COMPONENT_WINDOW - 1)
        else:
            after = newest + (rnd.randint(60, 20000) if rnd.random() < .6 else rnd.randint(20000, 2 * DAY))
        ptime[i] = max([ptime[p] + _delta(rnd) for p in parents] + [after])
        d = {'id': i, 'parents': parents, 't': ptime[i],
             'msg': f"{TEXT} app change {i}" if i in match else f"app work {i}",
             'files': {'DEPENDS': json.dumps({COMP: '.'.join(str(x) for x in pinver[i])})}}
        if i in tagged:
            d['tags'] = [gm.release_tag(10 + i, 5, rnd.choice([4, 5]))]
        commits.append(d)
    names = rnd.sample(['release/5.4', 'release/5.5', 'release/5.10'], rnd.randint(0, 2)) + ['master']
    branches = []
    for nm in names:
        head = rnd.randint(max(1, n - 2), n) if rnd.random() < .5 else rnd.randint(1, n)
        branches.append([nm, head])
    rnd.shuffle(branches)
    return {'name': PARENT, 'commits': commits, 'branches': branches}


def gen_case_spread(seed, index):
    rnd = random.Random(seed * 7_000_003 + SPREAD_BASE * 31 + index)
    while True:
        if rnd.random() < .3:
            comp = gen_component(rnd)           # one branch (chain / DAG / braid), re-dated
            _retime(rnd, comp)
        else:
            comp = gen_component_branches(rnd)
        par = gen_parent_spread(rnd, comp)
        if par is None:
            continue
        case = {'lib': comp, 'app': par, 'text': TEXT, 'parent_first': rnd.random() < .5}
        if preconditions_hold(case):
            return case


# ---- third family: an owner repository pinning 2-3 components ----

MULTI_BASE = 2_000_000           # case indices >= MULTI_BASE belong to the third family
COMP_NAMES = ['abc', 'kit', 'lib', 'zed']       # before and after the owner's name in every usual ordering


def _as_component(comp, name, major, shift):
    """the same history as another repository: renamed, its releases numbered major.x, all build numbers
    shifted by `shift` (order and distinctness are preserved)"""
    out = json.loads(json.dumps(comp))
    out['name'] = name
    for d in out['commits']:
        tags = []
        for t in d.get('tags', []):
            parsed = gm.parse_build_tag(t)
            m = parsed and gm.RE_RELEASE_IN_TAG.match(parsed[1])
            tags.append(gm.release_tag(parsed[0] + shift, major, int(m.group(2))) if m else t)
        if tags:
            d['tags'] = tags
    return out


def gen_parent_multi(rnd, comps, spread):
    """owner of several components: as gen_parent / gen_parent_spread with one pin per component in every
    commit, every pin monotone on its own; which pins move in a commit is drawn per component, so builds
    moving one pin, several pins or none all occur"""
    k = len(comps)
    specs = [c06.Spec(c) for c in comps]
    targets, versions, ctime = [], [], []
    for comp, csp in zip(comps, specs):
        reach = set()
        for _, h in comp['branches']:
            reach |= csp.anc_or_self(h)
        tg = [c['id'] for c in comp['commits'] if gm.is_build_commit(c) and c['id'] in reach]
        if not tg:
            return None
        targets.append(tg)
        versions.append({c['id']: build_versions(c) for c in comp['commits']})
        ctime.append({c['id']: c.get('t', 0) for c in comp['commits']})
    n = rnd.randint(2, 10)
    if rnd.random() < .4:
        tagged = {i for i in range(1, n + 1) if rnd.random() < .7}
    else:
        tagged = set(rnd.sample(range(1, n + 1), rnd.randint(0, min(5, n))))
    match = set(rnd.sample(range(1, n + 1), rnd.choice([0, 0, 0, 1, 2])))
    roots = 1 if rnd.random() < .85 else 2
    stay = rnd.choice([.5, .7, .85])
    key_order = list(range(k))
    rnd.shuffle(key_order)
    flat_times = sorted(40000 + rnd.randrange(40000) for _ in range(n))
    pins, pinver, ptime = {}, {}, {}
    commits = []

    def candidates(parents):
        return [[t for t in targets[j] if all(specs[j].contains(t, pins[p][j]) for p in parents)]
                for j in range(k)]
    for i in range(1, n + 1):
        if i <= roots:
            parents = []
        else:
            r = rnd.random()
            if r < .2 and i > 2:
                parents = sorted(rnd.sample(range(1, i), 2), reverse=rnd.random() < .5)
            elif r < .72:
                parents = [i - 1]
            else:
                parents = [rnd.randrange(1, i)]
        cands = candidates(parents)
        if not all(cands) and len(parents) == 2:
            parents = parents[:1]           # the two lines cannot be merged with monotone pins
            cands = candidates(parents)
        if not all(cands):
            return None
        pins[i], pinver[i] = [], []
        for j in range(k):
            keep = [t for t in cands[j] if any(pins[p][j] == t for p in parents)]
            if keep and rnd.random() < stay:
                pj = rnd.choice(keep)
            elif not parents:
                pj = cands[j][0] if rnd.random() < .6 else rnd.choice(cands[j])
            else:
                pj = rnd.choice(cands[j])
            floor = max([pinver[p][j] for p in parents], default=(0, 0, 0))
            vs = [v for v in versions[j][pj] if v >= floor]
            if not vs:
                return None
            pins[i].append(pj)
            pinver[i].append(rnd.choice(vs))
        if spread:
            # after the parents; after every pinned build, or behind the youngest of them by < 1 day
            newest = max(ctime[j][c] for j in range(k) for c in specs[j].anc_or_self(pins[i][j]))
            if rnd.random() < .15:
                after = newest - rnd.randint(0, COMPONENT_WINDOW - 1)
            else:
                after = newest + (rnd.randint(60, 20000) if rnd.random() < .6 else rnd.randint(20000, 2 * DAY))
            ptime[i] = max([ptime[p] + _delta(rnd) for p in parents] + [after])
        else:
            ptime[i] = flat_times[i - 1]
        depends = {comps[j]['name']: '.'.join(str(x) for x in pinver[i][j]) for j in key_order}
        d = {'id': i, 'parents': parents, 't': ptime[i],
             'msg': f"{TEXT} app change {i}" if i in match else f"app work {i}",
             'files': {'DEPENDS': json.dumps(depends)}}
        if i in tagged:
            d['tags'] = [gm.release_tag(10 + i, 5, rnd.choice([4, 5]))]
        commits.append(d)
    names = rnd.sample(['release/5.4', 'release/5.5', 'release/5.10'], rnd.randint(0, 2)) + ['master']
    branches = []
    for nm in names:
        head = rnd.randint(max(1, n - 2), n) if rnd.random() < .5 else rnd.randint(1, n)
        branches.append([nm, head])
    rnd.shuffle(branches)
    return {'name': PARENT, 'commits': commits, 'branches': branches}


def gen_case_multi(seed, index):
    """2-3 components, each drawn as in the first two families or an identically shaped copy of an earlier
    one (another repository with the same history: other name, other numbers), declared by the owner and
    supplied to ReposCollection in any order"""
    rnd = random.Random(seed * 7_000_003 + MULTI_BASE * 31 + index)
    while True:
        spread = rnd.random() < .3
        k = rnd.choice([2, 2, 2, 3])
        names = rnd.sample(COMP_NAMES, k)
        same_numbers = rnd.random() < .4        # the components' versions may coincide, too
        comps = []
        for j in range(k):
            if comps and rnd.random() < .45:
                base = rnd.choice(comps)
            elif not spread:
                base = gen_component(rnd)
            elif rnd.random() < .3:
                base = gen_component(rnd)
                _retime(rnd, base)
            else:
                base = gen_component_branches(rnd)
            comps.append(_as_component(base, names[j], 3 if same_numbers else 3 + j,
                                       0 if rnd.random() < .5 else rnd.randint(1, 4)))
        par = gen_parent_multi(rnd, comps, spread)
        if par is None:
            continue
        supply = [PARENT] + names
        rnd.shuffle(supply)
        case = {'libs': comps, 'app': par, 'text': TEXT, 'supply': supply}
        if preconditions_hold(case):
            return case


# ---- fourth family: version numbers with components equal to 0 ----

ZERO_BASE = 3_000_000            # case indices >= ZERO_BASE belong to the fourth family
# (major, minor) of a release, ascending; all but three of them have a 0 component
ZERO_RELEASES = [(0, 0), (0, 1), (0, 9), (0, 10), (1, 0), (1, 1), (2, 0), (3, 0), (3, 1), (5, 4), (10, 0)]
RE_RELEASE_BRANCH = re.compile(r"release/(\d+)\.(\d+)$")


def _release_of_tag(tag):
    """(build, major, minor) of a standard release build tag, else None"""
    parsed = gm.parse_build_tag(tag)
    m = parsed and gm.RE_RELEASE_IN_TAG.match(parsed[1])
    return (parsed[0], int(m.group(1)), int(m.group(2))) if m else None


def _draw_releases(rnd, k):
    """k distinct releases in ascending order; three times out of four the lowest has major version 0"""
    while k:
        got = sorted(rnd.sample(ZERO_RELEASES, k))
        if got[0][0] == 0 or rnd.random() < .25:
            return got
    return []


def _renumber(rnd, hist):
    """the same history with other version numbers: the releases named in its build tags are replaced,
    order preserved, by releases drawn from ZERO_RELEASES; all build numbers are lowered by the same
    amount (half of the time so that the lowest becomes 0); release branches are renamed, order preserved
    (a one-branch, one-release repository gets the branch of its release: 'release/0.9' with tags
    build_N_release_0_9_success).  -> (new history, map old (major, minor, build) -> new)"""
    out = json.loads(json.dumps(hist))
    tags = [r for d in out['commits'] for r in map(_release_of_tag, d.get('tags', [])) if r]
    old_rel = sorted({(r[1], r[2]) for r in tags})
    rel_map = dict(zip(old_rel, _draw_releases(rnd, len(old_rel))))
    low = min([r[0] for r in tags], default=0)
    shift = low if rnd.random() < .5 else rnd.randint(0, low)
    vmap = {(M, m, n): rel_map[(M, m)] + (n - shift,) for n, M, m in tags}
    for d in out['commits']:
        new = []
        for t in d.get('tags', []):
            r = _release_of_tag(t)
            new.append(gm.release_tag(r[0] - shift, *rel_map[(r[1], r[2])]) if r else t)
        if new:
            d['tags'] = new
    rel_branches = sorted((b for b, _ in out['branches'] if RE_RELEASE_BRANCH.match(b)),
                          key=c06.branch_sort_key)
    if len(out['branches']) == 1 and len(rel_branches) == 1 and len(old_rel) == 1:
        names = [rel_map[old_rel[0]]]
    else:
        names = _draw_releases(rnd, len(rel_branches))
    bmap = {b: f"release/{M}.{m}" for b, (M, m) in zip(rel_branches, names)}
    out['branches'] = [[bmap.get(b, b), h] for b, h in out['branches']]
    return out, vmap


def gen_case_zero(seed, index):
    """a case of the first three families (1/3 each) with the versions of every repository renumbered by
    _renumber and the owner's pins rewritten accordingly: nothing but the numbers (and the names of the
    release branches) changes, every order between versions and between branches is preserved"""
    rnd = random.Random(seed * 7_000_003 + ZERO_BASE * 31 + index)
    while True:
        fam = rnd.choice([0, SPREAD_BASE, MULTI_BASE])
        base = gen_case(seed, fam + 500_000 + rnd.randrange(400_000))     # indices no other family uses
        comps = base['libs'] if 'libs' in base else [base['lib']]
        new_comps, vmaps = [], {}
        for comp in comps:
            nc, vmaps[comp['name']] = _renumber(rnd, comp)
            new_comps.append(nc)
        par, _ = _renumber(rnd, base['app'])
        for d in par['commits']:
            dep = json.loads(d['files']['DEPENDS'])
            for name in dep:
                dep[name] = '.'.join(str(x) for x in vmaps[name][tuple(int(x) for x in dep[name].split('.'))])
            d['files']['DEPENDS'] = json.dumps(dep)
        case = dict(base, app=par)
        if 'libs' in base:
            case['libs'] = new_comps
        else:
            case['lib'] = new_comps[0]
        if preconditions_hold(case):
            return case


def gen_case(seed, index):
    if index >= ZERO_BASE:
        return gen_case_zero(seed, index - ZERO_BASE)
    if index >= MULTI_BASE:
        return gen_case_multi(seed, index - MULTI_BASE)
    if index >= SPREAD_BASE:
        return gen_case_spread(seed, index - SPREAD_BASE)
    rnd = random.Random(seed * 7_000_003 + index)
    while True:
        comp = gen_component(rnd)
        par = gen_parent(rnd, comp)
        if par is not None:
            return {'lib': comp, 'app': par, 'text': TEXT, 'parent_first': rnd.random() < .5}


def preconditions_hold(case):
    """re-checks the generator's guarantees on a (possibly hand-edited) case"""
    if 'libs' in case:
        comps = case['libs']
        names = [c['name'] for c in comps]
        if not comps or len(set(names)) != len(names) or case['app']['name'] in names:
            return False
        supply = case.get('supply')
        if supply is not None and sorted(supply) != sorted(names + [case['app']['name']]):
            return False
    else:
        comps = [case['lib']]
    par = case['app']
    psp = c06.Spec(par)
    if not all(_component_preconditions(comp, par, psp, case['text']) for comp in comps):
        return False
    ts = [c.get('t', 0) for h in comps + [par] for c in h['commits']]
    return max(ts) - min(ts) < OBSOLETE_WINDOW


def _component_preconditions(comp, par, psp, text):
    csp = c06.Spec(comp)
    if not comp['branches']:
        return False
    reach = Counter()
    for h in {h for _, h in comp['branches']}:
        reach.update(csp.anc_or_self(h))
    # several component branches: nothing reachable from two branch heads matches the text
    if len(comp['branches']) > 1:
        if len({h for _, h in comp['branches']}) != len(comp['branches']):
            return False
        if any(k > 1 and text in csp.commits[c].get('msg', '') for c, k in reach.items()):
            return False
    nums = {c['id']: build_versions(c) for c in comp['commits'] if build_versions(c)}
    allv = [v for vs in nums.values() for v in vs]
    if len(set(allv)) != len(allv):
        return False
    for x, y in itertools.permutations(nums, 2):
        if x != y and csp.contains(y, x) and not max(nums[x]) < min(nums[y]):
            return False
    pin = {i: pinned_commit(comp, d) for i, d in psp.commits.items()}
    ver = {i: pinned_version(comp, d) for i, d in psp.commits.items()}
    for i, d in psp.commits.items():
        if pin[i] is None or pin[i] not in reach:
            return False
        if any(not csp.contains(pin[i], pin[p]) or ver[i] < ver[p] for p in psp.parents[i]):
            return False
        if len(build_versions(d)) > 1:
            return False
    # commit dates within the cut-off windows
    ct = {c['id']: c.get('t', 0) for c in comp['commits']}
    for i, d in psp.commits.items():
        if not d.get('t', 0) > max(ct[c] for c in csp.anc_or_self(pin[i])) - COMPONENT_WINDOW:
            return False
    return True


def n_histories(tier):
    return 6400 if tier == 'quick' else 64000


def n_spread(tier):
    return 3200 if tier == 'quick' else 32000


def n_multi(tier):
    return 3200 if tier == 'quick' else 32000


def n_zero(tier):
    return 1600 if tier == 'quick' else 24000


def case_indices(tier):
    return (list(range(n_histories(tier))) + [SPREAD_BASE + i for i in range(n_spread(tier))]
            + [MULTI_BASE + i for i in range(n_multi(tier))]
            + [ZERO_BASE + i for i in range(n_zero(tier))])


HBLOCK = 50


def _hist_work(args):
    tier, seed, start, step = args
    out = []
    idx = case_indices(tier)
    for s in range(0, len(idx), HBLOCK):
        if (s // HBLOCK) % step != start:
            continue
        for i in idx[s:s + HBLOCK]:
            case = gen_case(seed, i)
            fails, facts, _ = evaluate(case)
            out.append((i, facts, fails))
    return out


# ------------------------------------------------------------------------------------------------
# driver
# ------------------------------------------------------------------------------------------------

REACH = ['pin moving across >= 2 report-related component builds',
         'parent build without own matching commit',
         'component with parallel report-related builds',
         'parent pins the larger of two build numbers of one component commit',
         'dependency cycle', 'acyclic dependencies with >= 2 levels',
         'component with >= 2 branches carrying report-related builds',
         'first-shipping parent build a day or more older than another report-related component build',
         'oldest report-related component build on a higher-sorted branch, first shipped by a parent build a day '
         'or more older than every report-related build of the lowest-sorted component branch',
         'commit dates spread over >= 3 days',
         'owner pinning >= 2 components: a build moves the pin of one component across a report-related build '
         'while its pin of another component, which names a build with report content, stays where an earlier '
         'build of the branch had it',
         'the same between two identically shaped component histories (coinciding internal numbering), the '
         'moved pin arriving at the position at which the other pin stays',
         'owner pinning >= 2 components: one build first ships report-related builds of two components',
         'report-related component build with major version 0 (tags build_N_release_0_x_success) first shipped '
         'by a parent build',
         'report-related component build with minor version 0 first shipped by a parent build',
         'report-related component build with build number 0 first shipped by a parent build',
         'report-related component build 0.0.0 first shipped by a parent build',
         'first-shipping parent build whose pin has major version 0 and build number 0',
         'first-shipping parent build whose own version has major version 0',
         'first-shipping parent build whose own build number is 0']
ZERO_REACH = [(13, 'zero_component_major'), (14, 'zero_component_minor'), (15, 'zero_component_build'),
              (16, 'zero_component_version'), (17, 'zero_pin'), (18, 'zero_parent_major'),
              (19, 'zero_parent_build')]


def run(b):
    for msg in validate_against_suite():
        b.error("oracle self-validation against tests/test_ghist.py scenarios failed: " + msg)
    if b.errors:
        return
    nproc = 16
    ctx = multiprocessing.get_context('fork')
    with ctx.Pool(nproc) as pool:
        r_order = pool.map_async(_order_work, [(s, nproc) for s in range(nproc)], chunksize=1)
        r_hist = pool.map_async(_hist_work, [(b.tier, b.seed, s, nproc) for s in range(nproc)], chunksize=1)
        # the parent records the enumerated ordering cases while the workers evaluate them
        n_order = 0
        order_list = []
        for deps, order in order_cases():
            n_order += 1
            cyc = has_cycle(deps, order)
            two_levels = (not cyc) and any(any(e in order for e in deps.get(d, []))
                                            for r in order for d in deps.get(r, []) if d in order)
            b.case({'deps': deps, 'order': order},
                   nontrivial=len(order) >= 2 and any(d in order for r in order for d in deps.get(r, [])),
                   sample=False)
            if cyc:
                b.hit('dependency cycle')
            if two_levels:
                b.hit('acyclic dependencies with >= 2 levels')
        order_fails = [x for part in r_order.get() for x in part]
        hist_res = {i: (facts, fails) for part in r_hist.get() for i, facts, fails in part}
    if order_fails:
        idx = {i for i, _ in order_fails}
        lookup = {i: c for i, c in enumerate(order_cases()) if i in idx}
        for i, res in order_fails:
            deps, order = lookup[i]
            for ksuf, txt in res:
                b.fail('C07.repo_order', f"C07.repo_order:{ksuf}", txt, {'deps': deps, 'order': order})
    b.notes['order_cases'] = n_order
    worst = {}
    for i in case_indices(b.tier):
        if i not in hist_res:
            b.error(f"history case #{i} was not evaluated")
            continue
        facts, fails = hist_res[i]
        case = gen_case(b.seed, i)
        if 'libs' in case:
            b.case(case, nontrivial=facts['distinct_pins'] >= 2 and facts['components_with_firsts'] >= 2)
            if facts['one_pin_moves']:
                b.hit(REACH[10])
            if facts['one_pin_moves_to_twin_position']:
                b.hit(REACH[11])
            if facts['two_pins_move_at_once']:
                b.hit(REACH[12])
        else:
            b.case(case, nontrivial=facts['distinct_pins'] >= 2)
        if facts['move_across_2']:
            b.hit(REACH[0])
        if facts['first_without_own_match']:
            b.hit(REACH[1])
        if facts['parallel_component_builds']:
            b.hit(REACH[2])
        if facts['pins_larger_of_two']:
            b.hit(REACH[3])
        if facts['component_branches_with_builds'] >= 2:
            b.hit(REACH[6])
        if facts['first_older_than_other_build']:
            b.hit(REACH[7])
        if facts['backport_pattern']:
            b.hit(REACH[8])
        if facts['span_days'] >= 3:
            b.hit(REACH[9])
        for k, name in ZERO_REACH:
            if facts[name]:
                b.hit(REACH[k])
        for clause, ksuf, txt in fails:
            key = (clause, ksuf)
            size = len(json.dumps(case))
            if key not in worst or size < worst[key][0]:
                worst[key] = (size, case, txt)
    for (clause, ksuf), (_, case, txt) in sorted(worst.items()):
        case, txt = shrink(case, clause, ksuf, txt)
        b.fail(f"C07.{clause}", f"C07.{clause}:{ksuf}", txt, case)
    b.notes['history_cases'] = n_histories(b.tier)
    b.notes['spread_cases'] = n_spread(b.tier)
    sp = [f for i, (f, _) in hist_res.items() if SPREAD_BASE <= i < MULTI_BASE]
    mu = [f for i, (f, _) in hist_res.items() if MULTI_BASE <= i < ZERO_BASE]
    ze = [f for i, (f, _) in hist_res.items() if i >= ZERO_BASE]
    b.notes['zero_cases'] = n_zero(b.tier)
    b.notes['zero_nontrivial'] = sum(
        1 for f in ze if f['distinct_pins'] >= 2 and f.get('components_with_firsts', 2) >= 2)
    for _, name in ZERO_REACH:
        b.notes[name] = sum(1 for f in ze if f[name])
    b.notes['multi_cases'] = n_multi(b.tier)
    b.notes['multi_three_components'] = sum(1 for f in mu if f['components'] >= 3)
    b.notes['multi_nontrivial'] = sum(1 for f in mu if f['distinct_pins'] >= 2 and f['components_with_firsts'] >= 2)
    b.notes['multi_one_pin_moves'] = sum(1 for f in mu if f['one_pin_moves'])
    b.notes['multi_one_pin_moves_to_twin_position'] = sum(1 for f in mu if f['one_pin_moves_to_twin_position'])
    b.notes['multi_two_pins_move_at_once'] = sum(1 for f in mu if f['two_pins_move_at_once'])
    b.notes['multi_dates_spread'] = sum(1 for f in mu if f['span_days'] >= 1)
    b.notes['spread_multi_branch'] = sum(1 for f in sp if f['component_branches_with_builds'] >= 2)
    b.notes['spread_first_older_than_other_build'] = sum(1 for f in sp if f['first_older_than_other_build'])
    b.notes['spread_backport_pattern'] = sum(1 for f in sp if f['backport_pattern'])
    b.notes['spread_nontrivial'] = sum(1 for f in sp if f['distinct_pins'] >= 2)
    b.notes['history_nontrivial'] = sum(1 for i, (f, _) in hist_res.items() if i < SPREAD_BASE and f['distinct_pins'] >= 2)
    b.notes['history_first_builds'] = sum(f['n_firsts'] for f, _ in hist_res.values())
    b.require_reach(REACH)


def shrink(case, clause, ksuf, txt):
    """greedy reduction of a failing two-repository case: drop commits nobody needs, branches and
    build tags, as long as the pre-conditions hold and the same clause fails in the same class"""
    def still_fails(c):
        if not preconditions_hold(c):
            return None
        fails, _, _ = evaluate(c)
        for cl, ks, t in fails:
            if (cl, ks) == (clause, ksuf):
                return t
        return None

    def hist_of(c, side):
        return c['libs'][side] if isinstance(side, int) else c[side]

    def variants(c):
        if len(c.get('libs', [])) > 1:
            for k in range(len(c['libs'])):         # the owner stops pinning one of its components
                v = json.loads(json.dumps(c))
                gone = v['libs'].pop(k)['name']
                if 'supply' in v:
                    v['supply'] = [r for r in v['supply'] if r != gone]
                for x in v['app']['commits']:
                    dep = json.loads(x['files']['DEPENDS'])
                    dep.pop(gone, None)
                    x['files']['DEPENDS'] = json.dumps(dep)
                yield v
        for side in (['app'] + list(range(len(c['libs']))) if 'libs' in c else ['app', 'lib']):
            h = hist_of(c, side)
            used = {p for d in h['commits'] for p in d.get('parents', [])} | {hd for _, hd in h['branches']}
            for d in h['commits']:
                if d['id'] not in used:
                    v = json.loads(json.dumps(c))
                    hist_of(v, side)['commits'] = [x for x in hist_of(v, side)['commits'] if x['id'] != d['id']]
                    yield v
            if len(h['branches']) > 1:
                for k in range(len(h['branches'])):
                    v = json.loads(json.dumps(c))
                    del hist_of(v, side)['branches'][k]
                    yield v
            for d in h['commits']:
                v = json.loads(json.dumps(c))
                for x in hist_of(v, side)['commits']:
                    if x['id'] == d['id']:
                        if side == 'app' and x.get('tags'):
                            del x['tags']
                            yield v
                        elif TEXT in x.get('msg', ''):
                            x['msg'] = 'w'
                            yield v
            for bi, (bn, hd) in enumerate(h['branches']):
                for d in h['commits']:
                    if d['id'] == hd:
                        for p in d.get('parents', []):
                            v = json.loads(json.dumps(c))
                            hist_of(v, side)['branches'][bi][1] = p
                            yield v
    progress = True
    rounds = 0
    while progress and rounds < 200:
        progress = False
        for v in variants(case):
            rounds += 1
            t = still_fails(v)
            if t is not None:
                case, txt, progress = v, t, True
                break
    return case, txt


def replay_case(case):
    if 'deps' in case:
        res = check_order({k: list(v) for k, v in case['deps'].items()}, list(case['order']))
        return (not res), [t for _, t in res]
    if not preconditions_hold(case):
        return True, "the recorded case does not satisfy the property's pre-conditions; nothing is demanded"
    fails, facts, obs = evaluate(case)
    return (not fails), {'violations': [f"{c} [{k}]: {t}" for c, k, t in fails], 'report': obs}


# ------------------------------------------------------------------------------------------------
# self-validation of the oracle against the two-repository scenarios of tests/test_ghist.py
# ------------------------------------------------------------------------------------------------

def validate_against_suite():
    from harness import c06_suite_scenarios as sc
    problems = []
    exp, firsts = expected_included(sc.INCL_LIB, sc.INCL_MASTER, sorted(sc.INCL_EXPECTED))
    for y, want in sc.INCL_EXPECTED.items():
        if set(exp[y].elements()) != want or any(v != 1 for v in exp[y].values()):
            problems.append(f"included_at of proj_lib commit {y}: oracle {sorted(exp[y].elements())}, suite {sorted(want)}")
    ys = [110, 120, 130, 150, 160, 180, 190]          # the report-related builds of proj_lib (suite, line 605-610)
    exp, firsts = expected_included(sc.BUMPS_LIB, sc.BUMPS_MASTER, ys)
    psp = c06.Spec(sc.BUMPS_MASTER)
    got = {}
    for b, d in firsts.items():
        labels = [(P, build_label(psp.commits[P], P == psp.head[b])) for P in d]
        got[b] = [l for _, l in sorted(labels, reverse=True)]
    want = {b: [x for x in v if x != 'not merged'] for b, v in sc.BUMPS_REPORTED.items()}
    if got != want:
        problems.append(f"parent builds that first ship a component build: oracle {got}, suite {want}")
    return problems
