"""C03 bounded driver: left-recursive grammars are rejected; accepted grammars always terminate.

Top-level clauses (from the property statement):
  raises_iff_recursive   LLParser(...) raises GrammarIsRecursive  <=>  spec left_recursive(G)
                         (left corner reachable again behind a nullable prefix; DESIGN D.1), for
                         well-formed grammars
  terminates             for every grammar the constructor accepts and every input of <= 5 tokens,
                         parse() returns or raises within the budget (step budget on the events of
                         the parse loop + wall-clock alarm); a budget overrun, MemoryError or
                         RecursionError is the violation.

Space: every grammar shape with k <= 3 nonterminals, <= 2 alternatives per symbol, right-hand sides of
<= 3 symbols over the nonterminals and 2 terminals, bounded total number of symbol occurrences,
every nonterminal reachable -- times every assignment of nonterminal names from a pool of 4 (the
check walks symbols in name order; 'AA' sorts between 'A' and the parser's own 'A__S00').

Second dimension ('u' families): the same enumeration WITHOUT the reachability filter, restricted to the
grammars in which at least one nonterminal is NOT reachable from the constructor's start symbol
(unused / work-in-progress symbols).  The statement says "some symbol can reach itself": the spec
left_recursive(G) ranges over all symbols of the grammar, reachable or not.  The cycle may consist of
unreachable symbols only (direct, indirect, hidden behind a nullable prefix -- the nullable prefix itself
reachable or not), of reachable symbols, or be absent.  For the accepted ones the terminates clause is
exercised with parse(text) and with parse(text, start_symbol_name=s) for every other nonterminal s, in
particular the unreachable ones (documented argument of LLParser.parse: "to check how small parts of
source text are parsed").

Third dimension ('t' families): grammars that also contain ProdsTemplate symbols (ListProds with and without
brackets / delimiter / final delimiter / optional, MapProds with and without brackets, ProdSequence), next to
plain recursive or non-recursive symbols.  "For all grammars" includes the grammars written with the
documented production templates, and the constructor must report a left-recursive one as GrammarIsRecursive
(not with another exception type) whatever else the grammar contains -- the error report is built from all
productions and all templates.  Spec: each template is replaced by the plain productions its class
documentation describes (harness/c03_templates.py: expand), then left_recursive as before.  A template may be a
bystander of a cycle among other symbols, be on the cycle itself (only a template without brackets can: its
item / key / element symbol reaches the template symbol again, or an element of a ProdSequence is nullable),
be unreachable from the start symbol, or be an item of another template.  The accepted ones are parsed on all
strings over the tokens they use.
"""
import multiprocessing
import os
from collections import Counter

from harness import grammars as gr
from harness import c03_templates as tp

TERMINALS = ['x', 'y']
POOL = ['A', 'AA', 'B', 'C']
STEP_BUDGET = 20_000          # events of the parse loop; finished parses of <= 5 tokens need a few hundred
LR_PROBES_PER_TASK = 40       # accepted spec-left-recursive grammars whose parses are run, per work unit
LR_OVERRUNS_PER_TASK = 3      # ... and the number of budget overruns after which no more of them are run
WALL_BUDGET = 10.0            # seconds per call
MAX_TOKENS = 5

GIR = 'GrammarIsRecursive'


def families(tier):
    """(label, n_nt, terminals, max_alts, max_rhs, max_total, smart settings, max tokens for the
    assignments other than the first one, mode); mode 'reachable': every nonterminal reachable from
    the start symbol, mode 'unreachable': at least one nonterminal not reachable from it"""
    R, U = 'reachable', 'unreachable'
    if tier == 'quick':
        return [('k1', 1, TERMINALS, 2, 3, None, (True,), 2, R),
                ('k2', 2, TERMINALS, 2, 3, 5, (True,), 2, R),
                ('k3-1t', 3, TERMINALS[:1], 2, 3, 5, (True,), 2, R),
                ('u2', 2, TERMINALS, 2, 3, 4, (True,), 2, U),
                ('u3-1t', 3, TERMINALS[:1], 2, 2, 4, (True,), 2, U)]
    return [('k1', 1, TERMINALS, 2, 3, None, (True, False), 5, R),
            ('k2', 2, TERMINALS, 2, 3, 6, (True, False), 2, R),
            ('k3', 3, TERMINALS, 2, 3, 5, (True, False), 2, R),
            ('k3-1t', 3, TERMINALS[:1], 2, 3, 6, (True,), 5, R),
            ('u2', 2, TERMINALS, 2, 3, 5, (True, False), 2, U),
            ('u3', 3, TERMINALS, 2, 3, 4, (True, False), 2, U),
            ('u3-1t', 3, TERMINALS[:1], 2, 3, 5, (True,), 2, U)]


def rule_text(tier):
    def fam_text(mode):
        return '; '.join(f"{n} nonterminal(s), <= {ma} alternatives, RHS <= {mr}, terminals {t}"
                         + (f", <= {mt} symbol occurrences" if mt else '')
                         + f", smart_factorization in {list(sm)}, inputs <= {MAX_TOKENS} tokens (<= {ol} for the name "
                           f"assignments after the first / the second factorization setting)"
                         for _, n, t, ma, mr, mt, sm, ol, md in families(tier) if md == mode)
    return (f"exhaustive: every grammar shape with all nonterminals reachable from the start symbol in the families "
            f"[{fam_text('reachable')}] and every grammar shape with at least one nonterminal NOT reachable from the "
            f"start symbol (the unreachable symbols may refer to each other, to reachable symbols and to terminals; "
            f"left-corner cycle among the unreachable symbols only, among the reachable ones, or none) in the families "
            f"[{fam_text('unreachable')}] x every "
            f"injective assignment of nonterminal names from the pool {POOL} (start symbol passed explicitly); "
            f"construction of each; for every accepted non-recursive grammar all token strings up to the stated length, "
            f"parsed from the constructor's start symbol and, in the families with unreachable symbols, also with "
            f"parse(start_symbol_name=s) for every other nonterminal s, "
            f"each parse under a budget of {STEP_BUDGET} parse-loop events and {WALL_BUDGET} s. A grammar that is "
            f"accepted although it is left-recursive by the spec is already a violation of raises_iff_recursive; its "
            f"parses (all strings <= {MAX_TOKENS} tokens, until the first overrun) are run only for the first "
            f"{LR_PROBES_PER_TASK} such grammars (and until {LR_OVERRUNS_PER_TASK} overruns were seen) of each of the "
            f"{len(tasks_for(tier))} work units, because each overrun costs the whole budget. "
            + template_rule_text(tier) +
            f"non-trivial = some production has a nullable nonterminal in front of another symbol (a nullable prefix)")


def template_rule_text(tier):
    fams = '; '.join(
        f"{f['plain']} plain nonterminal(s) with <= {f['max_alts']} alternatives, RHS <= {f['max_rhs']}"
        + (f", <= {f['max_total']} symbol occurrences" if f['max_total'] else '')
        + " over the nonterminals, the token x and T0" + (" (T0 occurring in the plain part)" if f['t0_used'] else '')
        + (", a second template T1 from a fixed list of 5 (sequence, list with delimiter only, bare list, map without "
           "brackets, optional bracketed list; items x), T0 mentioning T1" if f['second'] else '')
        + f", template enumeration level '{f['level']}', names from {f['pool']}, smart_factorization in "
          f"{list(f['smarts'])}, inputs <= {f['full']} tokens (<= {f['short']} for the name assignments after the "
          f"first / the second factorization setting)"
        for f in template_families(tier))
    return (f"Third dimension (grammars that also contain ProdsTemplate symbols), exhaustive within its bounds: every "
            f"plain part as above in which a template symbol T0 may occur, T0 being every admissible ListProds (with / "
            f"without brackets {tp.OPEN} {tp.CLOSE}, with / without delimiter {tp.DELIM}, allow_final_delimiter "
            f"default / False, optional default / True), MapProds (with / without brackets, optional default / True; "
            f"level 'thorough' also allow_final_delimiter=False and every value symbol, level 'quick' value = x) and "
            f"ProdSequence (1 or 2 symbols) whose item / key / value symbols are x, a plain nonterminal, T0 itself "
            f"(or T1), except the lists without delimiter whose item is nullable; x every injective assignment of "
            f"names to the plain nonterminals and the template symbols (templates listed after / before the plain "
            f"productions for even / odd assignments); spec = left-corner cycle in the plain grammar obtained by "
            f"replacing each template by the productions its documentation describes; accepted grammars are parsed "
            f"on every string over the tokens they use; families [{fams}]. ")


# ---------------------------------------------------------------------------------------------
# spec-side classification
# ---------------------------------------------------------------------------------------------

def plain_recursive(G):
    """left recursion through first symbols only (no nullable prefix involved)"""
    LC = {x: {a[0] for a in alts if a and a[0] in G} for x, alts in G.items()}
    ch = True
    while ch:
        ch = False
        for x in G:
            for y in list(LC[x]):
                if not LC[y] <= LC[x]:
                    LC[x] |= LC[y]
                    ch = True
    return any(x in LC[x] for x in G)


def hidden_orders(G):
    """for a grammar recursive behind a nullable prefix: which name orders (nullable prefix symbol
    vs the symbol behind it that closes the cycle) occur"""
    N = gr.nullable(G)
    LC = gr.left_corner_closure(G)
    out = set()
    for x, alts in G.items():
        for a in alts:
            for i, y in enumerate(a):
                if i > 0 and y in G and (y == x or x in LC[y]):
                    for p in a[:i]:
                        if p < y:
                            out.add('hidden-recursion:nullable-sorts-before-recursive')
                        elif p > y:
                            out.add('hidden-recursion:nullable-sorts-after-recursive')
                if y not in N:
                    break
    return out


def cyclic_symbols(G):
    """the symbols that can reach themselves without consuming a token (X in LC+(X))"""
    LC = gr.left_corner_closure(G)
    return {x for x in G if x in LC[x]}


def unreachable_class(G, start):
    """None if every nonterminal is reachable from `start`; otherwise where the left-corner cycles are:
    'no-cycle' | 'cycle-also-among-reachable' | 'cycle-only-among-unreachable:<direct|indirect|hidden>'
    (direct: X -> X ...; indirect: a cycle through first symbols of >= 2 symbols and no direct one;
    hidden: every cycle passes behind a nullable prefix)"""
    U = set(G) - gr.reachable(G, start)
    if not U:
        return None
    C = cyclic_symbols(G)
    if not C:
        return 'no-cycle'
    if not C <= U:
        return 'cycle-also-among-reachable'
    if any(a and a[0] == x for x, alts in G.items() for a in alts):
        how = 'direct'
    elif plain_recursive(G):
        how = 'indirect'
    else:
        how = 'hidden'
    return 'cycle-only-among-unreachable:' + how


def has_nullable_prefix(G):
    N = gr.nullable(G)
    return any(len(a) >= 2 and a[0] in N for alts in G.values() for a in alts)


# ---------------------------------------------------------------------------------------------
# clause evaluation on one named grammar
# ---------------------------------------------------------------------------------------------

def is_parsing_error(e):
    try:
        from ak import llparser
        return isinstance(e, llparser.Error)
    except Exception:       # noqa
        return False


def construct(G, start, terminals, smart, TPL=None, tfirst=False):
    """-> (status, parser or None, text); status: 'accepted' | GIR | 'other-exception' | 'budget'.
    TPL: descriptions of the ProdsTemplate symbols of the grammar (harness.c03_templates), if any"""
    if TPL:
        make = lambda: tp.make_parser(G, TPL, start, terminals, smart, templates_first=tfirst)
    else:
        make = lambda: gr.make_parser(G, start, terminals, smart)
    kind, val, _ = gr.guarded(make, wall_s=WALL_BUDGET)
    if kind == 'ok':
        return 'accepted', val, ''
    if kind == 'exc':
        if type(val).__name__ == GIR:
            return GIR, None, ''
        return 'other-exception', None, f"{type(val).__name__}: {str(val).splitlines()[-1][:120] if str(val) else ''}"
    return 'budget', None, str(val)


def check_construction(G, start, terminals, smart, lr, hidden, TPL=None, tfirst=False):
    """-> (status, parser, fails[(clause, keysuffix, text)], diags[text]).
    With TPL (grammar with ProdsTemplate symbols) lr / hidden are those of the spec grammar
    tp.spec_grammar(G, TPL) and the failure classes get the suffix ':grammar-with-ProdsTemplate'"""
    status, parser, text = construct(G, start, terminals, smart, TPL, tfirst)
    fails, diags = [], []
    gs = tp.grammar_str(G, TPL) if TPL else gr.grammar_str(G)
    S = tp.spec_grammar(G, TPL) if TPL else G
    wt = ':grammar-with-ProdsTemplate' if TPL else ''
    if status == 'accepted' and lr:
        cls = 'hidden-behind-nullable-prefix' if hidden else 'plain'
        cyc = sorted(cyclic_symbols(S))
        off = not (set(cyc) & gr.reachable(S, start))
        fails.append(('raises_iff_recursive', f"accepted-left-recursive:{cls}"
                      + (':cycle-unreachable-from-start-symbol' if off else '') + wt,
                      f"constructor accepts the left-recursive grammar [{gs}] (start {start}, smart_factorization="
                      f"{smart}); expected GrammarIsRecursive ({cls} left recursion: {', '.join(cyc)} can reach "
                      f"{'themselves' if len(cyc) > 1 else 'itself'} without consuming a token"
                      + ("; not reachable from the start symbol, but 'some symbol can reach itself' holds" if off else '')
                      + ')'))
    elif status == GIR and not lr:
        fails.append(('raises_iff_recursive', 'rejected-non-recursive' + wt,
                      f"constructor raises GrammarIsRecursive for [{gs}] (start {start}, smart_factorization={smart}) "
                      f"which has no left-corner cycle"))
    elif status == 'other-exception':
        if lr:
            fails.append(('raises_iff_recursive', 'left-recursive-other-exception' + wt,
                          f"constructor raises {text} instead of GrammarIsRecursive for the left-recursive grammar "
                          f"[{gs}] (start {start}, smart_factorization={smart}); "
                          f"{', '.join(sorted(cyclic_symbols(S)))} can reach "
                          f"{'themselves' if len(cyclic_symbols(S)) > 1 else 'itself'} without consuming a token"))
        else:
            diags.append(f"constructor raises {text} for the well-formed non-recursive grammar [{gs}] (start {start}, "
                         f"smart_factorization={smart})")
    elif status == 'budget':
        fails.append(('raises_iff_recursive', 'constructor-does-not-return' + wt,
                      f"constructor neither returned nor raised ({text}) for [{gs}] (start {start})"))
    return status, parser, fails, diags


def check_parse(parser, tokens, lr, parse_start=None):
    """terminates clause on one input -> (outcome, steps, fail or None, diag or None);
    outcome: 'tree' | 'parsing-error' | 'other-exception' | 'overrun'.
    parse_start: None = the constructor's start symbol, else the value of parse's documented
    start_symbol_name argument (a nonterminal of the grammar)"""
    text = gr.text_of(tokens)
    if parse_start is None:
        call, shown = (lambda: parser.parse(text, do_cleanup=False)), f"parse({text!r})"
    else:
        call = lambda: parser.parse(text, do_cleanup=False, start_symbol_name=parse_start)
        shown = f"parse({text!r}, start_symbol_name={parse_start!r})"
    kind, val, steps = gr.guarded(call, wall_s=WALL_BUDGET, steps=STEP_BUDGET)
    if kind == 'ok':
        return 'tree', steps, None, None
    if kind == 'exc':
        if isinstance(val, RecursionError):
            return 'overrun', steps, ('terminates', 'unbounded', f"RecursionError in {shown}"), None
        if is_parsing_error(val):
            return 'parsing-error', steps, None, None
        return 'other-exception', steps, None, f"{shown} raises {type(val).__name__} (not a parsing error)"
    which = 'accepted-left-recursive-grammar' if lr else 'non-recursive-grammar'
    return 'overrun', steps, ('terminates', f"does-not-return:{which}",
                              f"{shown} did not return or raise: {val}"), None


def make_case(G, start, terminals, smart, tokens=None, parse_start=None, TPL=None, tfirst=False):
    c = {'grammar': gr.to_json(G), 'start': start, 'terminals': list(terminals), 'smart_factorization': smart}
    if TPL:
        c['templates'] = TPL
        c['templates_first'] = bool(tfirst)
    if tokens is not None:
        c['input'] = list(tokens)
    if parse_start is not None:
        c['parse_start_symbol_name'] = parse_start
    return c


# ---------------------------------------------------------------------------------------------
# worker
# ---------------------------------------------------------------------------------------------

def _limit_memory():
    try:
        import resource
        lim = 6 << 30
        resource.setrlimit(resource.RLIMIT_AS, (lim, lim))
    except Exception:       # noqa
        pass


def work(task):
    tier, fam, part = task
    if isinstance(fam, dict):
        return work_templates(task)
    label, n_nt, terminals, max_alts, max_rhs, max_total, smarts, other_len, mode = fam
    with_unreachable = mode == 'unreachable'
    full = list(gr.all_strings(terminals, MAX_TOKENS))
    short = [w for w in full if len(w) <= other_len]
    assigns = gr.name_assignments(n_nt, POOL)
    cases = []              # (case string, nontrivial)
    fails = {}              # key -> (clause, text, case, size)
    hits = Counter()
    diags = []
    stats = Counter()
    max_steps = 0
    lr_probed = lr_overruns = 0

    def fail(clause, ksuf, text, case):
        key = f"C03.{clause}:{ksuf}"
        size = len(repr(case))
        cur = fails.get(key)
        if cur is None or size < cur[3]:
            fails[key] = (f"C03.{clause}", text, case, size)

    for shape in gr.enumerate_grammars(n_nt, terminals, max_alts, max_rhs, max_total, part=part,
                                       reachable_only=not with_unreachable):
        ucls = unreachable_class(shape, 'N0')
        if with_unreachable and ucls is None:
            continue            # all reachable: belongs to the 'reachable' families
        lr = gr.left_recursive(shape)
        hidden = lr and not plain_recursive(shape)
        nontrivial = has_nullable_prefix(shape)
        for ai, m in enumerate(assigns):
            G = gr.rename(shape, m)
            start = m['N0']
            if hidden:
                for ev in hidden_orders(G):
                    hits[ev] += 1
            # parse is called from the constructor's start symbol and, in the families with unreachable
            # symbols, from every other nonterminal through the documented start_symbol_name argument
            unreach = (set(G) - gr.reachable(G, start)) if with_unreachable else set()
            parse_starts = [None] + ([x for x in sorted(G) if x != start] if with_unreachable else [])
            for smart in smarts:
                if ucls is not None:
                    hits['unreachable-symbols:' + ucls] += 1
                cases.append((f"{gr.grammar_str(G)} / start {start} / smart={smart}", nontrivial))
                stats['recursive' if lr else 'non-recursive'] += 1
                status, parser, fl, dg = check_construction(G, start, terminals, smart, lr, hidden)
                stats['constructor:' + status] += 1
                for clause, ksuf, text in fl:
                    fail(clause, ksuf, text, make_case(G, start, terminals, smart))
                diags.extend(dg[:1] if len(diags) < 5 else [])
                if status != 'accepted':
                    continue
                if lr:
                    if lr_probed >= LR_PROBES_PER_TASK or lr_overruns >= LR_OVERRUNS_PER_TASK:
                        stats['accepted-left-recursive:parses-not-run'] += 1
                        continue
                    lr_probed += 1
                inputs = full if ((ai == 0 and smart is smarts[0]) or lr) else short
                overrun = False
                for ps in parse_starts:
                    if ps in unreach:
                        hits['parse:start_symbol_name-unreachable-from-constructor-start-symbol'] += 1
                        stats['grammars-parsed-from-an-unreachable-symbol'] += 1
                    for w in inputs:
                        outcome, steps, fl1, dg1 = check_parse(parser, w, lr, ps)
                        stats['parses'] += 1
                        stats['parse:' + outcome] += 1
                        if ps is not None:
                            stats['parses-with-start_symbol_name'] += 1
                        if fl1 is not None:
                            fail(fl1[0], fl1[1], f"[{gr.grammar_str(G)}] (start {start}, smart_factorization={smart}): "
                                 + fl1[2], make_case(G, start, terminals, smart, w, ps))
                            lr_overruns += 1 if lr else 0
                            overrun = True
                            break       # one overrun per grammar is enough (each costs the whole budget)
                        max_steps = max(max_steps, steps)
                        if dg1 and len(diags) < 5:
                            diags.append(f"[{gr.grammar_str(G)}] {dg1}")
                    if overrun:
                        break
    return cases, fails, hits, diags, stats, max_steps


# ---------------------------------------------------------------------------------------------
# third dimension ('t' families): grammars that also contain ProdsTemplate symbols
# ---------------------------------------------------------------------------------------------

T_POOL = ['A', 'AA', 'B']
SECOND_TEMPLATES = [tp.seq_t('x'), tp.list_t(None, 'x', tp.DELIM, None), tp.list_t(None, 'x', None, None),
                    tp.map_t(None, 'x', tp.ASSIGN, 'x', tp.DELIM, None),
                    tp.list_t(tp.OPEN, 'x', tp.DELIM, tp.CLOSE, None, True)]


def template_families(tier):
    """label; plain: number of plain nonterminals; max_alts / max_rhs / max_total of the plain part;
    t0_used: only the plain parts that mention T0; second: a second template T1; level of the template
    enumeration; name pool; smart settings; full / short: max tokens for the first name assignment / the
    others; units: work units"""
    def fam(label, plain, max_alts, max_rhs, max_total, t0_used, second, level, pool, smarts, full, short, units):
        return dict(label=label, plain=plain, max_alts=max_alts, max_rhs=max_rhs, max_total=max_total,
                    t0_used=t0_used, second=second, level=level, pool=pool, smarts=smarts, full=full, short=short,
                    units=units)
    if tier == 'quick':
        return [fam('t1', 1, 2, 2, None, False, False, 'quick', POOL, (True,), 3, 1, 16),
                fam('t2', 2, 2, 2, 3, True, False, 'quick', T_POOL, (True,), 2, 1, 32),
                fam('t1+t', 1, 2, 2, 2, False, True, 'quick', T_POOL, (True,), 3, 1, 16)]
    return [fam('t1', 1, 2, 3, 4, False, False, 'thorough', POOL, (True, False), 3, 2, 64),
            fam('t2', 2, 2, 2, 3, False, False, 'thorough', T_POOL, (True, False), 3, 2, 128),
            fam('t1+t', 1, 2, 2, None, False, True, 'thorough', T_POOL, (True,), 3, 2, 64)]


def template_grammars(fam):
    """the (plain part, template descriptions) pairs of a family, canonical names N0.. / T0, T1; deterministic.
    The plain productions are enumerated over the nonterminals, the token x and the template symbol T0 (which
    they may use or not; t0_used: only those that do); T0 is every admissible description over the items x,
    N0.., T0 itself and, in the families with a second template, T1 (then only the descriptions that mention
    T1 are kept and T1 runs over SECOND_TEMPLATES)"""
    core = [f"N{i}" for i in range(fam['plain'])]
    items = ['x'] + core + ['T0'] + (['T1'] if fam['second'] else [])
    configs = tp.template_configs(items, fam['level'])
    if fam['second']:
        configs = [t for t in configs if 'T1' in t['args']]
    for shape in gr.enumerate_grammars(fam['plain'], ['x', 'T0'], fam['max_alts'], fam['max_rhs'], fam['max_total'],
                                       reachable_only=True):
        if fam['t0_used'] and not any('T0' in a for alts in shape.values() for a in alts):
            continue
        for t0 in configs:
            if fam['second']:
                for t1 in SECOND_TEMPLATES:
                    yield shape, {'T0': t0, 'T1': t1}
            else:
                yield shape, {'T0': t0}


def template_role(S, name, t):
    """how the template symbol `name` relates to the left-corner cycles of the spec grammar S:
    'no-cycle' | 'on-the-cycle' (a symbol the template generates can reach itself) | 'bystander-of-a-cycle'"""
    C = cyclic_symbols(S)
    if not C:
        return 'no-cycle'
    return 'on-the-cycle' if C & set(tp.expand(name, t)) else 'bystander-of-a-cycle'


def work_templates(task):
    tier, fam, part = task
    smarts, full_len, short_len = fam['smarts'], fam['full'], fam['short']
    terminals = tp.T_TERMINALS
    symbols = [f"N{i}" for i in range(fam['plain'])] + ['T0'] + (['T1'] if fam['second'] else [])
    assigns = tp.injective_assignments(symbols, fam['pool'])
    cases, fails, hits, diags, stats = [], {}, Counter(), [], Counter()
    max_steps = 0
    lr_probed = lr_overruns = 0
    strings = {}

    def inputs_for(alphabet, n):
        k = (tuple(alphabet), n)
        if k not in strings:
            strings[k] = list(gr.all_strings(alphabet, n))
        return strings[k]

    def fail(clause, ksuf, text, case):
        key = f"C03.{clause}:{ksuf}"
        size = len(repr(case))
        cur = fails.get(key)
        if cur is None or size < cur[3]:
            fails[key] = (f"C03.{clause}", text, case, size)

    for idx, (shape, tpl) in enumerate(template_grammars(fam)):
        if idx % part[1] != part[0]:
            continue
        S0 = tp.spec_grammar(shape, tpl)
        if tp.delimiterless_list_with_nullable_item(S0, tpl):
            # restriction of ListProds (see the assumptions): not part of the space
            stats['templates:skipped:delimiter-less-list-with-nullable-item'] += 1
            continue
        if not tp.well_formed(shape, tpl, 'N0', terminals):
            stats['templates:generator-produced-ill-formed-grammar'] += 1      # checker error, see run()
            continue
        lr = gr.left_recursive(S0)
        hidden = lr and not plain_recursive(S0)
        nontrivial = has_nullable_prefix(S0)
        events = [f"template:{tp.flavour(t)}:{template_role(S0, n, t)}" for n, t in tpl.items()]
        if 'T0' not in gr.reachable(S0, 'N0'):
            events.append('template:not-reachable-from-start-symbol:' + ('cycle' if lr else 'no-cycle'))
        alphabet = tp.used_terminals(S0)
        for ai, m in enumerate(assigns):
            G, TPL = tp.rename(shape, tpl, m)
            start = m['N0']
            tfirst = ai % 2 == 1
            if hidden:
                for ev in hidden_orders(tp.spec_grammar(G, TPL)):
                    hits['templates:' + ev] += 1
            for smart in smarts:
                for ev in events:
                    hits[ev] += 1
                cases.append((f"{tp.grammar_str(G, TPL)} / start {start} / smart={smart}"
                              + (' / templates first' if tfirst else ''), nontrivial))
                stats['templates:recursive' if lr else 'templates:non-recursive'] += 1
                status, parser, fl, dg = check_construction(G, start, terminals, smart, lr, hidden, TPL, tfirst)
                stats['templates:constructor:' + status] += 1
                for clause, ksuf, text in fl:
                    fail(clause, ksuf, text, make_case(G, start, terminals, smart, TPL=TPL, tfirst=tfirst))
                diags.extend(dg[:1] if len(diags) < 5 else [])
                if status != 'accepted':
                    continue
                if lr:
                    if lr_probed >= LR_PROBES_PER_TASK or lr_overruns >= LR_OVERRUNS_PER_TASK:
                        stats['accepted-left-recursive:parses-not-run'] += 1
                        continue
                    lr_probed += 1
                first = ai == 0 and smart is smarts[0]
                for w in inputs_for(alphabet, MAX_TOKENS if lr else full_len if first else short_len):
                    outcome, steps, fl1, dg1 = check_parse(parser, w, lr)
                    stats['templates:parses'] += 1
                    stats['templates:parse:' + outcome] += 1
                    if fl1 is not None:
                        fail(fl1[0], fl1[1] + ':grammar-with-ProdsTemplate',
                             f"[{tp.grammar_str(G, TPL)}] (start {start}, smart_factorization={smart}): " + fl1[2],
                             make_case(G, start, terminals, smart, w, TPL=TPL, tfirst=tfirst))
                        lr_overruns += 1 if lr else 0
                        break       # one overrun per grammar is enough (each costs the whole budget)
                    max_steps = max(max_steps, steps)
                    if dg1 and len(diags) < 5:
                        diags.append(f"[{tp.grammar_str(G, TPL)}] {dg1}")
    return cases, fails, hits, diags, stats, max_steps


def template_reach_events():
    ev = []
    for fl in tp.FLAVOURS:
        ev.append(f"template:{fl}:no-cycle")
        ev.append(f"template:{fl}:bystander-of-a-cycle")
        if fl in tp.FLAVOURS_THAT_CAN_BE_ON_A_CYCLE:
            ev.append(f"template:{fl}:on-the-cycle")
    ev += ['template:not-reachable-from-start-symbol:cycle', 'template:not-reachable-from-start-symbol:no-cycle',
           'templates:hidden-recursion:nullable-sorts-before-recursive',
           'templates:hidden-recursion:nullable-sorts-after-recursive']
    return ev


def tasks_for(tier):
    out = []
    for fam in families(tier):
        n = 1 if fam[1] == 1 else 64
        for i in range(n):
            out.append((tier, fam, (i, n)))
    for fam in template_families(tier):
        n = fam['units']
        for i in range(n):
            out.append((tier, fam, (i, n)))
    return out


def run(b):
    tasks = tasks_for(b.tier)
    ctx = multiprocessing.get_context('fork')
    nproc = min(16, os.cpu_count() or 1)
    stats = Counter()
    max_steps = 0
    with ctx.Pool(nproc, initializer=_limit_memory) as pool:
        for cases, fails, hits, diags, st, ms in pool.imap(work, tasks, chunksize=1):
            for cs, nt in cases:
                b.case(cs, nontrivial=nt)
            for key, (ob, text, case, _) in sorted(fails.items()):
                b.fail(ob, key, text, case)
            for ev, n in hits.items():
                b.hit(ev, n)
            for d in diags:
                b.diag(d)
            stats.update(st)
            max_steps = max(max_steps, ms)
    for k, v in sorted(stats.items()):
        b.notes[k] = v
    b.notes['max_parse_loop_events_of_a_finished_parse'] = max_steps
    b.notes['step_budget'] = STEP_BUDGET
    if stats['constructor:accepted'] == 0 or stats['parses'] == 0:
        b.error("no grammar was accepted / no input was parsed: the terminates clause was not exercised")
    if stats['recursive'] == 0 or stats['non-recursive'] == 0:
        b.error("the enumeration did not contain both recursive and non-recursive grammars")
    if stats['grammars-parsed-from-an-unreachable-symbol'] == 0:
        b.error("no accepted grammar was parsed with start_symbol_name = a symbol unreachable from the start symbol")
    b.require_reach(['hidden-recursion:nullable-sorts-before-recursive',
                     'hidden-recursion:nullable-sorts-after-recursive',
                     'unreachable-symbols:no-cycle',
                     'unreachable-symbols:cycle-also-among-reachable',
                     'unreachable-symbols:cycle-only-among-unreachable:direct',
                     'unreachable-symbols:cycle-only-among-unreachable:indirect',
                     'unreachable-symbols:cycle-only-among-unreachable:hidden',
                     'parse:start_symbol_name-unreachable-from-constructor-start-symbol'])
    if stats['templates:generator-produced-ill-formed-grammar']:
        b.error("the generator of grammars with ProdsTemplate symbols produced ill-formed grammars")
    if stats['templates:constructor:accepted'] == 0 or stats['templates:parses'] == 0:
        b.error("no grammar with ProdsTemplate symbols was accepted / parsed")
    if stats['templates:recursive'] == 0 or stats['templates:non-recursive'] == 0:
        b.error("the grammars with ProdsTemplate symbols did not contain both recursive and non-recursive ones")
    b.require_reach(template_reach_events())


# ---------------------------------------------------------------------------------------------
# replay
# ---------------------------------------------------------------------------------------------

def replay_case(case):
    G = gr.from_json(case['grammar'])
    start, terminals, smart = case['start'], case['terminals'], case.get('smart_factorization', True)
    observed = []
    TPL, tfirst = case.get('templates') or None, bool(case.get('templates_first'))
    if TPL:
        if not tp.well_formed(G, TPL, start, terminals):
            return True, ['grammar with templates is not well-formed: outside the quantifier']
        S = tp.spec_grammar(G, TPL)
        observed.append(f"the templates stand for: {gr.grammar_str({x: S[x] for x in S if x not in G})}")
    else:
        if not gr.well_formed(G, start, terminals):
            return True, ['grammar is not well-formed: outside the quantifier']
        S = G
    lr = gr.left_recursive(S)
    hidden = lr and not plain_recursive(S)
    status, parser, fails, diags = check_construction(G, start, terminals, smart, lr, hidden, TPL, tfirst)
    observed.append(f"spec left_recursive = {lr}; constructor: {status}")
    holds = not fails
    observed.extend(f[2] for f in fails)
    observed.extend(diags)
    if status == 'accepted' and case.get('input') is not None:
        ps = case.get('parse_start_symbol_name')
        if ps is not None and ps not in S:
            return holds, observed + [f"parse start symbol {ps!r} is not a nonterminal of the grammar: parse not run"]
        outcome, steps, fl, dg = check_parse(parser, case['input'], lr, ps)
        observed.append(f"parse({gr.text_of(case['input'])!r}"
                        + (f", start_symbol_name={ps!r}" if ps is not None else '')
                        + f"): {outcome} after {steps} parse-loop events")
        if fl is not None:
            holds = False
            observed.append(fl[2])
        if dg:
            observed.append(dg)
    return holds, observed
