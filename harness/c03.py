"""C03 bounded driver: left-recursive grammars are rejected; accepted grammars always terminate.

Top-level clauses (from the property statement):
  raises_iff_recursive   LLParser(...) raises GrammarIsRecursive  <=>  spec left_recursive(G)
                         (left corner reachable again behind a nullable prefix; DESIGN D.1), for
                         well-formed grammars
  terminates             for every grammar the constructor accepts and every input of <= 5 tokens,
                         parse() returns or raises within the budget (step budget on the events of
                         the parse loop + wall-clock alarm); a budget overrun, MemoryError or
                         RecursionError is the violation.

Space: every grammar shape with k <= 3 nonterminals, <= 2 alternatives per symbol, right-hand sides of
<= 3 symbols over the nonterminals and 2 terminals, bounded total number of symbol occurrences,
every nonterminal reachable -- times every assignment of nonterminal names from a pool of 4 (the
check walks symbols in name order; 'AA' sorts between 'A' and the parser's own 'A__S00').

Second dimension ('u' families): the same enumeration WITHOUT the reachability filter, restricted to the
grammars in which at least one nonterminal is NOT reachable from the constructor's start symbol
(unused / work-in-progress symbols).  The statement says "some symbol can reach itself": the spec
left_recursive(G) ranges over all symbols of the grammar, reachable or not.  The cycle may consist of
unreachable symbols only (direct, indirect, hidden behind a nullable prefix -- the nullable prefix itself
reachable or not), of reachable symbols, or be absent.  For the accepted ones the terminates clause is
exercised with parse(text) and with parse(text, start_symbol_name=s) for every other nonterminal s, in
particular the unreachable ones (documented argument of LLParser.parse: "to check how small parts of
source text are parsed").
"""
import multiprocessing
import os
from collections import Counter

from harness import grammars as gr

TERMINALS = ['x', 'y']
POOL = ['A', 'AA', 'B', 'C']
STEP_BUDGET = 20_000          # events of the parse loop; finished parses of <= 5 tokens need a few hundred
LR_PROBES_PER_TASK = 40       # accepted spec-left-recursive grammars whose parses are run, per work unit
LR_OVERRUNS_PER_TASK = 3      # ... and the number of budget overruns after which no more of them are run
WALL_BUDGET = 10.0            # seconds per call
MAX_TOKENS = 5

GIR = 'GrammarIsRecursive'


def families(tier):
    """(label, n_nt, terminals, max_alts, max_rhs, max_total, smart settings, max tokens for the
    assignments other than the first one, mode); mode 'reachable': every nonterminal reachable from
    the start symbol, mode 'unreachable': at least one nonterminal not reachable from it"""
    R, U = 'reachable', 'unreachable'
    if tier == 'quick':
        return [('k1', 1, TERMINALS, 2, 3, None, (True,), 2, R),
                ('k2', 2, TERMINALS, 2, 3, 5, (True,), 2, R),
                ('k3-1t', 3, TERMINALS[:1], 2, 3, 5, (True,), 2, R),
                ('u2', 2, TERMINALS, 2, 3, 4, (True,), 2, U),
                ('u3-1t', 3, TERMINALS[:1], 2, 2, 4, (True,), 2, U)]
    return [('k1', 1, TERMINALS, 2, 3, None, (True, False), 5, R),
            ('k2', 2, TERMINALS, 2, 3, 6, (True, False), 2, R),
            ('k3', 3, TERMINALS, 2, 3, 5, (True, False), 2, R),
            ('k3-1t', 3, TERMINALS[:1], 2, 3, 6, (True,), 5, R),
            ('u2', 2, TERMINALS, 2, 3, 5, (True, False), 2, U),
            ('u3', 3, TERMINALS, 2, 3, 4, (True, False), 2, U),
            ('u3-1t', 3, TERMINALS[:1], 2, 3, 5, (True,), 2, U)]


def rule_text(tier):
    def fam_text(mode):
        return '; '.join(f"{n} nonterminal(s), <= {ma} alternatives, RHS <= {mr}, terminals {t}"
                         + (f", <= {mt} symbol occurrences" if mt else '')
                         + f", smart_factorization in {list(sm)}, inputs <= {MAX_TOKENS} tokens (<= {ol} for the name "
                           f"assignments after the first / the second factorization setting)"
                         for _, n, t, ma, mr, mt, sm, ol, md in families(tier) if md == mode)
    return (f"exhaustive: every grammar shape with all nonterminals reachable from the start symbol in the families "
            f"[{fam_text('reachable')}] and every grammar shape with at least one nonterminal NOT reachable from the "
            f"start symbol (the unreachable symbols may refer to each other, to reachable symbols and to terminals; "
            f"left-corner cycle among the unreachable symbols only, among the reachable ones, or none) in the families "
            f"[{fam_text('unreachable')}] x every "
            f"injective assignment of nonterminal names from the pool {POOL} (start symbol passed explicitly); "
            f"construction of each; for every accepted non-recursive grammar all token strings up to the stated length, "
            f"parsed from the constructor's start symbol and, in the families with unreachable symbols, also with "
            f"parse(start_symbol_name=s) for every other nonterminal s, "
            f"each parse under a budget of {STEP_BUDGET} parse-loop events and {WALL_BUDGET} s. A grammar that is "
            f"accepted although it is left-recursive by the spec is already a violation of raises_iff_recursive; its "
            f"parses (all strings <= {MAX_TOKENS} tokens, until the first overrun) are run only for the first "
            f"{LR_PROBES_PER_TASK} such grammars (and until {LR_OVERRUNS_PER_TASK} overruns were seen) of each of the "
            f"{len(tasks_for(tier))} work units, because each overrun costs the whole budget. "
            f"non-trivial = some production has a nullable nonterminal in front of another symbol (a nullable prefix)")


# ---------------------------------------------------------------------------------------------
# spec-side classification
# ---------------------------------------------------------------------------------------------

def plain_recursive(G):
    """left recursion through first symbols only (no nullable prefix involved)"""
    LC = {x: {a[0] for a in alts if a and a[0] in G} for x, alts in G.items()}
    ch = True
    while ch:
        ch = False
        for x in G:
            for y in list(LC[x]):
                if not LC[y] <= LC[x]:
                    LC[x] |= LC[y]
                    ch = True
    return any(x in LC[x] for x in G)


def hidden_orders(G):
    """for a grammar recursive behind a nullable prefix: which name orders (nullable prefix symbol
    vs the symbol behind it that closes the cycle) occur"""
    N = gr.nullable(G)
    LC = gr.left_corner_closure(G)
    out = set()
    for x, alts in G.items():
        for a in alts:
            for i, y in enumerate(a):
                if i > 0 and y in G and (y == x or x in LC[y]):
                    for p in a[:i]:
                        if p < y:
                            out.add('hidden-recursion:nullable-sorts-before-recursive')
                        elif p > y:
                            out.add('hidden-recursion:nullable-sorts-after-recursive')
                if y not in N:
                    break
    return out


def cyclic_symbols(G):
    """the symbols that can reach themselves without consuming a token (X in LC+(X))"""
    LC = gr.left_corner_closure(G)
    return {x for x in G if x in LC[x]}


def unreachable_class(G, start):
    """None if every nonterminal is reachable from `start`; otherwise where the left-corner cycles are:
    'no-cycle' | 'cycle-also-among-reachable' | 'cycle-only-among-unreachable:<direct|indirect|hidden>'
    (direct: X -> X ...; indirect: a cycle through first symbols of >= 2 symbols and no direct one;
    hidden: every cycle passes behind a nullable prefix)"""
    U = set(G) - gr.reachable(G, start)
    if not U:
        return None
    C = cyclic_symbols(G)
    if not C:
        return 'no-cycle'
    if not C <= U:
        return 'cycle-also-among-reachable'
    if any(a and a[0] == x for x, alts in G.items() for a in alts):
        how = 'direct'
    elif plain_recursive(G):
        how = 'indirect'
    else:
        how = 'hidden'
    return 'cycle-only-among-unreachable:' + how


def has_nullable_prefix(G):
    N = gr.nullable(G)
    return any(len(a) >= 2 and a[0] in N for alts in G.values() for a in alts)


# ---------------------------------------------------------------------------------------------
# clause evaluation on one named grammar
# ---------------------------------------------------------------------------------------------

def is_parsing_error(e):
    try:
        from ak import llparser
        return isinstance(e, llparser.Error)
    except Exception:       # noqa
        return False


def construct(G, start, terminals, smart):
    """-> (status, parser or None, text); status: 'accepted' | GIR | 'other-exception' | 'budget'"""
    kind, val, _ = gr.guarded(lambda: gr.make_parser(G, start, terminals, smart), wall_s=WALL_BUDGET)
    if kind == 'ok':
        return 'accepted', val, ''
    if kind == 'exc':
        if type(val).__name__ == GIR:
            return GIR, None, ''
        return 'other-exception', None, f"{type(val).__name__}: {str(val).splitlines()[-1][:120] if str(val) else ''}"
    return 'budget', None, str(val)


def check_construction(G, start, terminals, smart, lr, hidden):
    """-> (status, parser, fails[(clause, keysuffix, text)], diags[text])"""
    status, parser, text = construct(G, start, terminals, smart)
    fails, diags = [], []
    gs = gr.grammar_str(G)
    if status == 'accepted' and lr:
        cls = 'hidden-behind-nullable-prefix' if hidden else 'plain'
        cyc = sorted(cyclic_symbols(G))
        off = not (set(cyc) & gr.reachable(G, start))
        fails.append(('raises_iff_recursive', f"accepted-left-recursive:{cls}"
                      + (':cycle-unreachable-from-start-symbol' if off else ''),
                      f"constructor accepts the left-recursive grammar [{gs}] (start {start}, smart_factorization="
                      f"{smart}); expected GrammarIsRecursive ({cls} left recursion: {', '.join(cyc)} can reach "
                      f"{'themselves' if len(cyc) > 1 else 'itself'} without consuming a token"
                      + ("; not reachable from the start symbol, but 'some symbol can reach itself' holds" if off else '')
                      + ')'))
    elif status == GIR and not lr:
        fails.append(('raises_iff_recursive', 'rejected-non-recursive',
                      f"constructor raises GrammarIsRecursive for [{gs}] (start {start}, smart_factorization={smart}) "
                      f"which has no left-corner cycle"))
    elif status == 'other-exception':
        if lr:
            fails.append(('raises_iff_recursive', 'left-recursive-other-exception',
                          f"constructor raises {text} instead of GrammarIsRecursive for the left-recursive grammar "
                          f"[{gs}] (start {start})"))
        else:
            diags.append(f"constructor raises {text} for the well-formed non-recursive grammar [{gs}] (start {start}, "
                         f"smart_factorization={smart})")
    elif status == 'budget':
        fails.append(('raises_iff_recursive', 'constructor-does-not-return',
                      f"constructor neither returned nor raised ({text}) for [{gs}] (start {start})"))
    return status, parser, fails, diags


def check_parse(parser, tokens, lr, parse_start=None):
    """terminates clause on one input -> (outcome, steps, fail or None, diag or None);
    outcome: 'tree' | 'parsing-error' | 'other-exception' | 'overrun'.
    parse_start: None = the constructor's start symbol, else the value of parse's documented
    start_symbol_name argument (a nonterminal of the grammar)"""
    text = gr.text_of(tokens)
    if parse_start is None:
        call, shown = (lambda: parser.parse(text, do_cleanup=False)), f"parse({text!r})"
    else:
        call = lambda: parser.parse(text, do_cleanup=False, start_symbol_name=parse_start)
        shown = f"parse({text!r}, start_symbol_name={parse_start!r})"
    kind, val, steps = gr.guarded(call, wall_s=WALL_BUDGET, steps=STEP_BUDGET)
    if kind == 'ok':
        return 'tree', steps, None, None
    if kind == 'exc':
        if isinstance(val, RecursionError):
            return 'overrun', steps, ('terminates', 'unbounded', f"RecursionError in {shown}"), None
        if is_parsing_error(val):
            return 'parsing-error', steps, None, None
        return 'other-exception', steps, None, f"{shown} raises {type(val).__name__} (not a parsing error)"
    which = 'accepted-left-recursive-grammar' if lr else 'non-recursive-grammar'
    return 'overrun', steps, ('terminates', f"does-not-return:{which}",
                              f"{shown} did not return or raise: {val}"), None


def make_case(G, start, terminals, smart, tokens=None, parse_start=None):
    c = {'grammar': gr.to_json(G), 'start': start, 'terminals': list(terminals), 'smart_factorization': smart}
    if tokens is not None:
        c['input'] = list(tokens)
    if parse_start is not None:
        c['parse_start_symbol_name'] = parse_start
    return c


# ---------------------------------------------------------------------------------------------
# worker
# ---------------------------------------------------------------------------------------------

def _limit_memory():
    try:
        import resource
        lim = 6 << 30
        resource.setrlimit(resource.RLIMIT_AS, (lim, lim))
    except Exception:       # noqa
        pass


def work(task):
    tier, fam, part = task
    label, n_nt, terminals, max_alts, max_rhs, max_total, smarts, other_len, mode = fam
    with_unreachable = mode == 'unreachable'
    full = list(gr.all_strings(terminals, MAX_TOKENS))
    short = [w for w in full if len(w) <= other_len]
    assigns = gr.name_assignments(n_nt, POOL)
    cases = []              # (case string, nontrivial)
    fails = {}              # key -> (clause, text, case, size)
    hits = Counter()
    diags = []
    stats = Counter()
    max_steps = 0
    lr_probed = lr_overruns = 0

    def fail(clause, ksuf, text, case):
        key = f"C03.{clause}:{ksuf}"
        size = len(repr(case))
        cur = fails.get(key)
        if cur is None or size < cur[3]:
            fails[key] = (f"C03.{clause}", text, case, size)

    for shape in gr.enumerate_grammars(n_nt, terminals, max_alts, max_rhs, max_total, part=part,
                                       reachable_only=not with_unreachable):
        ucls = unreachable_class(shape, 'N0')
        if with_unreachable and ucls is None:
            continue            # all reachable: belongs to the 'reachable' families
        lr = gr.left_recursive(shape)
        hidden = lr and not plain_recursive(shape)
        nontrivial = has_nullable_prefix(shape)
        for ai, m in enumerate(assigns):
            G = gr.rename(shape, m)
            start = m['N0']
            if hidden:
                for ev in hidden_orders(G):
                    hits[ev] += 1
            # parse is called from the constructor's start symbol and, in the families with unreachable
            # symbols, from every other nonterminal through the documented start_symbol_name argument
            unreach = (set(G) - gr.reachable(G, start)) if with_unreachable else set()
            parse_starts = [None] + ([x for x in sorted(G) if x != start] if with_unreachable else [])
            for smart in smarts:
                if ucls is not None:
                    hits['unreachable-symbols:' + ucls] += 1
                cases.append((f"{gr.grammar_str(G)} / start {start} / smart={smart}", nontrivial))
                stats['recursive' if lr else 'non-recursive'] += 1
                status, parser, fl, dg = check_construction(G, start, terminals, smart, lr, hidden)
                stats['constructor:' + status] += 1
                for clause, ksuf, text in fl:
                    fail(clause, ksuf, text, make_case(G, start, terminals, smart))
                diags.extend(dg[:1] if len(diags) < 5 else [])
                if status != 'accepted':
                    continue
                if lr:
                    if lr_probed >= LR_PROBES_PER_TASK or lr_overruns >= LR_OVERRUNS_PER_TASK:
                        stats['accepted-left-recursive:parses-not-run'] += 1
                        continue
                    lr_probed += 1
                inputs = full if ((ai == 0 and smart is smarts[0]) or lr) else short
                overrun = False
                for ps in parse_starts:
                    if ps in unreach:
                        hits['parse:start_symbol_name-unreachable-from-constructor-start-symbol'] += 1
                        stats['grammars-parsed-from-an-unreachable-symbol'] += 1
                    for w in inputs:
                        outcome, steps, fl1, dg1 = check_parse(parser, w, lr, ps)
                        stats['parses'] += 1
                        stats['parse:' + outcome] += 1
                        if ps is not None:
                            stats['parses-with-start_symbol_name'] += 1
                        if fl1 is not None:
                            fail(fl1[0], fl1[1], f"[{gr.grammar_str(G)}] (start {start}, smart_factorization={smart}): "
                                 + fl1[2], make_case(G, start, terminals, smart, w, ps))
                            lr_overruns += 1 if lr else 0
                            overrun = True
                            break       # one overrun per grammar is enough (each costs the whole budget)
                        max_steps = max(max_steps, steps)
                        if dg1 and len(diags) < 5:
                            diags.append(f"[{gr.grammar_str(G)}] {dg1}")
                    if overrun:
                        break
    return cases, fails, hits, diags, stats, max_steps


def tasks_for(tier):
    out = []
    for fam in families(tier):
        n = 1 if fam[1] == 1 else 64
        for i in range(n):
            out.append((tier, fam, (i, n)))
    return out


def run(b):
    tasks = tasks_for(b.tier)
    ctx = multiprocessing.get_context('fork')
    nproc = min(16, os.cpu_count() or 1)
    stats = Counter()
    max_steps = 0
    with ctx.Pool(nproc, initializer=_limit_memory) as pool:
        for cases, fails, hits, diags, st, ms in pool.imap(work, tasks, chunksize=1):
            for cs, nt in cases:
                b.case(cs, nontrivial=nt)
            for key, (ob, text, case, _) in sorted(fails.items()):
                b.fail(ob, key, text, case)
            for ev, n in hits.items():
                b.hit(ev, n)
            for d in diags:
                b.diag(d)
            stats.update(st)
            max_steps = max(max_steps, ms)
    for k, v in sorted(stats.items()):
        b.notes[k] = v
    b.notes['max_parse_loop_events_of_a_finished_parse'] = max_steps
    b.notes['step_budget'] = STEP_BUDGET
    if stats['constructor:accepted'] == 0 or stats['parses'] == 0:
        b.error("no grammar was accepted / no input was parsed: the terminates clause was not exercised")
    if stats['recursive'] == 0 or stats['non-recursive'] == 0:
        b.error("the enumeration did not contain both recursive and non-recursive grammars")
    if stats['grammars-parsed-from-an-unreachable-symbol'] == 0:
        b.error("no accepted grammar was parsed with start_symbol_name = a symbol unreachable from the start symbol")
    b.require_reach(['hidden-recursion:nullable-sorts-before-recursive',
                     'hidden-recursion:nullable-sorts-after-recursive',
                     'unreachable-symbols:no-cycle',
                     'unreachable-symbols:cycle-also-among-reachable',
                     'unreachable-symbols:cycle-only-among-unreachable:direct',
                     'unreachable-symbols:cycle-only-among-unreachable:indirect',
                     'unreachable-symbols:cycle-only-among-unreachable:hidden',
                     'parse:start_symbol_name-unreachable-from-constructor-start-symbol'])


# ---------------------------------------------------------------------------------------------
# replay
# ---------------------------------------------------------------------------------------------

def replay_case(case):
    G = gr.from_json(case['grammar'])
    start, terminals, smart = case['start'], case['terminals'], case.get('smart_factorization', True)
    observed = []
    if not gr.well_formed(G, start, terminals):
        return True, ['grammar is not well-formed: outside the quantifier']
    lr = gr.left_recursive(G)
    hidden = lr and not plain_recursive(G)
    status, parser, fails, diags = check_construction(G, start, terminals, smart, lr, hidden)
    observed.append(f"spec left_recursive = {lr}; constructor: {status}")
    holds = not fails
    observed.extend(f[2] for f in fails)
    observed.extend(diags)
    if status == 'accepted' and case.get('input') is not None:
        ps = case.get('parse_start_symbol_name')
        if ps is not None and ps not in G:
            return holds, observed + [f"parse start symbol {ps!r} is not a nonterminal of the grammar: parse not run"]
        outcome, steps, fl, dg = check_parse(parser, case['input'], lr, ps)
        observed.append(f"parse({gr.text_of(case['input'])!r}"
                        + (f", start_symbol_name={ps!r}" if ps is not None else '')
                        + f"): {outcome} after {steps} parse-loop events")
        if fl is not None:
            holds = False
            observed.append(fl[2])
        if dg:
            observed.append(dg)
    return holds, observed
