"""C14 bounded driver: syntax colours resolve by inheritance, independent of registration order.

Top-level clauses (from the property statement), enforced at run time on the real ak.color code:
  resolved_color        after the constructor and after every registration, for every id of the description
                        map so far, get_color(id) has the prefix/suffix of ColorFmt(fg, bg_color=bg, **mods)
                        for (fg, bg, mods) = spec_resolve(map so far)(id) (harness/c14_spec.py, DESIGN D.3);
                        effect-free when the chain reaches an unknown id; no exception
  config_wins           a registration that loses against the explicit configuration (a component default, or
                        a built-in default, for an id the configuration describes) changes nothing: the history
                        with the losing registrations removed gives the same formatters and palettes
  order_independent     all histories (split config/later, order, batching) with the same final map give the
                        same formatters and palettes
  palettes_current      palettes obtained from the configuration after each registration (having obtained
                        palettes before it) equal palettes of a fresh configuration built from the map so far
  no_color_effect_free  with no_color=True every formatter and palette accessor is effect-free, no exception
Supporting (diagnostics only): unknown id falls back to the formatter of the default-text id; first
registration wins among components / against built-in defaults.
"""
import itertools
import multiprocessing
import os
from collections import Counter

from . import c14_spec as S
from . import c14_exec as X

# ------------------------------------------------------------------ feature grid
FG = ['', '-', 'RED', '155', '(1,2,3)', 'g4']
BG = ['', '-', 'BLUE', '17', '(5,0,2)', 'g20']
MODS = ['', 'bold', 'no_bold', 'bold,underline', 'no_bold,blink']
FULL_GRID = [(f, g, m) for f in FG for g in BG for m in MODS]            # 180
REDUCED_GRID = [                                                        # first g entries are used
    ('', '', ''),                     # inherits everything / plain default
    ('RED', '', 'bold'),              # own colour and modifier
    ('-', '', ''),                    # explicit terminal default colour
    ('', 'BLUE', 'no_bold'),          # own background, modifier switched off
    ('', '-', 'underline'),           # explicit terminal default background
    ('155', 'g20', ''),               # int code / gray
    ('(1,2,3)', '-', 'no_bold,blink'),
    ('', '', 'bold'),
]
UNKNOWN = 'U.N'            # never registered
BI_PARENT = 'KEYWORD'      # built-in id used as a parent ("BLUE:bold" in ColorsConfig.BUILT_IN_CONFIG)
NEVER = 'NEVER.SEEN'
NAMINGS = {
    'asc':  ['A', 'B', 'C', 'D'],                 # parents sort before children
    'desc': ['T.Z', 'T.Y', 'M', 'K.Q.B'],         # children sort before parents; nested groups
    'bi':   ['NUMBER', 'TEXT', 'X.W', 'NAME'],    # ids that also have built-in defaults
    # groups inside groups: ids with 3 and 4 components next to a 2-component id of the same top-level group;
    # the nested form is {'P': {'T': {'B': .., 'C': {'N': ..}}, 'A': ..}, 'M': ..}
    'deep': ['P.T.B', 'P.T.C.N', 'P.A', 'M'],
}
# every history of a set over these namings is run in both dict forms (form rotation and its mirror image)
BOTH_FORMS = ('deep',)
MECHANISMS = ['add', 'component', 'register', 'mk_palette']
# the documented modifier table: "a list of individual modifiers with optional 'no_' prefix"
KEYWORDS = list(S.MOD_NAMES) + ['no_' + m for m in S.MOD_NAMES]
ALL_ON = ','.join(S.MOD_NAMES)
ALL_OFF = ','.join('no_' + m for m in S.MOD_NAMES)
MIX_A = 'bold,no_faint,underline,no_blink,crossed'
MIX_B = 'no_bold,faint,no_underline,blink,no_crossed'
DEEP_CFG = 'description nested two or more levels deep in the initial configuration'
DEEP_DFLT = 'description nested two or more levels deep in component defaults'


def mod_event(kw, state):
    return f"modifier {kw} on top of a parent with the effect {state}"


REQUIRED_REACH = ['pending item resolved by a later batch', 'explicit - with a parent',
                  'built-in id overridden by config', DEEP_CFG, DEEP_DFLT] + \
                 [mod_event(kw, st) for kw in KEYWORDS for st in ('on', 'off')]


def universe_of(naming_names, n):
    u = list(naming_names[:n]) + [UNKNOWN, BI_PARENT, 'TEXT', NEVER]
    return sorted(set(u))


# ------------------------------------------------------------------ histories
def lists_of_lists(items):
    """every ordered sequence of non-empty ordered batches using all items exactly once"""
    n = len(items)
    if n == 0:
        yield []
        return
    for perm in itertools.permutations(items):
        for cuts in range(1 << (n - 1)):
            out, cur = [], [perm[0]]
            for j in range(1, n):
                if cuts >> (j - 1) & 1:
                    out.append(cur)
                    cur = []
                cur.append(perm[j])
            out.append(cur)
            yield out


def histories(entries, universe, set_index, ok_together=None, flip=0):
    """every split of `entries` between the initial configuration (every order) and later registrations
    (every order and batching).  Form (flat/nested), registration mechanism, global-config mode rotate
    deterministically with (set_index, history index); flip=1 gives the same histories with every dict in the
    other form."""
    idx = list(range(len(entries)))
    hi = 0
    for r in range(len(idx), -1, -1):
        for cfg_sel in itertools.combinations(idx, r):
            rest = [i for i in idx if i not in cfg_sel]
            if ok_together and not ok_together(cfg_sel):
                continue
            for cfg_perm in itertools.permutations(cfg_sel):
                for batches in lists_of_lists(rest):
                    if ok_together and not all(ok_together(b) for b in batches):
                        continue
                    v = set_index * 7 + hi
                    hi += 1
                    fv = v ^ (flip & 1)
                    steps = []
                    merged = len(batches) >= 2 and v % 5 == 3
                    if merged:      # all batches through one PARENT_PALETTES chain, registered at once
                        steps.append({'how': 'parents', 'form': 'nested' if fv & 1 else 'flat',
                                      'batches': [[list(entries[i]) for i in b] for b in batches]})
                    else:
                        for k, b in enumerate(batches):
                            steps.append({'how': MECHANISMS[(v // 2 + k) % len(MECHANISMS)],
                                          'form': 'nested' if (fv + k) & 1 else 'flat',
                                          'batches': [[list(entries[i]) for i in b]]})
                    yield {'config': [list(entries[i]) for i in cfg_perm],
                           'config_form': 'nested' if fv & 1 else 'flat',
                           'steps': steps, 'universe': universe,
                           'no_color': False, 'global': v % 8 == 5}


# ------------------------------------------------------------------ checking one history
class Acc:
    """what a worker returns to the parent (plain data)"""
    def __init__(self):
        self.cases = []          # (case, nontrivial)
        self.evals = 0
        self.hits = Counter()
        self.fails = {}          # key -> (obligation, text, case, size)
        self.diags = []
        self.errors = []

    def fail(self, obligation, key, text, case):
        size = len(repr(case))
        cur = self.fails.get(key)
        if cur is None or size < cur[3]:
            self.fails[key] = (obligation, text, case, size)

    def diag(self, text):
        if len(self.diags) < 20 and text not in self.diags:
            self.diags.append(text)

    def export(self):
        return {'cases': self.cases, 'evals': self.evals, 'hits': dict(self.hits), 'fails': self.fails,
                'diags': self.diags, 'errors': self.errors}


def mkey(M):
    return tuple(sorted(M.items()))


def hist_str(h):
    s = f"ColorsConfig({X.as_dict(h['config'], h.get('config_form', 'flat'))!r}" \
        + (", no_color=True" if h.get('no_color') else '') + ")"
    for st in h['steps']:
        form = 'flat' if st['how'] == 'add' else st.get('form', 'flat')      # add_new_items takes a flat dict
        s += f"; {st['how']}" + '+'.join(repr(X.as_dict(b, form)) for b in st['batches'])
    if h.get('global'):
        s += ' [as global config]'
    if h.get('drop_builtins'):
        s += f" [built-ins without {h['drop_builtins']}]"
    return s


class Ctx:
    """per description-set caches: spec and fresh-configuration observations by map"""
    def __init__(self):
        self.exp = {}
        self.fresh = {}
        self.inf = {}

    def expected(self, M, universe, no_color=False):
        k = (mkey(M), no_color)
        r = self.exp.get(k)
        if r is None:
            r = {sid: X.expected_obs(M, sid, no_color) for sid in universe}
            self.exp[k] = r
        return r

    def info(self, M, universe):
        """(spec result per registered observed id, reach flags) of a map"""
        k = mkey(M)
        r = self.inf.get(k)
        if r is None:
            spec = {sid: S.spec_resolve(M, sid) for sid in M if sid in universe}
            flags = []
            if any(spec[s] is not None and S.has_dash_with_parent(M, [s]) for s in spec):
                flags.append('explicit - with a parent')
            if any(spec[s] is None for s in spec):
                flags.append('chain reaches an unknown id')
            if any(spec[s] is not None and len(S.chain(M, s)) >= 3 for s in spec):
                flags.append('chain of length >= 3')
            for s in spec:          # own modifier keywords against the state the parent resolves to
                if spec[s] is None:
                    continue
                parent, _fg, _bg, mods = S.parse_descr(M[s])
                if parent is None or not mods:
                    continue
                pm = S.spec_resolve(M, parent)[2]
                for eff, val in mods.items():
                    st = {True: 'on', False: 'off', None: 'unset'}[pm.get(eff)]
                    ev = mod_event(eff if val else 'no_' + eff, st)
                    if ev not in flags:
                        flags.append(ev)
            r = (spec, flags)
            self.inf[k] = r
        return r

    def fresh_pal(self, M, universe):
        """palettes of a fresh configuration built from the map M (None when it cannot be built)"""
        k = (mkey(M), tuple(universe))
        if k not in self.fresh:
            rec = X.run_history({'config': [list(p) for p in sorted(M.items())], 'config_form': 'flat',
                                 'steps': [], 'universe': universe, 'no_color': False, 'global': False})
            self.fresh[k] = rec[0]['pal'] if rec and 'pal' in rec[0] else None
        return self.fresh[k]


def final_summary(recs):
    last = recs[-1]
    if 'raise' in last:
        return ['raise', last['raise'][1]]
    pal = {k: v for k, v in last['pal'].items() if not k.startswith('G:')}
    return ['ok', last['obs'], pal]


def check_history(h, ctx, acc, case_of=None):
    """resolved_color + palettes_current (+ fallback diagnostics, reach events) on one coloured history.
    -> (records, maps)"""
    case = case_of or {'kind': 'history', 'h': h}
    universe = h['universe']
    maps = X.final_maps(h)
    recs = X.run_history(h)
    acc.evals += 1
    cfg_ids = {p[0] for p in h['config']}
    if cfg_ids & set(X.builtins_flat()):
        acc.hits['built-in id overridden by config'] += 1
    if h.get('global'):
        acc.hits['global config with synced palettes'] += 1
    if h.get('config_form') == 'nested' and any('.' in i for i in cfg_ids):
        acc.hits['nested configuration'] += 1
    deep = S.deep_ids(h['config'], h.get('config_form', 'flat'))
    if deep:
        acc.hits[DEEP_CFG] += 1
    for st in h['steps']:
        acc.hits['registration via ' + st['how']] += 1
        if st['how'] != 'add':          # add_new_items takes a flat dict
            dd = set()
            for bt in st['batches']:
                dd |= S.deep_ids(bt, st.get('form', 'flat'))
            if dd:
                acc.hits[DEEP_DFLT] += 1
                deep |= dd
    prev_spec = None
    for k, rec in enumerate(recs):
        M = maps[k]
        spec_now, flags = ctx.info(M, universe)
        if prev_spec is not None and any(s in prev_spec and prev_spec[s] is None and spec_now[s] is not None
                                         for s in spec_now):
            acc.hits['pending item resolved by a later batch'] += 1
        for fl in flags:
            acc.hits[fl] += 1
        if 'raise' in rec:
            where, tname, msg = rec['raise']
            cls = 'dash-with-parent' if S.has_dash_with_parent(M) else 'other'
            if tname == 'BudgetOverrun':
                cls = 'no-termination'
            acc.fail('C14.resolved_color', f"C14.resolved_color:raises-{tname}:{cls}",
                     f"{hist_str(h)}: {where} raises {tname}: {msg}", case)
            break
        exp = ctx.expected(M, universe)
        prev_spec = spec_now
        for sid in universe:
            got = rec['obs'][sid]
            if sid in M:
                want = exp[sid]
                if got != want:
                    ch = S.chain(M, sid)
                    if S.spec_resolve(M, sid) is None:
                        cls = 'should-stay-uncoloured'
                    elif S.has_dash_with_parent(M, ch):
                        cls = 'dash-with-parent'
                    elif deep.intersection(ch):
                        cls = 'id-nested-two-or-more-levels-deep'
                    elif got == ['', ''] and len(ch) >= 2:
                        cls = 'pending-not-resolved'
                    else:
                        cls = 'wrong-colour'
                    acc.fail('C14.resolved_color', f"C14.resolved_color:mismatch:{cls}",
                             f"{hist_str(h)}: after state {k} get_color({sid!r}) gives prefix/suffix {got}, "
                             f"the description map {dict(sorted(M.items()))} demands {want}", case)
            else:
                want = exp.get('TEXT') if 'TEXT' in M else ['', '']
                if got != want:
                    acc.diag(f"supporting get_color.fallback: {hist_str(h)}: unregistered id {sid!r} gives {got}, "
                             f"default-text id gives {want}")
        # palettes reflect the current state
        fp = ctx.fresh_pal(M, universe)
        if fp is not None:
            for pk, got in rec['pal'].items():
                base = pk[2:] if pk.startswith('G:') else pk
                if got != fp.get(base):
                    kind = ('synced-global' if pk.startswith('G:') else 'from-config') + \
                           (':first-palette' if k == 0 else ':after-registration')
                    acc.fail('C14.palettes_current', f"C14.palettes_current:{kind}",
                             f"{hist_str(h)}: palette accessor {pk} obtained after state {k} gives {got}, a palette of "
                             f"a fresh ColorsConfig({dict(sorted(M.items()))}) gives {fp.get(base)}", case)
                    break
    return recs, maps


def check_no_color(h, acc):
    h2 = dict(h, no_color=True)
    recs = X.run_history(h2)
    acc.evals += 1
    acc.hits['no_color configuration'] += 1
    case = {'kind': 'history', 'h': h2}
    for k, rec in enumerate(recs):
        if 'raise' in rec:
            where, tname, msg = rec['raise']
            acc.fail('C14.no_color_effect_free', f"C14.no_color_effect_free:raises-{tname}",
                     f"{hist_str(h2)}: {where} raises {tname}: {msg}", case)
            break
        bad = [(s, v) for s, v in rec['obs'].items() if v != ['', '']] + \
              [(s, v) for s, v in rec['pal'].items() if v != ['', '']]
        if bad:
            acc.fail('C14.no_color_effect_free', "C14.no_color_effect_free:has-effect",
                     f"{hist_str(h2)}: after state {k} {bad[0][0]} gives prefix/suffix {bad[0][1]}", case)
            break


def compare_final(a, b):
    """None when equal, else a short description"""
    if a == b:
        return None
    if a[0] != b[0] or a[0] == 'raise':
        return f"{a[:2] if a[0] == 'raise' else 'formatters'} vs {b[:2] if b[0] == 'raise' else 'formatters'}"
    for part, nm in ((1, 'get_color'), (2, 'palette')):
        for k2 in a[part]:
            if a[part][k2] != b[part].get(k2):
                return f"{nm} {k2}: {a[part][k2]} vs {b[part].get(k2)}"
    return 'different'


# ------------------------------------------------------------------ description sets
def set_entries(names, combo):
    """combo: per position (parent choice, (fg, bg, mods)) -> [(id, descr)]"""
    return [(names[i], S.render(p, *feat)) for i, (p, feat) in enumerate(combo)]


def is_nontrivial(entries):
    M = dict(entries)
    M.update({k: v for k, v in X.builtins_flat().items() if k not in M})
    return any(len(S.chain(M, sid)) >= 2 for sid, _ in entries)


def process_set(entries, universe, set_index, acc, no_color_all=False, flips=(0,)):
    """all histories of one conflict-free description set (for every flip in `flips`: see histories)"""
    ctx = Ctx()
    groups = {}
    nhist = 0
    for hi, h in enumerate(itertools.chain.from_iterable(
            histories(entries, universe, set_index, flip=fl) for fl in flips)):
        nhist += 1
        recs, maps = check_history(h, ctx, acc)
        fin = final_summary(recs)
        k = mkey(maps[-1])
        first = groups.get(k)
        if first is None:
            groups[k] = (h, fin)
        else:
            d = compare_final(first[1], fin)
            if d is not None:
                kind = 'raise-vs-value' if 'raise' in (first[1][0], fin[0]) else 'differs'
                acc.fail('C14.order_independent', f"C14.order_independent:{kind}",
                         f"same final map, different result ({d}): [{hist_str(first[0])}] vs [{hist_str(h)}]",
                         {'kind': 'pair', 'a': first[0], 'b': h})
        if no_color_all or not h['steps'] or (hi + set_index) % 4 == 0:
            check_no_color(h, acc)
    acc.cases.append(({'ids': [e[0] for e in entries], 'descr': [e[1] for e in entries]}, is_nontrivial(entries)))
    return nhist


def split_losers(h):
    """-> (control history without the losing registrations, kinds of losers)"""
    seen = {p[0]: 'config' for p in h['config']}
    kinds = set()
    drop = []
    for sid in X.builtins_flat(h.get('drop_builtins') or ()):
        if sid in seen:
            drop.append(sid)
            kinds.add('builtin-loses-to-config')
        else:
            seen[sid] = 'builtin'
    steps = []
    for st in h['steps']:
        nb = []
        for b in st['batches']:
            keep = []
            for sid, d in b:
                if sid in seen:
                    kinds.add('later-loses-to-' + seen[sid])
                else:
                    seen[sid] = 'later'
                    keep.append([sid, d])
            if keep:
                nb.append(keep)
        if nb:
            steps.append(dict(st, batches=nb))
    ctl = dict(h, steps=steps, drop_builtins=sorted(set(h.get('drop_builtins') or ()) | set(drop)))
    return ctl, kinds


def check_conflict(h, acc):
    """config_wins (metamorphic): removing the losing registrations changes nothing"""
    ctl, kinds = split_losers(h)
    if not kinds:
        return
    a = final_summary(X.run_history(h))
    b = final_summary(X.run_history(ctl))
    acc.evals += 2
    for kd in kinds:
        acc.hits['conflict: ' + kd] += 1
    d = compare_final(a, b)
    if d is None:
        return
    text = f"[{hist_str(h)}] differs from the same history without the losing registrations [{hist_str(ctl)}]: {d}"
    if 'later-loses-to-config' in kinds:
        acc.fail('C14.config_wins', 'C14.config_wins:component-default-changes-result', text,
                 {'kind': 'conflict', 'h': h})
    elif 'builtin-loses-to-config' in kinds:
        acc.fail('C14.config_wins', 'C14.config_wins:builtin-default-changes-result', text,
                 {'kind': 'conflict', 'h': h})
    else:
        acc.diag('supporting add_new_items.first_wins: ' + text)


# ------------------------------------------------------------------ spaces (work units)
def params(tier):
    """S entries: (naming, exact number of ids, number of reduced-grid entries, parent kinds besides earlier ids)"""
    full = (None, UNKNOWN, BI_PARENT)
    if tier == 'thorough':
        s_entries = [(nm, n, 8, full) for nm in ('asc', 'desc', 'bi', 'deep') for n in (1, 2)] + \
                    [('asc', 3, 5, full), ('desc', 3, 5, full), ('bi', 3, 4, full), ('deep', 3, 3, full),
                     ('asc', 4, 2, (None, UNKNOWN)), ('desc', 4, 2, (None, UNKNOWN)),
                     ('deep', 4, 2, (None,))]
        return {'S': s_entries,
                'V_parent_grid': [(f, g, m) for (f, g, m) in FULL_GRID if m in ('', 'bold,underline')],
                'C_grid': 8, 'C_names': ['A', 'T.X', 'NUMBER', 'TEXT', 'NAME']}
    s_entries = [(nm, n, 8, full) for nm in ('asc', 'desc', 'bi', 'deep') for n in (1, 2)] + \
                [('asc', 3, 4, full), ('desc', 3, 4, full), ('deep', 3, 2, (None, UNKNOWN))]
    return {'S': s_entries, 'V_parent_grid': REDUCED_GRID,
            'C_grid': 6, 'C_names': ['A', 'T.X', 'NUMBER', 'TEXT']}


def s_space(naming, n, g, kinds):
    """every description set on exactly n ids of the naming"""
    names = NAMINGS[naming]
    per_pos = [[(p, f) for p in list(kinds) + list(names[:i]) for f in REDUCED_GRID[:g]] for i in range(n)]
    return names, itertools.product(*per_pos)


def s_size(naming, n, g, kinds):
    r = 1
    for i in range(n):
        r *= (len(kinds) + i) * g
    return r


def unit_S(args):
    naming, n, g, kinds, lo, hi = args
    acc = Acc()
    names, prod = s_space(naming, n, g, kinds)
    uni = universe_of(names, n)
    for idx, combo in enumerate(itertools.islice(prod, lo, hi), lo):
        process_set(set_entries(names, combo), uni, idx, acc, flips=(0, 1) if naming in BOTH_FORMS else (0,))
    return acc.export()


def v_sets(pgrid):
    """value grid: X with the full fg x bg x modifiers grid; alone (no parent / unknown / built-in parent)
    or as a child of P, P from `pgrid` (P itself without parent, or child of the built-in id)"""
    for feat in FULL_GRID:
        for p in (None, UNKNOWN, BI_PARENT):
            yield [('X', S.render(p, *feat))]
    for pi, pf in enumerate(pgrid):
        pp = BI_PARENT if pi % 3 == 2 else None
        for feat in FULL_GRID:
            yield [('P.Q', S.render(pp, *pf)), ('X', S.render('P.Q', *feat))]


def unit_V(args):
    tier, lo, hi = args
    acc = Acc()
    uni = sorted({'X', 'P.Q', UNKNOWN, BI_PARENT, 'TEXT', NEVER})
    for idx, entries in enumerate(itertools.islice(v_sets(params(tier)['V_parent_grid']), lo, hi), lo):
        process_set(entries, uni, idx, acc, no_color_all=True)
    return acc.export()


def opposite(kw):
    return kw[3:] if kw.startswith('no_') else 'no_' + kw


def m_sets(tier):
    """modifier table: every keyword of the documented table (the five effects and their 'no_' forms) on top of
    parents that switch every effect on / off / leave it unset / mix, inherited further by a grandchild"""
    thorough = tier == 'thorough'
    p_states = [('RED', 'YELLOW', ALL_ON), ('RED', 'YELLOW', ALL_OFF), ('RED', 'YELLOW', ''),
                ('RED', '', MIX_A), ('', 'g20', MIX_B)]
    x_colours = [('', ''), ('BLUE', '')] + ([('-', 'g20'), ('', '(5,0,2)')] if thorough else [])
    combos = [ALL_ON, ALL_OFF, MIX_A, MIX_B]
    # (a) P.Q -> X (one keyword) -> L
    for ps in p_states:
        for kw in KEYWORDS:
            for xi, xc in enumerate(x_colours):
                leaf = S.render('X', '', 'BLUE', '') if xi % 2 == 0 else S.render('X', '', '', opposite(kw))
                yield [('P.Q', S.render(None, *ps)), ('X', S.render('P.Q', xc[0], xc[1], kw)), ('L', leaf)]
    # (b) one keyword on top of one keyword
    for ka in KEYWORDS:
        for kb in KEYWORDS:
            yield [('P.Q', S.render(None, 'GREEN', '', ka)), ('X', S.render('P.Q', '', '', kb))]
    # (c) two keywords (of different effects) and whole combinations in one description
    pairs = [a + ',' + b2 for a, b2 in itertools.combinations(KEYWORDS, 2) if opposite(a) != b2 and
             a.replace('no_', '') != b2.replace('no_', '')]
    for ps in (p_states if thorough else p_states[:3]):
        for pr in pairs:
            yield [('P.Q', S.render(None, *ps)), ('X', S.render('P.Q', '', '', pr))]
    for ps in p_states:
        for cb in combos:
            yield [('P.Q', S.render(None, *ps)), ('X', S.render('P.Q', '', '', cb))]
    # (d) a single description: no parent / unknown parent / built-in parent
    for p in (None, UNKNOWN, BI_PARENT):
        for fg in ('', 'GREEN'):
            for md in KEYWORDS + combos:
                yield [('X', S.render(p, fg, '', md))]


def unit_M(args):
    tier, lo, hi = args
    acc = Acc()
    uni = sorted({'X', 'P.Q', 'L', UNKNOWN, BI_PARENT, 'TEXT', NEVER})
    for idx, entries in enumerate(itertools.islice(m_sets(tier), lo, hi), lo):
        process_set(entries, uni, idx, acc, no_color_all=True)
    return acc.export()


def c_sets(tier):
    """conflicting descriptions: X described twice (d_a != d_b), optionally a child Y of X"""
    pr = params(tier)
    grid = REDUCED_GRID[:pr['C_grid']]
    for xn in pr['C_names']:
        for fa in grid:
            for fb in grid:
                if fa == fb:
                    continue
                for pa in (None, BI_PARENT):
                    if pa == BI_PARENT and xn == BI_PARENT:
                        continue
                    da, db = S.render(pa, *fa), S.render(None, *fb)
                    if da == db:
                        continue
                    yield [(xn, da), (xn, db)]
                    for fy in grid[:4]:
                        yield [(xn, da), (xn, db), ('Y', S.render(xn, *fy))]
        # a built-in id described once: the built-in default is the competitor
        if xn in X.builtins_flat():
            for fa in grid:
                yield [(xn, S.render(None, *fa))]
                for fy in grid[:4]:
                    yield [(xn, S.render(None, *fa)), ('Y', S.render(xn, *fy))]


def unit_C(args):
    tier, lo, hi = args
    acc = Acc()
    for idx, entries in enumerate(itertools.islice(c_sets(tier), lo, hi), lo):
        ids = [e[0] for e in entries]
        uni = sorted(set(ids) | {UNKNOWN, BI_PARENT, 'TEXT', NEVER})

        def ok(sel, ids=ids):
            return len({ids[i] for i in sel}) == len(sel)      # one description per id in one dict
        n = 0
        for h in histories(entries, uni, idx, ok_together=ok):
            check_conflict(h, acc)
            n += 1
        acc.cases.append(({'conflict': True, 'ids': ids, 'descr': [e[1] for e in entries]}, len(entries) >= 3))
    return acc.export()


def _unit(job):
    kind, args = job
    try:
        return {'S': unit_S, 'V': unit_V, 'C': unit_C, 'M': unit_M}[kind](args)
    except Exception as e:      # noqa  harness error -> checker error, not a verdict
        import traceback
        return {'cases': [], 'evals': 0, 'hits': {}, 'fails': {}, 'diags': [],
                'errors': [f"harness exception in unit {job!r}: {type(e).__name__}: {e} "
                           f"{traceback.format_exc(limit=3)}"]}


def self_check(b):
    """the harness's own parser inverts its own renderer on the whole grid (checker error otherwise)"""
    tokv = {'': ('unset',), '-': ('dash',), 'RED': ('val', 'RED'), '155': ('val', 155), '(1,2,3)': ('val', (1, 2, 3)),
            'g4': ('val', 'g4'), 'BLUE': ('val', 'BLUE'), '17': ('val', 17), '(5,0,2)': ('val', (5, 0, 2)),
            'g20': ('val', 'g20')}
    modv = {'': {}, 'bold': {'bold': True}, 'no_bold': {'bold': False}, 'underline': {'underline': True},
            'bold,underline': {'bold': True, 'underline': True}, 'no_bold,blink': {'bold': False, 'blink': True}}
    for feat in FULL_GRID + REDUCED_GRID:
        for p in (None, 'A', 'T.Z', UNKNOWN):
            s = S.render(p, *feat)
            try:
                got = S.parse_descr(s)
            except S.BadDescr:
                got = None
            want = (p, tokv[feat[0]], tokv[feat[1]], modv[feat[2]])
            if got != want:
                b.error(f"harness self-check: parse_descr({s!r}) = {got}, rendered from {want}")
                return False
    for entries in m_sets('thorough'):      # modifier sections: the table as documented
        for _sid, s in entries:
            md = s.split(':')[-1] if ':' in s else ''
            words = [w for w in md.split(',') if w in KEYWORDS]
            want = {w[3:] if w.startswith('no_') else w: not w.startswith('no_') for w in words}
            try:
                got = S.parse_descr(s)[3]
            except S.BadDescr:
                got = None
            if got != want:
                b.error(f"harness self-check: parse_descr({s!r}) modifiers = {got}, rendered from {want}")
                return False
    pairs = [('T.Z', 'RED'), ('M', ''), ('T.Y', 'T.Z'), ('K.Q.B', 'M:bold')]
    if S.flatten(S.nest(pairs)) != dict(pairs):
        b.error("harness self-check: flatten(nest(x)) != x")
        return False
    pairs = [(n, 'RED') for n in NAMINGS['deep']]
    nested = S.nest(pairs)
    if nested != {'P': {'T': {'B': 'RED', 'C': {'N': 'RED'}}, 'A': 'RED'}, 'M': 'RED'} or \
            S.flatten(nested) != dict(pairs) or S.deep_ids(pairs, 'nested') != {'P.T.B', 'P.T.C.N'} or \
            S.deep_ids(pairs, 'flat'):
        b.error("harness self-check: nest / deep_ids on the deep naming")
        return False
    return True


def jobs_for(tier):
    pr = params(tier)
    jobs = []
    for naming, n, g, kinds in pr['S']:
        size = s_size(naming, n, g, kinds)
        per = {1: 64, 2: 64, 3: 24, 4: 4}[n]
        for lo in range(0, size, per):
            jobs.append(('S', (naming, n, g, kinds, lo, min(size, lo + per))))
    nv = sum(1 for _ in v_sets(pr['V_parent_grid']))
    for lo in range(0, nv, 60):
        jobs.append(('V', (tier, lo, min(nv, lo + 60))))
    nm = sum(1 for _ in m_sets(tier))
    for lo in range(0, nm, 12):
        jobs.append(('M', (tier, lo, min(nm, lo + 12))))
    nc = sum(1 for _ in c_sets(tier))
    for lo in range(0, nc, 40):
        jobs.append(('C', (tier, lo, min(nc, lo + 40))))
    return jobs


def describe(tier):
    pr = params(tier)
    s = '; '.join(f"{NAMINGS[nm][:n]} x {g} grid entries x parent kinds {['none' if k is None else k for k in kinds]}"
                  f" = {s_size(nm, n, g, kinds)} sets"
                  for nm, n, g, kinds in pr['S'])
    return s, len(pr['V_parent_grid']), pr['C_grid'], pr['C_names'], sum(1 for _ in m_sets(tier))


def run(b):
    if not self_check(b):
        return
    jobs = jobs_for(b.tier)
    nproc = max(1, min(16, os.cpu_count() or 1))
    ctx = multiprocessing.get_context('fork')
    with ctx.Pool(nproc) as pool:
        results = pool.imap(_unit, jobs, chunksize=1)
        for res in results:
            for case, nt in res['cases']:
                b.case(case, nontrivial=nt)
            b.count(max(0, res['evals'] - len(res['cases'])))
            for ev, n in res['hits'].items():
                b.hit(ev, n)
            for key, (obligation, text, case, _size) in res['fails'].items():
                b.fail(obligation, key, text, case)
            for d in res['diags']:
                b.diag(d)
            for e in res['errors']:
                b.error(e)
    b.require_reach(REQUIRED_REACH + ['chain reaches an unknown id', 'nested configuration',
                                      'global config with synced palettes', 'no_color configuration',
                                      'conflict: later-loses-to-config', 'conflict: builtin-loses-to-config',
                                      'registration via parents', 'registration via component'])


# ------------------------------------------------------------------ replay
def _precondition(h):
    try:
        for M in X.final_maps(h):
            if not S.valid_acyclic(M):
                return False
        for st in h['steps']:
            for bt in st['batches']:
                for _sid, d in bt:
                    S.parse_descr(d)        # losing registrations must be valid descriptions too
    except Exception:      # noqa
        return False
    return True


def replay_case(case):
    acc = Acc()
    kind = case.get('kind')
    hs = [case['a'], case['b']] if kind == 'pair' else [case['h']]
    if not all(_precondition(h) for h in hs):
        return True, 'pre-condition not met (descriptions must be syntactically valid and acyclic)'
    if kind == 'pair':
        ctx = Ctx()
        ra, ma = check_history(case['a'], ctx, acc)
        rb, mb = check_history(case['b'], ctx, acc)
        d = compare_final(final_summary(ra), final_summary(rb)) if mkey(ma[-1]) == mkey(mb[-1]) else None
        if d is not None:
            acc.fail('C14.order_independent', 'C14.order_independent',
                     f"same final map, different result ({d}): [{hist_str(case['a'])}] vs [{hist_str(case['b'])}]", case)
    elif kind == 'conflict':
        check_conflict(case['h'], acc)
    elif case['h'].get('no_color'):
        check_no_color(dict(case['h'], no_color=False), acc)
    else:
        check_history(case['h'], Ctx(), acc)
    obs = [f"{ob}: {text}" for ob, text, _c, _s in acc.fails.values()]
    return (not obs), obs or 'all top-level clauses hold'
