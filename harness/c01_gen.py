"""C01 helpers: tokenizer lexicons, input rendering, grammar families, and the spec functions
(independent of ak.llparser: nothing in this module imports or calls the code under test).

Abstract grammars use terminals 'a','b','c' and non-terminals 'E','X','Y','Z','S'; `concretize`
renames them to the token names of a lexicon and to one of several non-terminal name sets.
"""
import itertools
import random
import re

ABS_TERMS = ['a', 'b', 'c']
ABS_NTS = ['E', 'X', 'Y', 'Z', 'S', 'Q']      # 'Q' is only used as a ProdSequence symbol

# ----------------------------------------------------------------------------------------------
# lexicons: a tokenizer configuration + for each abstract terminal the token name the tokenizer
# must report and the texts that produce it.  Every named group spans its whole token, therefore
# the expected token value is the token text itself.
# 'seps': separators that may be put between tokens (never changes the non-skipped token list),
# 'glue': True when the empty separator is allowed between two tokens.
# A text of a terminal is either a string (the named group spans the whole token: value == text) or a
# pair [text, value] (the named group is a part of the match, e.g. a quoted identifier: the token value
# is the group's text, as in the constructor's own example "(?P<DQ_STRING>[^"]*)").
# 'kw' / 'syn': token names produced by a keyword entry / by a synonym entry;
# 'kwsyn': {keyword token: plain token} for keyword entries KEYED BY A SYNONYM NAME, i.e. the plain token
# is itself the new name of one or several regex groups (constructor documentation: synonyms =
# {name_of_re_pattern: name_of_token}, keywords = {(token_name, value): token_name} - the key of a keyword
# entry is the name of the TOKEN, that is the name after the synonyms were applied).
LEXICONS = {
    'plain': {
        'tokenizer': r'(?P<SPACE>\s+)|(?P<a>a)|(?P<b>b)|(?P<c>c)',
        'kwargs': {},
        'terms': [('a', ['a']), ('b', ['b']), ('c', ['c'])],
        'seps': [' ', '', '\n', '  ', ' \n ', '\t'],
        'glue': True,
        'kw': [], 'syn': [],
    },
    'kwsyn1': {
        'tokenizer': r'(?P<SPACE>\s+)|(?P<COMMENT>/\*[^*]*\*/)|(?P<WORD>[a-z_]+)|(?P<NUM>[0-9]+)'
                     r'|(?P<PLUS>\+)|(?P<DQ>"[^"]*")|(?P<SQ>' + r"'[^']*')",
        'kwargs': {'synonyms': {'PLUS': '+', 'DQ': 'STR', 'SQ': 'STR'},
                   'keywords': [['WORD', 'if', 'IF'], ['WORD', 'then', 'THEN']]},
        'terms': [('WORD', ['x', 'foo', 'iffy', 'then_']), ('+', ['+']), ('IF', ['if'])],
        'seps': [' ', '\n', ' /*c*/ ', '/* x */', '\t ', ' /**/\n'],
        'glue': False,
        'kw': ['IF', 'THEN'], 'syn': ['+', 'STR'],
    },
    'kwsyn2': {
        'tokenizer': r'(?P<SPACE>\s+)|(?P<COMMENT>/\*[^*]*\*/)|(?P<WORD>[a-z_]+)|(?P<NUM>[0-9]+)'
                     r'|(?P<PLUS>\+)|(?P<DQ>"[^"]*")|(?P<SQ>' + r"'[^']*')",
        'kwargs': {'synonyms': {'PLUS': '+', 'DQ': 'STR', 'SQ': 'STR'},
                   'keywords': [['WORD', 'if', 'IF'], ['WORD', 'then', 'THEN']]},
        'terms': [('STR', ['"s"', "'q'", '""', '"if"']), ('THEN', ['then']), ('NUM', ['7', '42'])],
        'seps': [' ', '\n', ' /*c*/ ', '/* x */', '\t ', ' /**/\n'],
        'glue': False,
        'kw': ['IF', 'THEN'], 'syn': ['+', 'STR'],
    },
    # explicit skip_tokens: 'SPACE' is then an ordinary terminal (written '_'), WS and SEMI are skipped
    'skipc': {
        'tokenizer': r'(?P<WS>[ \t]+)|(?P<SEMI>;)|(?P<a>a)|(?P<SPACE>_)|(?P<c>c)',
        'kwargs': {'skip_tokens': ['WS', 'SEMI']},
        'terms': [('a', ['a']), ('SPACE', ['_']), ('c', ['c'])],
        'seps': [' ', '', ';', ' ; ', '\n', ';;'],
        'glue': True,
        'kw': [], 'syn': [],
    },
    # keyword entries keyed by a synonym name: two regex groups (plain and back-quoted identifier) are ONE
    # token NAME; ('NAME', 'let') / ('NAME', 'in') are keywords whichever group matched (the value of a
    # quoted identifier is the text between the quotes); ('NUM', '0') is a keyword on an un-renamed group.
    # a = the plain token, b, c = keywords made of it.
    'kwonsyn1': {
        'tokenizer': r'(?P<SPACE>\s+)|(?P<IDENT>[A-Za-z_][A-Za-z0-9_]*)|`(?P<QIDENT>[^`]*)`|(?P<NUM>[0-9]+)',
        'kwargs': {'synonyms': {'IDENT': 'NAME', 'QIDENT': 'NAME'},
                   'keywords': [['NAME', 'let', 'LET'], ['NAME', 'in', 'IN'], ['NUM', '0', 'ZERO']]},
        'terms': [('NAME', ['x', 'foo', 'letter', ['`a b`', 'a b'], 'Let', ['`in x`', 'in x'], 'inn', ['`f`', 'f']]),
                  ('LET', ['let', ['`let`', 'let']]),
                  ('IN', ['in', ['`in`', 'in']])],
        'seps': [' ', '\n', '  ', '\t', ' \n '],
        'glue': False,
        'kw': ['LET', 'IN', 'ZERO'], 'syn': ['NAME'],
        'kwsyn': {'LET': 'NAME', 'IN': 'NAME'},
    },
    # the same with single-character tokens that may be glued together, the keyword being the FIRST abstract
    # terminal (a = keyword KEY made of the token LTR = lower- or upper-case letter, b = LTR,
    # c = keyword NIL made of the renamed single group DIG -> DGT)
    'kwonsyn2': {
        'tokenizer': r'(?P<SPACE>\s+)|(?P<LOW>[a-z])|(?P<UP>[A-Z])|(?P<DIG>[0-9])',
        'kwargs': {'synonyms': {'LOW': 'LTR', 'UP': 'LTR', 'DIG': 'DGT'},
                   'keywords': [['LTR', 'k', 'KEY'], ['LTR', 'K', 'KEY'], ['DGT', '0', 'NIL']]},
        'terms': [('KEY', ['k', 'K']), ('LTR', ['x', 'Y', 'q', 'A', 'l']), ('NIL', ['0'])],
        'seps': [' ', '', '\n', '  ', '\t'],
        'glue': True,
        'kw': ['KEY', 'NIL'], 'syn': ['LTR', 'DGT'],
        'kwsyn': {'KEY': 'LTR', 'NIL': 'DGT'},
    },
    # ANOTHER token kind carries exactly the text of a keyword (family 'kwother'): a keyword entry is keyed by
    # (token name, value), therefore a token of a different kind with the same value keeps its own name.
    # Quoted strings whose named group excludes the quotes (the constructor's own example
    # "(?P<DQ_STRING>[^"]*)"), both quote styles renamed to STR, and '$name' variables, next to the keywords
    # ('WORD','if') -> IF, ('WORD','then') -> THEN: "if" is a STR with value 'if', $if a VAR with value 'if'.
    # a = the keyword, b = the string, c = the variable.
    'kwother1': {
        'tokenizer': r'(?P<SPACE>\s+)|(?P<WORD>[a-z_]+)|"(?P<DQ>[^"]*)"|' + r"'(?P<SQ>[^']*)'"
                     + r'|\$(?P<VAR>[a-z_]+)|(?P<NUM>[0-9]+)',
        'kwargs': {'synonyms': {'DQ': 'STR', 'SQ': 'STR'},
                   'keywords': [['WORD', 'if', 'IF'], ['WORD', 'then', 'THEN']]},
        'terms': [('IF', ['if']),
                  ('STR', [['"if"', 'if'], ["'if'", 'if'], ['"then"', 'then'], ['"s"', 's'], ["'a b'", 'a b'],
                           ['"iffy"', 'iffy'], ['""', '']]),
                  ('VAR', [['$if', 'if'], ['$x', 'x'], ['$then', 'then']])],
        'seps': [' ', '\n', '  ', '\t', ' \n '],
        'glue': False,
        'kw': ['IF', 'THEN'], 'syn': ['STR'],
        'kwother': True,
    },
    # single-character tokens that may be glued together: a letter, an escaped character (~x or @7, two regex
    # groups renamed to ESC), a digit; keywords ('LTR','k') -> KEY, ('ESC','z') -> EZ, ('DIG','0') -> NIL.
    # a = KEY, b = ESC (with the values 'k' and '0' of keywords declared for the kinds LTR / DIG),
    # c = LTR (with the value 'z' of the keyword declared for the kind ESC).
    'kwother2': {
        'tokenizer': r'(?P<SPACE>\s+)|(?P<LOW>[a-z])|~(?P<TLD>[a-z])|@(?P<AT>[0-9])|(?P<DIG>[0-9])',
        'kwargs': {'synonyms': {'LOW': 'LTR', 'TLD': 'ESC', 'AT': 'ESC'},
                   'keywords': [['LTR', 'k', 'KEY'], ['ESC', 'z', 'EZ'], ['DIG', '0', 'NIL']]},
        'terms': [('KEY', ['k']),
                  ('ESC', [['~k', 'k'], ['~x', 'x'], ['@0', '0'], ['@7', '7']]),
                  ('LTR', ['x', 'z', 'q'])],
        'seps': [' ', '', '\n', '  ', '\t'],
        'glue': True,
        'kw': ['KEY', 'EZ', 'NIL'], 'syn': ['LTR', 'ESC'],
        'kwother': True,
    },
    # the SAME value is a keyword of two token kinds, with different keyword tokens: ('LTR','k') -> KEY and
    # ('ESC','k') -> EKEY; ('DIG','0') -> NIL while the ESC '@0' stays an ESC.  a = KEY, b = EKEY, c = ESC.
    'kwother3': {
        'tokenizer': r'(?P<SPACE>\s+)|(?P<LOW>[a-z])|~(?P<TLD>[a-z])|@(?P<AT>[0-9])|(?P<DIG>[0-9])',
        'kwargs': {'synonyms': {'LOW': 'LTR', 'TLD': 'ESC', 'AT': 'ESC'},
                   'keywords': [['LTR', 'k', 'KEY'], ['ESC', 'k', 'EKEY'], ['DIG', '0', 'NIL']]},
        'terms': [('KEY', ['k']),
                  ('EKEY', [['~k', 'k']]),
                  ('ESC', [['~x', 'x'], ['@0', '0'], ['@7', '7']])],
        'seps': [' ', '', '\n', '  ', '\t'],
        'glue': True,
        'kw': ['KEY', 'EKEY', 'NIL'], 'syn': ['LTR', 'ESC'],
        'kwother': True,
    },
}
LEX_ORDER = ['plain', 'kwsyn1', 'skipc', 'kwsyn2']      # assigned round-robin to the grammars of the plan
KWONSYN_LEXICONS = ['kwonsyn1', 'kwonsyn2']             # assigned explicitly (family 'kwonsyn')
KWOTHER_LEXICONS = ['kwother1', 'kwother2', 'kwother3']     # assigned explicitly (family 'kwother')

NAMESETS = [
    ['E', 'X', 'Y', 'Z', 'S', 'Q'],
    ['Expr', 'X1', 'Yy', 'Zed', 'Start', 'Items'],
    ['M', 'D', 'B', 'Q', 'A', 'L'],          # another relative name order (the constructor sorts by name)
]


def lexicon_kwargs(lex):
    """keyword arguments for LLParser from the JSON-able lexicon description"""
    kw = {}
    src = LEXICONS[lex]['kwargs']
    if 'synonyms' in src:
        kw['synonyms'] = dict(src['synonyms'])
    if 'keywords' in src:
        kw['keywords'] = {(a, b): c for a, b, c in src['keywords']}
    if 'skip_tokens' in src:
        kw['skip_tokens'] = set(src['skip_tokens'])
    return kw


def has_skipped_token(sep):
    """does this separator contain at least one (skipped) token?  a bare newline is no token"""
    return sep.replace('\n', '') != ''


def render(lex, names, variant):
    """token names -> (toks, seps): toks = [[name, value] or [name, value, text], ...] the expected non-skipped
    tokens (text given when it differs from the value),
    seps = len(toks)+1 separators (lead, between..., trail).  Deterministic in (names, variant)."""
    L = LEXICONS[lex]
    texts = dict(L['terms'])
    rng = random.Random(variant * 7919 + len(names))
    toks = []
    for n in names:
        t = rng.choice(texts[n])
        toks.append([n, t] if isinstance(t, str) else [n, t[1], t[0]])      # [name, value(, text)]
    inner = [s for s in L['seps'] if s != ''] if not L['glue'] else L['seps']
    outer = L['seps'] + ['']
    seps = [rng.choice(outer)]
    for _ in range(len(names) - 1):
        seps.append(rng.choice(inner))
    if names:
        seps.append(rng.choice(outer))
    return toks, seps


def make_text(toks, seps):
    out = [seps[0]]
    for i, t in enumerate(toks):
        out.append(t[-1])
        out.append(seps[i + 1])
    return ''.join(out)


def spec_tokens_ex(lex, text):
    """Reference tokenizer written from the constructor's documentation (not from its code):
    the pattern is matched repeatedly; the token value is the text of the named group that matched;
    the token name is that group's name, replaced by its synonym if it has one
    (synonyms = {name_of_re_pattern: name_of_token}); a (token name, value) pair listed in `keywords`
    is reported as the token the entry names (keywords = {(token_name, value): token_name});
    tokens named in skip_tokens (default SPACE, COMMENT) are dropped.
    -> [(kind, name, value)], kind = the token name before the keyword table was applied"""
    L = LEXICONS[lex]
    kw = lexicon_kwargs(lex)
    syn = kw.get('synonyms', {})
    keywords = kw.get('keywords', {})
    skip = kw.get('skip_tokens', {'SPACE', 'COMMENT'})
    rx = re.compile(L['tokenizer'], re.VERBOSE)
    out = []
    for line in text.split('\n'):        # the text is tokenized line by line: a line break is no token
        line = line.rstrip()             # and ends a token; white space at the end of a line is no token
        pos = 0
        while pos < len(line):
            m = rx.match(line, pos)
            if m is None or m.end() == pos:
                raise ValueError(f"lexicon {lex!r}: no token at {pos} of line {line!r} of {text!r}")
            group = m.lastgroup
            value = m.group(group)
            kind = syn.get(group, group)
            name = keywords.get((kind, value), kind)
            if name not in skip:
                out.append((kind, name, value))
            pos = m.end()
    return out


def spec_tokens(lex, text):
    """the reference tokenizer: -> [(name, value)] of the non-skipped tokens"""
    return [(name, value) for _, name, value in spec_tokens_ex(lex, text)]


def other_kind_keyword_readings(lex, text):
    """positions at which a non-skipped token of the text carries exactly the value of a keyword entry
    declared for ANOTHER token kind: -> [(index, keyword token of that entry)].  By the documentation such
    an entry does not apply (the key of an entry is (token name, value)): the token keeps the name the
    reference tokenizer gives it."""
    entries = LEXICONS[lex]['kwargs'].get('keywords', [])
    out = []
    for i, (kind, name, value) in enumerate(spec_tokens_ex(lex, text)):
        for kn, kv, kt in entries:
            if kv == value and kn != kind and kt != name:
                out.append((i, kt))
    return out


def all_inputs(lex, terms, maxlen):
    """every token-name string of length <= maxlen over `terms`, rendered.  The rendered text is
    cross-checked against the reference tokenizer: 'the expected tokens are known by construction'
    is a property of this harness, a mismatch is an error of the harness (raises)."""
    res = []
    i = 0
    for n in range(maxlen + 1):
        for names in itertools.product(terms, repeat=n):
            toks, seps = render(lex, names, i)
            text = make_text(toks, seps)
            if spec_tokens(lex, text) != [(t[0], t[1]) for t in toks]:
                raise AssertionError(f"harness error: lexicon {lex!r}: text {text!r} rendered from {toks!r} "
                                     f"has the reference tokens {spec_tokens(lex, text)!r}")
            res.append((toks, seps))
            i += 1
    return res


# ----------------------------------------------------------------------------------------------
# concretisation

def concretize(prods, start, nterm, lex, nameset):
    """abstract grammar -> (concrete prods list, start, terminal names used for the inputs)"""
    tnames = [t for t, _ in LEXICONS[lex]['terms']]
    ren = {a: tnames[i] for i, a in enumerate(ABS_TERMS)}
    for i, n in enumerate(ABS_NTS):
        ren[n] = NAMESETS[nameset][i]
    cp = []
    for nt, alts in prods:
        if isinstance(alts, dict):      # {'seq': [symbols]} == ProdSequence(*symbols)
            cp.append([ren[nt], {'seq': [ren[s] for s in alts['seq']]}])
        else:
            cp.append([ren[nt], [[ren[s] for s in alt] for alt in alts]])
    return cp, ren[start], tnames[:nterm]


# ----------------------------------------------------------------------------------------------
# spec functions (DESIGN.md appendix D.1)

def nullable(G):
    N, ch = set(), True
    while ch:
        ch = False
        for x, alts in G.items():
            if x not in N and any(all(s in N for s in a) for a in alts):
                N.add(x)
                ch = True
    return N


def factor_info(alts):
    """Spec of common-prefix factorization of an ordered list of alternatives: neighbouring
    alternatives with the same first symbol form a group; the group's longest common prefix is split
    off and the remainders are grouped again.  Returns for every alternative index
    (depth, empty_remainder): depth = number of nested groups the alternative belongs to,
    empty_remainder = its remainder inside the innermost group is empty."""
    info = {}

    def rec(items, depth):
        chunks, cur, cur_first = [], [], object()
        for idx, rem in items:
            first = rem[0] if rem else None
            if cur and first != cur_first:
                chunks.append(cur)
                cur = []
            cur.append((idx, rem))
            cur_first = first
        if cur:
            chunks.append(cur)
        for ch in chunks:
            if len(ch) == 1 or ch[0][1] == ():
                for idx, rem in ch:
                    info[idx] = (depth, depth > 0 and rem == ())
                continue
            n = min(len(r) for _, r in ch)
            k = 0
            while k < n and all(r[k] == ch[0][1][k] for _, r in ch):
                k += 1
            rec([(idx, r[k:]) for idx, r in ch], depth + 1)

    rec([(i, tuple(a)) for i, a in enumerate(alts)], 0)
    return info


# ----------------------------------------------------------------------------------------------
# grammar families (abstract): each yields (family, prods, start, number_of_terminals)

def _strings(symbols, maxlen, minlen=0):
    for n in range(minlen, maxlen + 1):
        yield from itertools.product(symbols, repeat=n)


def _alt_lists(rhs, max_alts):
    for k in range(1, max_alts + 1):
        yield from itertools.permutations(rhs, k)


def fam_exh1():
    """one non-terminal, <= 3 ordered distinct alternatives, RHS <= 2 over {a, b, E}"""
    rhs = list(_strings(['a', 'b', 'E'], 2))
    for alts in _alt_lists(rhs, 3):
        yield 'exh1', [('E', list(alts))], 'E', 2


def fam_exh2():
    """two non-terminals, <= 2 ordered distinct alternatives each, RHS <= 2 over {a, b, E, X};
    X occurs in a production of E"""
    rhs = list(_strings(['a', 'b', 'E', 'X'], 2))
    lists = list(_alt_lists(rhs, 2))
    e_lists = [al for al in lists if any('X' in a for a in al)]
    for ea in e_lists:
        for xa in lists:
            yield 'exh2', [('E', list(ea)), ('X', list(xa))], 'E', 2


X_DEFS = [
    [('b',)],
    [('b',), ()],
    [('a',), ('a', 'b')],
    [('a', 'b'), ('a',)],
    [('b', 'X'), ()],
]


def fam_prefix(ks=(2, 3)):
    """E -> P alpha_1 | ... | P alpha_k: k ordered distinct remainders alpha over {a, b, X} of length
    <= 2 behind a common prefix P (terminal, non-terminal, or two symbols): common prefixes, nested
    common prefixes, empty (nullable) remainders; X is plain / nullable / has its own prefix group /
    is a nullable right-recursive list; optionally wrapped into S -> E b | E."""
    tails = list(_strings(['a', 'b', 'X'], 2))
    for k in ks:
        for al in itertools.permutations(tails, k):
            for P in (('a',), ('X',), ('a', 'b')):
                ealts = [P + t for t in al]
                uses_x = any('X' in a for a in ealts)
                for xd in (X_DEFS if uses_x else X_DEFS[:1]):
                    for wrap in (False, True):
                        prods = [('E', ealts), ('X', list(xd))]
                        if wrap:
                            yield 'prefix', [('S', [('E', 'b'), ('E',)])] + prods, 'S', 2
                        else:
                            yield 'prefix', prods, 'E', 2


XY_DEFS = [
    [('a',)],
    [('a',), ()],
    [('a', 'a'), ('a',)],
    [('a',), ('a', 'a')],
    [('b',), ()],
]
ROLLBACK_RHS = [('X', 'a'), ('X', 'b'), ('Y', 'a'), ('Y', 'b'), ('X', 'Y'), ('Y', 'X'), ('a',), ('X',),
                ('Y',), ('X', 'Y', 'a'), ('a', 'X'), ()]


def fam_rollback():
    """E -> 2..3 ordered alternatives starting with different non-terminals whose FIRST sets overlap
    (no factorization: the first alternative collects children, fails, is rolled back); X, Y plain,
    nullable or ambiguous themselves"""
    for k in (2, 3):
        for al in itertools.permutations(ROLLBACK_RHS, k):
            if not any('X' in a or 'Y' in a for a in al):
                continue
            for xd in XY_DEFS:
                for yd in XY_DEFS:
                    yield 'rollback', [('E', list(al)), ('X', list(xd)), ('Y', list(yd))], 'E', 2


def fam_nested3():
    """three terminals: E -> a beta_i, 3..4 ordered remainders beta over {b, c, X} of length <= 3 taken
    from a prefix-closed pool (deep nesting with nullable remainders)"""
    pool = [(), ('b',), ('b', 'c'), ('b', 'c', 'X'), ('b', 'c', 'b'), ('b', 'X'), ('b', 'X', 'c'), ('c',),
            ('X',), ('X', 'c'), ('X', 'b', 'c')]
    for k in (3, 4):
        for al in itertools.permutations(pool, k):
            for xd in ([('c',), ()], [('b',)], [('c', 'X'), ()]):
                yield 'nested3', [('E', [('a',) + t for t in al]), ('X', list(xd))], 'E', 3


SEQ_POOL = [('Q', 'c'), ('Q', 'b'), ('a', 'Q', 'c'), ('a', 'Q', 'b'), ('a', 'a', 'Q', 'c'), ('Q', 'c', 'Q'),
            ('a', 'Q'), ('Q',), ('b', 'Q', 'c'), ('Y', 'c'), ('a', 'Y', 'c'), ('X', 'Q', 'c')]
SEQ_DEFS = [['a'], ['a', 'b'], ['a', 'Z']]
SEQ_AUX = {'X': [('a',), ('a', 'b')], 'Y': [('Q', 'b'), ('Q',)], 'Z': [('b', 'b'), ('b',)]}


def fam_seq():
    """Q = ProdSequence(...) (a template production: any sequence of the given symbols; the raw tree
    holds ONE node Q whose value is the list of matched element nodes).  E -> 2..3 ordered alternatives
    that use Q behind 0..2 leading symbols and before different terminators, so that an alternative
    which has already matched Q fails, is rolled back, and a later alternative parses Q again starting
    at a LATER token; Q also inside Y (Y -> Q b | Q); elements terminals or the ambiguous Z."""
    for k in (2, 3):
        for al in itertools.permutations(SEQ_POOL, k):
            for sd in SEQ_DEFS:
                prods = [('E', list(al)), ('Q', {'seq': list(sd)})]
                used = {s for a in al for s in a} | set(sd)
                for aux in ('X', 'Y', 'Z'):
                    if aux in used:
                        prods.append((aux, list(SEQ_AUX[aux])))
                yield 'seq', prods, 'E', 3


def random_grammar(rng):
    nnt = rng.choice([1, 2, 2, 3, 3, 4])
    nterm = rng.choice([2, 3])
    nts = ABS_NTS[:nnt]         # never 'Q'
    terms = ABS_TERMS[:nterm]

    def sym(first, i):
        if rng.random() < 0.55:
            return rng.choice(terms)
        if first and rng.random() < 0.8 and i + 1 < nnt:
            return rng.choice(nts[i + 1:])        # fewer left-recursive grammars
        return rng.choice(nts)

    prods = []
    for i, nt in enumerate(nts):
        nalts = rng.choice([1, 2, 2, 3, 3, 4])
        alts = []
        for _ in range(nalts):
            r = rng.random()
            if alts and alts[-1] and r < 0.45:
                prev = alts[-1]
                k = rng.randint(1, len(prev))
                alt = prev[:k] + tuple(sym(False, i) for _ in range(rng.randint(0, 4 - k)))
            elif r < 0.6:
                alt = ()
            else:
                n = rng.randint(1, 4)
                alt = tuple(sym(j == 0, i) for j in range(n))
            if alt not in alts:
                alts.append(alt)
        prods.append((nt, alts))
    if rng.random() < 0.3:
        rng.shuffle(prods)
    return 'random', prods, 'E', nterm


def build_plan(tier, seed):
    """the list of abstract grammars of one run: [(family, prods, start, nterm)], deterministic"""
    rng = random.Random(seed * 1000003 + 17)
    quick = tier == 'quick'
    plan = []

    def take(gen, frac):
        if frac <= 0:
            return
        for g in gen:
            if frac >= 1.0 or rng.random() < frac:
                plan.append(g)

    take(fam_exh1(), 1.0)
    take(fam_exh2(), 0.05 if quick else 1.0)
    take(fam_prefix((2,)), 1.0)
    take(fam_prefix((3,)), 0.1 if quick else 0.6)
    take(fam_prefix((4,)), 0.0 if quick else 0.03)
    take(fam_rollback(), 0.1 if quick else 0.7)
    take(fam_nested3(), 0.03 if quick else 0.25)
    take(fam_seq(), 0.15 if quick else 0.6)
    nrand = 2000 if quick else 20000
    r2 = random.Random(seed * 7777 + 5)
    for _ in range(nrand):
        plan.append(random_grammar(r2))
    # family 'kwonsyn' (appended, so that the lexicon assignment of the entries above is unchanged): grammars
    # of the families above under the tokenizer configurations in which a keyword entry is keyed by a synonym
    # name; the 5th element of an entry is the lexicon.  Both readings of a keyword text (keyword / plain token)
    # are terminals of every grammar, so the exhaustive families contain the grammars that accept both.
    r3 = random.Random(seed * 424243 + 11)
    n0 = len(plan)

    def take_kw(gen, frac, lexicons=KWONSYN_LEXICONS):
        for g in gen:
            for lex in lexicons:
                if frac >= 1.0 or r3.random() < frac:
                    plan.append(('kwonsyn',) + tuple(g[1:]) + (lex,))

    take_kw(fam_exh1(), 1.0)
    take_kw(fam_exh2(), 0.01 if quick else 0.1)
    take_kw(fam_prefix((2,)), 0.1 if quick else 0.5)
    take_kw(fam_prefix((3,)), 0.005 if quick else 0.1)
    take_kw(fam_rollback(), 0.005 if quick else 0.1)
    take_kw(fam_nested3(), 0.002 if quick else 0.03)
    take_kw(fam_seq(), 0.01 if quick else 0.1)
    r4 = random.Random(seed * 9091 + 3)
    for i in range(150 if quick else 3000):
        g = random_grammar(r4)
        plan.append(('kwonsyn',) + tuple(g[1:]) + (KWONSYN_LEXICONS[i % 2],))
    # family 'kwother' (appended): the same once more under the tokenizer configurations in which a token of
    # ANOTHER kind carries exactly a keyword's text; the keyword and the other kind are terminals of every grammar
    r5 = random.Random(seed * 31337 + 29)

    def take_ko(gen, frac):
        for g in gen:
            for lex in KWOTHER_LEXICONS:
                if frac >= 1.0 or r5.random() < frac:
                    plan.append(('kwother',) + tuple(g[1:]) + (lex,))

    take_ko(fam_exh1(), 0.5 if quick else 1.0)
    take_ko(fam_exh2(), 0.003 if quick else 0.05)
    take_ko(fam_prefix((2,)), 0.03 if quick else 0.3)
    take_ko(fam_prefix((3,)), 0.002 if quick else 0.05)
    take_ko(fam_rollback(), 0.002 if quick else 0.05)
    take_ko(fam_nested3(), 0.001 if quick else 0.02)
    take_ko(fam_seq(), 0.003 if quick else 0.05)
    r6 = random.Random(seed * 6007 + 41)
    for i in range(90 if quick else 2000):
        g = random_grammar(r6)
        plan.append(('kwother',) + tuple(g[1:]) + (KWOTHER_LEXICONS[i % 3],))
    assert all(len(g) == 4 for g in plan[:n0])
    return plan
