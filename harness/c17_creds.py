"""C17 helper: the credential dimension of the input space.

The property demands that the single Authorization header "decodes to the configured credentials".  For the
Basic scheme (RFC 7617) that is: value == "Basic " + B where B is the base64 of RFC 4648 section 4 (the
STANDARD alphabet: value 62 -> '+', value 63 -> '/', '=' padding) of utf-8(user-id ":" password).

Which of the 64 characters occur in B depends on the bytes of the credentials AND on their offset modulo 3
in "user-id:password".  This module
  * classifies a credential string from its bytes alone (6-bit groups computed here, no base64 library
    involved): does the standard encoding contain the character for 62 / for 63, how much padding, is it
    non-ASCII;
  * enumerates credentials systematically: every "special" character (ASCII characters whose bits give the
    values 62 / 63 at some offset - '?', '>', '~', ... -, characters that are themselves outside the url-safe
    set, 2-, 3- and 4-byte utf-8 characters) at every offset modulo 3, in the user-id and in the password
    (client id / client secret for the client flavour), plus boundary shapes (empty password, ':' inside).
"""

STD_ALPHABET = 'ABCDEFGHIJKLMNOPQRSTUVWXYZabcdefghijklmnopqrstuvwxyz0123456789+/'       # RFC 4648, table 1


def sextets(data):
    """the 6-bit groups of `data` (last group zero-filled), RFC 4648 section 4"""
    out = []
    for i in range(0, len(data), 3):
        chunk = data[i:i + 3]
        n = int.from_bytes(chunk + b'\x00' * (3 - len(chunk)), 'big')
        groups = [(n >> 18) & 63, (n >> 12) & 63, (n >> 6) & 63, n & 63]
        out.extend(groups[:len(chunk) + 1])
    return out


def ref_b64(data):
    """standard base64 text of `data`, written from RFC 4648 (used for classification and for messages only;
    the clause itself DECODES the header value strictly and compares bytes)"""
    s = ''.join(STD_ALPHABET[v] for v in sextets(data))
    return s + '=' * (-len(s) % 4)


def cred_text(a):
    """model tuple / spec of a Basic-flavoured adapter -> the 'user-id:password' string"""
    if a[0] == 'basic':
        return a[1] + ':' + a[2]
    if a[0] == 'client':
        return a[2] + ':' + a[3]
    return None


def classify(a):
    """reach events of one authenticating adapter (model tuple or spec)"""
    ev = set()
    if a[0] == 'token':
        if any(c in a[1] for c in '+/='):
            ev.add('bearer-token-with-base64-characters')
        return ev
    text = cred_text(a)
    if text is None:
        return ev
    raw = text.encode('utf-8')
    six = sextets(raw)
    if 62 in six:
        ev.add('basic-credentials-base64-has-plus')
    if 63 in six:
        ev.add('basic-credentials-base64-has-slash')
    if 62 in six and 63 in six:
        ev.add('basic-credentials-base64-has-plus-and-slash')
    if len(raw) != len(text):
        ev.add('basic-credentials-non-ascii')
    ev.add('basic-credentials-padding-%d' % (-len(raw) % 3))
    return ev


# characters: ASCII whose bit patterns give 62/63 at some offset; ASCII outside [A-Za-z0-9-_]; multi-byte utf-8
SPECIALS = ['?', '>', '~', '}', '{', '|', '/', '+', '=', ' ', '%', '"', '\\', '-', '_',
            'ÿ', 'þ', 'û', 'é', 'ñ', 'ü', 'ß', 'π', 'п', '€', '中',
            '\U0001f600']
FILL = 'abc'


def basic_grid():
    """['basic', login, password] specs: each special character at each offset modulo 3, in the login and in
    the password, single and doubled; boundary shapes"""
    out = []
    for ch in SPECIALS:
        for off in range(3):
            out.append(['basic', FILL[:off] + ch + 'z', 'pw'])
            out.append(['basic', 'user', FILL[:off] + ch])
            out.append(['basic', FILL[:off] + ch, ch + ch + FILL[:off] + ch])
    out += [['basic', 'user', ''], ['basic', 'u', ':'], ['basic', 'a:b', 'c:d'], ['basic', 'User.Name@example.org', 'P?ss>w~rd'],
            ['basic', 'josé', 'contraseña'], ['basic', 'user', 'pÿss'], ['basic', 'john', 'x~~'], ['basic', 'ann', 'a?>b??'],
            ['basic', 'ÿÿÿ', 'ÿÿ'], ['basic', '???', '>>>'], ['basic', '~~~~', '????']]
    return _uniq(out)


def client_grid():
    """['client', name, id, secret] specs (the header is built from id and secret, the name is a description)"""
    out = []
    for n, ch in enumerate(SPECIALS):
        off = n % 3
        out.append(['client', 'app', FILL[:off] + ch, 'secret'])
        out.append(['client', 'app' + ch, 'cid', FILL[:(off + 1) % 3] + ch + ch])
    out += [['client', 'app', 'id', ''], ['client', '', '???', '~~~'], ['client', 'n', 'üÿ', 'k>?~']]
    return _uniq(out)


def token_grid():
    """bearer tokens that look like base64 / JWT values (the token is sent as it is)"""
    return [['token', 'abc+/def=='], ['token', 'eyJh.eyJz+/.c2ln_-'], ['token', 'a/b/c'], ['token', '++++'], ['token', 'x=']]


def _uniq(specs):
    seen, out = set(), []
    for s in specs:
        k = tuple(s)
        if k not in seen:
            seen.add(k)
            out.append(s)
    return out


def grid():
    return basic_grid() + client_grid() + token_grid()
