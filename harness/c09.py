"""C09 bounded complement: escape sequences emitted by ColorFmt / ColorBytes / CHText (ak/color.py).

The property is decided by the proof tier; this driver *validates* it (and the assumed `re.sub`
behaviour) on the real objects over every colour value the package accepts.

Top-level clauses (from the property statement), each evaluated on the real code:
  wellformed                 str(ColorFmt(args)(text)) == P + text + S with
                             P = ESC '[' + ';'.join(codes(args)) + 'm', S = ESC '[0m'
                             (P = S = '' when nothing is requested); str(CHText) is the concatenation
  strip_roundtrip            CHText.strip_colors(str(x)) == x.plain_text()   (texts without ESC)
  no_color_no_escape         a no_color formatter (text and bytes) emits no ESC
  bytes_same_as_text         ColorBytes(args)(text.encode()) == str(ColorFmt(args)(text)).encode()
  invalid_raises_ValueError  an invalid colour value raises ValueError (and nothing else)

codes(args) is the spec of DESIGN section 6 / C09, written here independently of the implementation.
"""
import itertools
import random

from ak import color as akcolor

ESC = '\x1b'
NAMES = ['BLACK', 'RED', 'GREEN', 'YELLOW', 'BLUE', 'MAGENTA', 'CYAN', 'WHITE']
EFFECTS = ['bold', 'faint', 'underline', 'blink', 'crossed']
EFFECT_CODE = {'bold': '1', 'faint': '2', 'underline': '4', 'blink': '5', 'crossed': '9'}
TEXTS = ['x', 'ab c', '', '[31m', 'm;0[38:5:1', 'ünï✓', 'line\nbreak\ttab']


# ------------------------------------------------------------------ the spec (oracle)
def kind_of(color):
    if color is None:
        return 'none'
    if isinstance(color, str):
        return 'name' if color in NAMES else 'gray'
    if isinstance(color, tuple):
        return 'rgb'
    return 'int'


def spec_code(color, is_bg):
    """SGR parameter for a *valid* colour value"""
    fg = '4' if is_bg else '3'
    if isinstance(color, str) and color in NAMES:
        return fg + str(NAMES.index(color))
    if isinstance(color, tuple):
        r, g, b = color
        n = 16 + 36 * r + 6 * g + b
    elif isinstance(color, str):
        n = 232 + int(color[1:])
    else:
        n = color
    assert 0 <= n <= 255
    return fg + '8:5:' + str(n)


def spec_codes(fg, bg, effects):
    codes = []
    if fg is not None:
        codes.append(spec_code(fg, False))
    if bg is not None:
        codes.append(spec_code(bg, True))
    for e in EFFECTS:
        if e in effects:
            codes.append(EFFECT_CODE[e])
    return codes


def spec_affixes(fg, bg, effects):
    codes = spec_codes(fg, bg, effects)
    if not codes:
        return '', ''
    return ESC + '[' + ';'.join(codes) + 'm', ESC + '[0m'


def valid_colors():
    """the 504 valid non-None colour values of the statement"""
    out = list(NAMES)
    out += list(range(256))
    out += [(r, g, b) for r in range(6) for g in range(6) for b in range(6)]
    out += ['g%d' % k for k in range(24)]
    return out


# ------------------------------------------------------------------ JSON encoding of colour values
_PY_VALUES = {
    'True': True, 'False': False, '1.0': 1.0, '2.5': 2.5, '1.5': 1.5, "b'RED'": b'RED', '1j': 1j,
    'frozenset()': frozenset(), '{}': {}, 'set()': set(), "{'RED'}": {'RED'},
}


def enc(v):
    if isinstance(v, tuple):
        return {'t': 'tuple', 'v': [enc(x) for x in v]}
    if isinstance(v, list):
        return {'t': 'list', 'v': [enc(x) for x in v]}
    if v is None or (isinstance(v, (int, str)) and not isinstance(v, bool)):
        return {'t': 'lit', 'v': v}
    for k, pv in _PY_VALUES.items():
        if type(pv) is type(v) and repr(pv) == repr(v):
            return {'t': 'py', 'v': k}
    raise AssertionError(f"harness: cannot encode {v!r}")


def dec(e):
    if e['t'] == 'tuple':
        return tuple(dec(x) for x in e['v'])
    if e['t'] == 'list':
        return [dec(x) for x in e['v']]
    if e['t'] == 'lit':
        return e['v']
    v = _PY_VALUES[e['v']]
    return type(v)(v) if isinstance(v, (dict, set)) else v


def eff_kwargs(effects, falsy=None):
    return {e: (True if e in effects else falsy) for e in EFFECTS}


# ------------------------------------------------------------------ clause evaluation
def _call(f):
    try:
        return f(), None
    except BaseException as e:      # noqa - code under test may raise anything
        if isinstance(e, (KeyboardInterrupt, SystemExit, MemoryError)):
            raise
        return None, e


def check_render(case):
    """valid colour arguments: wellformed, strip_roundtrip, no_color_no_escape, bytes_same_as_text.
    returns list of (clause, key-suffix, text)"""
    out = []
    fg, bg = dec(case['fg']), dec(case['bg'])
    effects = case['effects']
    text = case['text']
    kw = eff_kwargs(effects, case.get('falsy'))
    P, S = spec_affixes(fg, bg, effects)
    expected = P + text + S
    form = '256-colour-form' if ':' in P else ('8-colour-form' if P else 'no-sequence')
    what = f"ColorFmt({fg!r}, bg_color={bg!r}, {', '.join(e + '=True' for e in effects)})({text!r})"

    chunk, err = _call(lambda: akcolor.ColorFmt(fg, bg_color=bg, **kw)(text))
    if err is not None:
        return [('wellformed', 'exception-' + type(err).__name__,
                 f"{what} raises {type(err).__name__}: {err}")]
    s, err = _call(lambda: str(chunk))
    if err is not None or not isinstance(s, str):
        return [('wellformed', 'str-fails', f"str({what}) -> {err!r} / {type(s).__name__}")]
    kinds = '+'.join(sorted({kind_of(fg), kind_of(bg)} - {'none'})) or 'none'
    if s != expected:
        out.append(('wellformed', kinds, f"str({what}) = {s!r}, expected {expected!r}"))
    # CHText built from the chunk renders identically
    t, err = _call(lambda: akcolor.CHText(chunk))
    if err is not None:
        out.append(('wellformed', 'chtext-exception', f"CHText({what}) raises {type(err).__name__}: {err}"))
    else:
        st, err = _call(lambda: str(t))
        exp_t = expected if text else ''
        # an empty chunk shows nothing; the statement allows it to be rendered as '' or as P+S
        if err is not None or (st != exp_t and st != expected):
            out.append(('wellformed', 'chtext-' + kinds, f"str(CHText({what})) = {st!r}, expected {exp_t!r}"))
    # strip round trip (the text has no ESC by construction)
    for label, obj in (('chunk', chunk), ('CHText', t)):
        if obj is None:
            continue
        r, err = _call(lambda: (akcolor.CHText.strip_colors(str(obj)), obj.plain_text()))
        if err is not None:
            out.append(('strip_roundtrip', 'exception', f"strip_colors(str({what})) raises {err!r}"))
        elif r[0] != r[1] or r[1] != text:
            out.append(('strip_roundtrip', form,
                        f"strip_colors(str({label} {what})) = {r[0]!r}, plain_text() = {r[1]!r}"))
    # no_color
    r, err = _call(lambda: str(akcolor.ColorFmt(fg, bg_color=bg, no_color=True, **kw)(text)))
    if err is not None or ESC in r or r != text:
        out.append(('no_color_no_escape', 'text', f"no_color {what} -> {r!r} {err!r}"))
    btext = text.encode('utf-8')
    r, err = _call(lambda: akcolor.ColorBytes(fg, bg_color=bg, no_color=True, **kw)(btext))
    if err is not None or not isinstance(r, bytes) or b'\x1b' in r or r != btext:
        out.append(('no_color_no_escape', 'bytes', f"no_color ColorBytes for {what} -> {r!r} {err!r}"))
    # bytes formatter emits the same sequences as the text one
    r, err = _call(lambda: akcolor.ColorBytes(fg, bg_color=bg, **kw)(btext))
    if err is not None or not isinstance(r, bytes) or r != s.encode('utf-8'):
        out.append(('bytes_same_as_text', kinds,
                    f"ColorBytes for {what} -> {r!r} ({err!r}), text formatter gives {s.encode('utf-8')!r}"))
    return out


def check_multi(case):
    """CHText of several differently coloured chunks: str() is the concatenation, strip gives plain"""
    out = []
    parts = case['parts']
    expected, plain = '', ''
    real = []
    for p in parts:
        fg, bg = dec(p['fg']), dec(p['bg'])
        P, S = spec_affixes(fg, bg, p['effects'])
        if p['text']:
            expected += P + p['text'] + S
        plain += p['text']
        ch, err = _call(lambda: akcolor.ColorFmt(fg, bg_color=bg, **eff_kwargs(p['effects']))(p['text']))
        if err is not None:
            return [('wellformed', 'exception-' + type(err).__name__, f"ColorFmt({fg!r},{bg!r}) raises {err!r}")]
        real.append(ch)
    t, err = _call(lambda: akcolor.CHText(*real))
    if err is not None:
        return [('wellformed', 'chtext-exception', f"CHText(*chunks) raises {err!r} for {parts}")]
    s, err = _call(lambda: str(t))
    # neighbours with identical prefix may be merged: P a S P b S and P ab S show the same;
    # compare through the independent reader of SGR strings instead of literally
    if err is not None or not isinstance(s, str) or sgr_read(s) != (sgr_read(expected)[0], ''):
        out.append(('wellformed', 'multi', f"str(CHText of {len(parts)} chunks) = {s!r}, expected like {expected!r}"))
    r, err = _call(lambda: (akcolor.CHText.strip_colors(str(t)), t.plain_text()))
    form = '256-colour-form' if ':' in expected else '8-colour-form'
    if err is not None or r[0] != r[1] or r[1] != plain:
        out.append(('strip_roundtrip', form, f"strip_colors(str(CHText of chunks)) = {r and r[0]!r}, plain {plain!r}"))
    return out


def sgr_read(s):
    """independent reader: string with SGR sequences -> ([(char, active parameter string)], final state);
    'ESC[0m' resets, any other 'ESC[...m' replaces the state (the package never nests)"""
    cells, state, i = [], '', 0
    while i < len(s):
        if s[i] == ESC and s[i + 1:i + 2] == '[':
            j = s.find('m', i)
            if j < 0:
                cells.append((s[i], state))
                i += 1
                continue
            par = s[i + 2:j]
            state = '' if par == '0' else par
            i = j + 1
        else:
            cells.append((s[i], state))
            i += 1
    return cells, state


INVALID = [
    # (class, value)
    ('int-range', -1), ('int-range', 256), ('int-range', 1000), ('int-range', -256),
    ('bool', True), ('bool', False),
    ('tuple-shape', ()), ('tuple-shape', (1,)), ('tuple-shape', (1, 2)), ('tuple-shape', (1, 2, 3, 4)),
    ('tuple-shape', (6, 0, 0)), ('tuple-shape', (0, -1, 0)), ('tuple-shape', (0, 0, 6)), ('tuple-shape', (5, 5, 255)),
    ('name', 'red'), ('name', 'Red'), ('name', 'ORANGE'), ('name', ''), ('name', 'RED '), ('name', 'grey'),
    ('name', 'G5'), ('name', '31'),
    ('gray-range', 'g'), ('gray-range', 'gx'), ('gray-range', 'g24'), ('gray-range', 'g-1'), ('gray-range', 'g100'),
    ('gray-range', 'g2.5'),
    ('other-type', 1.0), ('other-type', 2.5), ('other-type', b'RED'), ('other-type', 1j), ('other-type', frozenset()),
    ('unhashable', {}), ('unhashable', set()), ('unhashable', {'RED'}),
    ('tuple-component-type', ('a', 1, 2)), ('tuple-component-type', (None, 0, 0)), ('tuple-component-type', (1, 'RED', 2)),
    ('tuple-component-type', (1.5, 2, 3)),
]
# values for which the statement does not say whether they are valid: (class, value, denoted valid value)
EITHER = [
    ('unhashable', [1, 2, 3], (1, 2, 3)), ('unhashable', [0, 0, 0], (0, 0, 0)),
    ('lenient-gray', 'g 5', 'g5'), ('lenient-gray', 'g+5', 'g5'), ('lenient-gray', 'g05', 'g5'),
    ('lenient-gray', 'g5 ', 'g5'), ('lenient-gray', 'g1_0', 'g10'), ('lenient-gray', 'g-0', 'g0'),
    ('lenient-gray', 'g٣', 'g3'),
]


def check_invalid(case):
    """an invalid colour value raises ValueError.  case['either'] (optional) = valid value whose
    rendering is accepted as an alternative (values the statement leaves open)."""
    out = []
    v = dec(case['value'])
    side = case['side']
    cls = case['cls']
    alt = dec(case['either']) if case.get('either') is not None else None
    for maker_name in ('ColorFmt', 'ColorBytes'):
        maker = getattr(akcolor, maker_name)
        arg = 'x' if maker_name == 'ColorFmt' else b'x'

        def f():
            fmt = maker(v) if side == 'fg' else maker(None, bg_color=v)
            r = fmt(arg)
            return str(r) if maker_name == 'ColorFmt' else r
        r, err = _call(f)
        what = f"{maker_name}({v!r})" if side == 'fg' else f"{maker_name}(None, bg_color={v!r})"
        if err is not None:
            if not isinstance(err, ValueError):
                out.append(('invalid_raises_ValueError', cls,
                            f"{what} raises {type(err).__name__} ({err}) instead of ValueError"))
            continue
        if alt is not None:
            P, S = spec_affixes(alt if side == 'fg' else None, alt if side == 'bg' else None, [])
            exp = P + 'x' + S
            if (r if isinstance(r, str) else r.decode('utf-8', 'replace')) == exp:
                continue
        out.append(('invalid_raises_ValueError', cls,
                    f"{what} is accepted and renders {r!r} instead of raising ValueError"))
    return out


CHECKERS = {'render': check_render, 'multi': check_multi, 'invalid': check_invalid}


def evaluate(case):
    return CHECKERS[case['kind']](case)


# ------------------------------------------------------------------ exploration
def effect_sets():
    return [list(c) for r in range(len(EFFECTS) + 1) for c in itertools.combinations(EFFECTS, r)]


def gen_cases(tier, seed):
    rnd = random.Random(seed * 7919 + 9)
    allfx = effect_sets()
    colors = valid_colors()
    n_fx = 4 if tier == 'quick' else 32
    # 1. every colour value x fg/bg x effect sets (sampled in quick, all 32 in thorough)
    for c in colors:
        for side in ('fg', 'bg'):
            if n_fx >= 32:
                fxs = allfx
            else:
                fxs = [[]] + rnd.sample(allfx[1:], n_fx - 1)
            for fx in fxs:
                yield {'kind': 'render', 'fg': enc(c if side == 'fg' else None),
                       'bg': enc(c if side == 'bg' else None), 'effects': fx,
                       'text': rnd.choice(TEXTS[:2]) if fx else TEXTS[0]}
    # 2. all 32 effect sets x one colour of each kind (incl. none) x fg/bg/both, x all texts for the empty set
    reps = [None, 'RED', 'WHITE', 0, 200, 255, (0, 0, 0), (1, 2, 3), (5, 5, 5), 'g0', 'g7', 'g23']
    for c in reps:
        for fx in allfx:
            for side in ('fg', 'bg'):
                yield {'kind': 'render', 'fg': enc(c if side == 'fg' else None),
                       'bg': enc(c if side == 'bg' else None), 'effects': fx, 'text': 'ab c'}
        for text in TEXTS:
            yield {'kind': 'render', 'fg': enc(c), 'bg': enc(None), 'effects': [], 'text': text}
    # effects given as False instead of None must count as absent
    for fx in allfx:
        yield {'kind': 'render', 'fg': enc('BLUE'), 'bg': enc(None), 'effects': fx, 'text': 'x', 'falsy': False}
    # 3. fg and bg together
    n_pairs = 500 if tier == 'quick' else 6000
    for _ in range(n_pairs):
        yield {'kind': 'render', 'fg': enc(rnd.choice(colors)), 'bg': enc(rnd.choice(colors)),
               'effects': rnd.choice(allfx), 'text': rnd.choice(TEXTS)}
    # 4. texts of several chunks
    n_multi = 300 if tier == 'quick' else 3000
    for _ in range(n_multi):
        parts = []
        for _k in range(rnd.randint(2, 4)):
            parts.append({'fg': enc(rnd.choice(colors + [None, None])), 'bg': enc(rnd.choice([None, None] + colors)),
                          'effects': rnd.choice(allfx) if rnd.random() < .5 else [],
                          'text': rnd.choice(['a', 'bc', '', 'd e', 'ü'])})
        yield {'kind': 'multi', 'parts': parts}
    # 5. invalid values
    for cls, v in INVALID:
        for side in ('fg', 'bg'):
            yield {'kind': 'invalid', 'cls': cls, 'value': enc(v), 'side': side}
    for cls, v, alt in EITHER:
        for side in ('fg', 'bg'):
            yield {'kind': 'invalid', 'cls': cls, 'value': enc(v), 'side': side, 'either': enc(alt)}


def run(b):
    for case in gen_cases(b.tier, b.seed):
        nontrivial = False
        if case['kind'] == 'render':
            fg, bg = dec(case['fg']), dec(case['bg'])
            coloured = fg is not None or bg is not None or bool(case['effects'])
            nontrivial = coloured and bool(case['text'])
            if nontrivial and ({kind_of(fg), kind_of(bg)} & {'int', 'rgb', 'gray'}):
                b.hit('256-colour-form-through-strip')
            if nontrivial:
                b.hit('coloured-nonempty')
            if not coloured:
                b.hit('nothing-requested')
        elif case['kind'] == 'multi':
            nontrivial = sum(1 for p in case['parts'] if p['text']) >= 2
            b.hit('multi-chunk')
        else:
            nontrivial = True
            b.hit('invalid-' + case['cls'])
        b.case(case, nontrivial=nontrivial, sample=(b.evaluations % 997 == 0))
        try:
            res = evaluate(case)
        except Exception as e:      # noqa - a bug of this harness, not of the code under test
            b.error(f"harness exception {type(e).__name__}: {e} on {case}")
            continue
        for clause, ksuf, text in res:
            b.fail(f"C09.{clause}", f"C09.{clause}:{ksuf}", text, case)
    b.require_reach(['256-colour-form-through-strip', 'coloured-nonempty', 'nothing-requested', 'multi-chunk',
                     'invalid-bool', 'invalid-int-range', 'invalid-tuple-shape', 'invalid-name'])


def replay_case(case):
    res = evaluate(case)
    return (not res), [f"{c}: {t}" for c, _k, t in res]
