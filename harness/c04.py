"""C04 bounded driver: source positions of tokens and tree nodes (ak/llparser.py).

Input space: texts of 0..N lines, every line one of a small alphabet of line shapes (blank, blanks
only, un-indented, indented, trailing blanks, tokens separated by blanks / adjacent, keyword, tab
indent, quoted string, illegal character; for the span configuration also span opener / closer on
the same or on a later line), each text given once as one str and once as a list of lines, under
four tokenizer configurations (plain, synonyms, keywords, one span matcher).  The texts of up to
`term_full_lines` lines (and longer ones over the reduced alphabet TERM_SHAPES_*) are also given as
the other kinds of 'lines' (TERM_MODES): a tuple of lines, and a list / tuple whose items still end
with their line terminator as readlines() returns them ('\n' or '\r\n'; the last line with or
without one).  There the terminator is one more blank character at the end of its line (every
configuration's blank pattern matches it), line k of the text is item k of the sequence.  Every legal text is
parsed with two grammars of the same language of items - one with sequences of optional parts, one
(`_grammar_prefix`) whose alternatives share common prefixes (of one terminal, of two terminals,
starting with a non-terminal, nested) behind which the matched alternative goes on and ends with a
symbol that may match nothing - each built with smart_factorization=True and =False.

Oracle: `ref_scan` below - a hand written character scanner of the harness' own token language
(no regular expression, nothing of ak.llparser) that yields for every token its kind, its lexeme
and its exact 1-based (line, column) .. exclusive end; for a span token the region from the opener
to the closer as found by `str.find`.  The observed tokens are aligned with the reference tokens
by order (trailing blanks of a line may or may not be reported as a token: both readings are
accepted); all positional clauses are then evaluated on the *observed* spans.

Top-level clauses (from the property statement):
  lexeme                    get_orig_text of a leaf (token / tree leaf) == its lexeme in the text
                            (span token: the region opener..closer)
  inner_span                inner node with tokens below: span == start of its first token .. end of
                            its last token (as reported for those leaves)
  empty_span_at_next_token  node that matched nothing: start == end == reported start of the
                            following token (of $END$ when nothing follows)
  adjacent_in_line          consecutive tokens (skipped blanks included) the reference puts on the
                            same line: end of the first == start of the second
  line_start                token the reference finds to be the first of its line starts at
                            (that line, column of its first character)
  monotone                  start <= end for everything; consecutive tokens / sibling nodes do not
                            overlap or go backwards; no child starts before its parent (an empty last
                            child lies at the following token, i.e. possibly behind its parent's end)
  lexical_error_line        a character no pattern matches: LexicalError whose src_pos.line is the
                            line of that character (through tokenize and through LLParser.parse)
Supporting (diag only): token sequence equals the reference sequence; tree leaf span == token span;
get_orig_text of any node == the reference slice of its reported span; unclosed span raises
LexicalError; column of the lexical error; the fixed grammar accepts every legal text.
"""
import itertools
import json
import multiprocessing
import signal
import threading

from ak import llparser

SRC = 'c04'
END = '$END$'

# --------------------------------------------------------------------------------------
# input space

SHAPES_BASE = [
    "",            # 0 blank line
    "  ",          # 1 blanks only
    "a",           # 2 un-indented single token
    "  b",         # 3 indented
    "c  ",         # 4 trailing blanks
    "x, +y",       # 5 adjacent tokens and tokens separated by a blank
    "if k;",       # 6 keyword (in the keywords configuration)
    "\tq  7,",     # 7 tab indent, run of blanks, pair WORD NUM (factorized production)
    '"s t" z',     # 8 quoted string: token value differs from its lexeme
    "g ? h",       # 9 illegal character inside the line
    "?",           # 10 illegal character in column 1
    # blanks other than ' ' and tab that str.splitlines() (but not split('\n'), the only line
    # separator of the property and of get_orig_text) takes for a line boundary, between tokens
    "j\x0ck",            # 11 form feed
    "l\x85\u2028m",      # 12 NEL, LINE SEPARATOR
    "n \x0b\r\x1c o",    # 13 vertical tab, lone carriage return, file separator
    # optional parts behind a token: ':' present, two empty children behind it / '!' only / all
    "p: q! u:!;",        # 14
    # pairs WORD NUM behind which ':' '!' ',' are optional: the alternatives of the symbols that match
    # them in the 'prefix' grammars share a common prefix (see _grammar_prefix), their last, optional,
    # part is absent before a blank / before the line break
    "w 1 v 2, r 3",      # 15
    "s 5: t 4:!",        # 16
]
SHAPES_SPAN = [
    "/* c */ d",   # opener and closer on the same line, token behind it
    "e /* o",      # opener behind a token, closes on a later line
    "m */ f",      # closer inside the line, token behind it
    "*/",          # closer in column 1
    "/*",          # opener in column 1
]
ALL_SHAPES = SHAPES_BASE + SHAPES_SPAN

_BASE_RE = r'''
    (?P<SPACE>\s+)
    |(?P<WORD>[a-z_][a-z0-9_]*)
    |(?P<NUM>[0-9]+)
    |"(?P<DQ>[^"]*)"
    |(?P<PLUS>\+)
    |(?P<COMMA>,)
    |(?P<SEMI>;)
    |(?P<COLON>:)
    |(?P<BANG>!)
'''
_SPAN_RE = _BASE_RE + r'''    |(?P<COMMENT_ML>/\*)
'''

_ID = {'SPACE': 'SPACE', 'WORD': 'WORD', 'NUM': 'NUM', 'STR': 'DQ', 'PLUS': 'PLUS', 'COMMA': 'COMMA',
       'SEMI': 'SEMI', 'COLON': 'COLON', 'BANG': 'BANG'}

CONFIGS = {
    'plain': {'re': _BASE_RE, 'synonyms': None, 'keywords': None, 'span_matchers': None,
              'names': dict(_ID), 'kw': False, 'span': False, 'nshapes': len(SHAPES_BASE)},
    'synonyms': {'re': _BASE_RE,
                 'synonyms': {'PLUS': '+', 'COMMA': ',', 'SEMI': ';', 'DQ': 'STRING', 'COLON': ':',
                              'BANG': '!'},
                 'keywords': None, 'span_matchers': None,
                 'names': dict(_ID, PLUS='+', COMMA=',', SEMI=';', STR='STRING', COLON=':', BANG='!'),
                 'kw': False, 'span': False, 'nshapes': len(SHAPES_BASE)},
    'keywords': {'re': _BASE_RE, 'synonyms': None, 'keywords': {('WORD', 'if'): 'IF'},
                 'span_matchers': None, 'names': dict(_ID, KW='IF'), 'kw': True, 'span': False,
                 'nshapes': len(SHAPES_BASE)},
    'span-matcher': {'re': _SPAN_RE, 'synonyms': {'COMMENT_ML': 'COMMENT'}, 'keywords': None,
             'span_matchers': {'COMMENT_ML': r"(?P<END_COMMENT>(\*[^/]|[^*])*)\*/"},
             'names': dict(_ID, COMMENT='COMMENT'), 'kw': False, 'span': True,
             'nshapes': len(ALL_SHAPES)},
}
CFG_ORDER = ['plain', 'synonyms', 'keywords', 'span-matcher']
MODES = ['str', 'list']
# the other ways to give a text as lines: mode -> (container, terminator appended to the lines, is the
# last line left without terminator)
TERM_MODES = {
    'tuple': (tuple, '', False),
    'list+nl': (list, '\n', False),                      # f.readlines(), the file ends with a line feed
    'list+nl,last-line-open': (list, '\n', True),        # f.readlines(), it does not
    'tuple+nl': (tuple, '\n', False),
    'list+crlf': (list, '\r\n', False),                  # readlines() of a file opened with newline=''
}
TERM_ORDER = ['tuple', 'list+nl', 'list+nl,last-line-open', 'tuple+nl', 'list+crlf']
# reduced alphabet of the longer texts in these modes (indices into ALL_SHAPES): blank, un-indented,
# indented, trailing blanks, illegal character; span configuration: + every span shape
TERM_SHAPES_BASE = [0, 2, 3, 4, 10]
TERM_SHAPES_SPAN = TERM_SHAPES_BASE + list(range(len(SHAPES_BASE), len(ALL_SHAPES)))


def max_lines(tier):
    return 3 if tier == 'quick' else 4


def term_full_lines(tier):
    """TERM_MODES: texts of 1..this many lines over the whole alphabet, longer ones (up to max_lines)
    over the reduced alphabet"""
    return 2 if tier == 'quick' else 3


def _term_index_tuples(cfg, tier):
    k = CONFIGS[cfg]['nshapes']
    for n in range(1, term_full_lines(tier) + 1):
        yield from itertools.product(range(k), repeat=n)
    red = TERM_SHAPES_SPAN if CONFIGS[cfg]['span'] else TERM_SHAPES_BASE
    for n in range(term_full_lines(tier) + 1, max_lines(tier) + 1):
        yield from itertools.product(red, repeat=n)


def enumerate_jobs(tier):
    """(cfg, mode, tuple of shape indices).  0 lines: '' as str is the one-blank-line text (already
    enumerated), so the 0-line text is only given as the empty list."""
    for cfg in CFG_ORDER:
        k = CONFIGS[cfg]['nshapes']
        for n in range(0, max_lines(tier) + 1):
            for idx in itertools.product(range(k), repeat=n):
                for mode in MODES:
                    if n == 0 and mode == 'str':
                        continue
                    yield (cfg, mode, idx)
    for cfg in CFG_ORDER:
        for idx in _term_index_tuples(cfg, tier):
            for mode in TERM_ORDER:
                yield (cfg, mode, idx)


def space_size(tier):
    tot = 0
    for cfg in CFG_ORDER:
        k = CONFIGS[cfg]['nshapes']
        tot += 1 + 2 * sum(k ** n for n in range(1, max_lines(tier) + 1))
        r = len(TERM_SHAPES_SPAN if CONFIGS[cfg]['span'] else TERM_SHAPES_BASE)
        tot += len(TERM_ORDER) * (sum(k ** n for n in range(1, term_full_lines(tier) + 1)) +
                                  sum(r ** n for n in range(term_full_lines(tier) + 1, max_lines(tier) + 1)))
    return tot


def mk_case(cfg, mode, idx):
    return {'cfg': cfg, 'mode': mode, 'lines': [ALL_SHAPES[i] for i in idx]}


# --------------------------------------------------------------------------------------
# the oracle: reference scanner of the harness' token language

# blanks of the shapes; '\\n' alone separates the lines of a str; as the terminator an item of a
# sequence of lines still carries it is the last blank of that line
_WS = ' \t\x0b\x0c\r\x1c\x1d\x1e\x85\u2028\u2029\n'
_LINE_BREAK_LIKE = '\x0b\x0c\r\x1c\x1d\x1e\x85\u2028\u2029'
_LOW = 'abcdefghijklmnopqrstuvwxyz_'
_DIG = '0123456789'


class RefTok:
    __slots__ = ('kind', 'name', 'lexeme', 'value', 'start', 'end', 'trailing', 'alt')

    def __init__(self, kind, name, lexeme, value, start, end, trailing=False, alt=None):
        self.kind, self.name, self.lexeme, self.value = kind, name, lexeme, value
        self.start, self.end, self.trailing = start, end, trailing   # 1-based (line, col), end exclusive
        # lines that carry their terminator, region over several of them: the second accepted reading
        # of its text (the lines joined by one more line feed), else None
        self.alt = alt


def ref_slice(lines, start, end, sep="\n"):
    """text between two 1-based positions (end exclusive), lines joined by a line feed (sep='' for
    lines that carry their terminator: the region of the text as it was given)"""
    (sl, sc), (el, ec) = start, end
    if sl == el:
        return lines[sl - 1][sc - 1:ec - 1]
    parts = [lines[sl - 1][sc - 1:]]
    for i in range(sl, el - 1):
        parts.append(lines[i])
    parts.append(lines[el - 1][:ec - 1])
    return sep.join(parts)


def ref_scan(lines, cfg, sep="\n"):
    """-> (tokens, error): error is None, ('illegal', line, col) or ('unclosed', line, col)
    sep: '' when the lines carry their terminators"""
    c = CONFIGS[cfg]
    names = c['names']
    toks = []
    opened = None                      # position of the opener of the span we are in
    for ln, line in enumerate(lines, 1):
        i, n = 0, len(line)
        while i < n:
            if opened is not None:
                j = line.find('*/', i)
                if j < 0:
                    break
                end = (ln, j + 3)
                region = ref_slice(lines, opened, end, sep)
                alt = ref_slice(lines, opened, end) if sep != "\n" and end[0] > opened[0] else None
                toks.append(RefTok('COMMENT', names['COMMENT'], region, None, opened, end, alt=alt))
                opened = None
                i = j + 2
                continue
            ch = line[i]
            j = i + 1
            if ch in _WS:
                while j < n and line[j] in _WS:
                    j += 1
                kind = 'SPACE'
            elif ch in _LOW:
                while j < n and (line[j] in _LOW or line[j] in _DIG):
                    j += 1
                kind = 'WORD'
            elif ch in _DIG:
                while j < n and line[j] in _DIG:
                    j += 1
                kind = 'NUM'
            elif ch == '"':
                q = line.find('"', i + 1)
                if q < 0:
                    return toks, ('illegal', ln, i + 1)
                j = q + 1
                kind = 'STR'
            elif ch == '+':
                kind = 'PLUS'
            elif ch == ',':
                kind = 'COMMA'
            elif ch == ';':
                kind = 'SEMI'
            elif ch == ':':
                kind = 'COLON'
            elif ch == '!':
                kind = 'BANG'
            elif ch == '/' and c['span'] and line[i + 1:i + 2] == '*':
                opened = (ln, i + 1)
                i += 2
                continue
            else:
                return toks, ('illegal', ln, i + 1)
            lexeme = line[i:j]
            value = lexeme[1:-1] if kind == 'STR' else lexeme
            name = names[kind]
            if kind == 'WORD' and c['kw'] and lexeme == 'if':
                name = names['KW']
            toks.append(RefTok(kind, name, lexeme, value, (ln, i + 1), (ln, j + 1),
                               trailing=(kind == 'SPACE' and j == n)))
            i = j
    if opened is not None:
        return toks, ('unclosed',) + opened
    return toks, None


# --------------------------------------------------------------------------------------
# the code under test: tokenizers and parsers of the four configurations

def _grammar(cfg, span_leaf):
    nm = CONFIGS[cfg]['names']
    atom = [('WORD', 'NUM'), ('WORD',), (nm['STR'],)]
    if CONFIGS[cfg]['kw']:
        atom.append((nm['KW'],))
    if span_leaf:
        atom.append((nm['COMMENT'],))
    return {
        'E': [('ITEMS',)],
        'ITEMS': [('ITEM', 'ITEMS'), None],
        # behind ATOM: one, two or three consecutive children that may match nothing (TAIL as a whole
        # is one of them), followed in the texts by skipped blanks / a line break / a comment
        'ITEM': [('OPT_SIGN', 'ATOM', 'OPT_COLON', 'OPT_BANG', 'TAIL')],
        'OPT_SIGN': [(nm['PLUS'],), None],
        'OPT_COLON': [(nm['COLON'],), None],
        'OPT_BANG': [(nm['BANG'],), None],
        'ATOM': atom,                                   # ('WORD','NUM') / ('WORD',) get factorized
        'TAIL': [('OPT_COMMA', 'OPT_SEMI')],            # inner node that may match nothing
        'OPT_COMMA': [(nm['COMMA'],), None],
        'OPT_SEMI': [(nm['SEMI'],), None],
    }


def _grammar_prefix(cfg, span_leaf):
    """The same language of items (every text the grammar above accepts is accepted), written with
    alternatives that share a common prefix; the part behind the prefix ends with a symbol that may
    match nothing:
      ITEM     common prefix of two symbols that starts with a non-terminal (OPT_SIGN ATOM)
      PAIR     common prefix of two terminals (WORD NUM); behind it a second, nested, common prefix (':')
      COLONED  common prefix of one terminal (':')"""
    nm = CONFIGS[cfg]['names']
    atom = [('PAIR',), ('WORD',), (nm['STR'],)]
    if CONFIGS[cfg]['kw']:
        atom.append((nm['KW'],))
    if span_leaf:
        atom.append((nm['COMMENT'],))
    return {
        'E': [('ITEMS',)],
        'ITEMS': [('ITEM', 'ITEMS'), None],
        'ITEM': [('OPT_SIGN', 'ATOM', 'COLONED'),
                 ('OPT_SIGN', 'ATOM', 'OPT_BANG', 'TAIL')],
        'COLONED': [(nm['COLON'], nm['BANG'], 'TAIL'),
                    (nm['COLON'], 'TAIL')],
        'ATOM': atom,
        'PAIR': [('WORD', 'NUM', nm['COLON'], nm['BANG'], 'OPT_COMMA'),
                 ('WORD', 'NUM', nm['COLON'], 'OPT_COMMA'),
                 ('WORD', 'NUM', 'OPT_COMMA')],
        'OPT_SIGN': [(nm['PLUS'],), None],
        'OPT_BANG': [(nm['BANG'],), None],
        'TAIL': [('OPT_COMMA', 'OPT_SEMI')],
        'OPT_COMMA': [(nm['COMMA'],), None],
        'OPT_SEMI': [(nm['SEMI'],), None],
    }


# (suffix of the variant name, grammar, smart_factorization)
GRAMMARS = [('', _grammar, True),
            ('/plain-factorization', _grammar, False),
            ('/prefix', _grammar_prefix, True),
            ('/prefix/plain-factorization', _grammar_prefix, False)]


def common_prefix_of(alts, names):
    """Read off the grammar (not off the parser): the alternatives `alts` of one symbol and the names
    of the children of a node of that symbol -> (common prefix shared by the alternatives that start
    like the node's children | None, number of nested common prefixes the children run through)."""
    if not names:
        return None, 0
    group = [tuple(a) for a in alts if a and a[0] == names[0]]
    if len(group) < 2:
        return None, 0
    cp = list(group[0])
    for a in group[1:]:
        k = 0
        while k < min(len(cp), len(a)) and cp[k] == a[k]:
            k += 1
        cp = cp[:k]
    if list(names[:len(cp)]) != cp:
        return None, 0
    _, depth = common_prefix_of([a[len(cp):] for a in group], list(names[len(cp):]))
    return cp, depth + 1


_BUILT = {}


def built(cfg):
    """-> (tokenizer | exception, [(variant, skip set, parser | exception, grammar, smart_factorization)])"""
    if cfg not in _BUILT:
        c = CONFIGS[cfg]
        try:
            tk = llparser._Tokenizer(c['re'], span_matchers=c['span_matchers'],
                                     synonyms=c['synonyms'], keywords=c['keywords'])
        except BaseException as e:      # noqa
            tk = e
        parsers = []
        variants = [('skip', None)] + ([('leaf', {'SPACE'})] if c['span'] else [])
        for (vname, skip), (gname, gfun, smart) in itertools.product(variants, GRAMMARS):
            grammar = gfun(cfg, vname == 'leaf')
            try:
                kw = {} if smart else {'smart_factorization': False}
                p = llparser.LLParser(c['re'], productions={k: list(v) for k, v in grammar.items()},
                                      synonyms=c['synonyms'], span_matchers=c['span_matchers'],
                                      keywords=c['keywords'], skip_tokens=skip, **kw)
                skipset = set(p.skip_tokens)
            except BaseException as e:      # noqa
                p, skipset = e, set()
            parsers.append((vname + gname, skipset, p, grammar, smart))
        _BUILT[cfg] = (tk, parsers)
    return _BUILT[cfg]


class _Budget(BaseException):
    pass


def _on_alarm(signum, frame):
    raise _Budget()


class time_limit:
    """wall-clock budget for one call into the code under test (main thread only)"""

    def __init__(self, seconds):
        self.seconds = seconds
        self.active = threading.current_thread() is threading.main_thread()

    def __enter__(self):
        if self.active:
            self.old = signal.signal(signal.SIGALRM, _on_alarm)
            signal.setitimer(signal.ITIMER_REAL, self.seconds)

    def __exit__(self, *a):
        if self.active:
            signal.setitimer(signal.ITIMER_REAL, 0)
            signal.signal(signal.SIGALRM, self.old)
        return False


class Garbage(Exception):
    pass


def coords(pos):
    try:
        c = pos.coords
        ln, col = c
    except BaseException as e:      # noqa
        raise Garbage(f"position object {pos!r} has no (line, col) coords ({type(e).__name__})")
    if not (isinstance(ln, int) and isinstance(col, int)):
        raise Garbage(f"position {c!r} is not a pair of ints")
    return (ln, col)


def span_of(x):
    return (coords(x.start_pos), coords(x.end_pos))


def describe_exc(e):
    s = str(e).split('\n')[0]
    return f"{type(e).__name__}: {s[:120]}"


def orig_text(name, value, start_pos, end_pos, text):
    """get_orig_text of a leaf built from a raw token -> (text, None) | (None, description)"""
    try:
        te = llparser.TElement(name, value, start_pos=start_pos, end_pos=end_pos, is_leaf=True)
        r = te.get_orig_text(text)
    except _Budget:
        raise
    except BaseException as e:      # noqa
        return None, describe_exc(e)
    if not isinstance(r, str):
        return None, f"returns {r!r}"
    return r, None


# --------------------------------------------------------------------------------------
# evaluation of one case

class Result:
    def __init__(self, case):
        self.case = case
        self.fails = []       # (clause, key suffix, text)
        self.diags = []
        self.hits = set()
        self.nontrivial = False
        self.in_scope = True

    def fail(self, clause, ksuf, text):
        if self.in_scope:
            self.fails.append((clause, ksuf, text))
        else:
            self.diags.append((f"outside the quantifier (text of zero lines): {clause}:{ksuf}", text))

    def diag(self, key, text):
        """failed supporting clause; one example per key is reported"""
        self.diags.append((key, text))


def _show(lines, mode):
    if mode == 'str':
        return repr("\n".join(lines))
    return repr(tuple(lines) if mode in TERM_MODES and TERM_MODES[mode][0] is tuple else list(lines))


_DOUBLED = "get_orig_text joins lines that carry their terminator with one more line feed"


def _lexeme_ok(res, got, r, ctx):
    """clause lexeme for one leaf: does get_orig_text give the characters it was matched from"""
    if got == r.lexeme:
        return True
    if r.alt is not None and got == r.alt:
        res.diag(_DOUBLED, f"{ctx}: token {r.name} over lines {r.start[0]}..{r.end[0]}: get_orig_text gives "
                 f"{got!r}, the region of the given lines is {r.lexeme!r} (both accepted)")
        return True
    return False


def _match(obs_tok, r):
    if obs_tok[0] != r.name:
        return False
    return r.value is None or obs_tok[1] == r.value


def _align(obs, ref):
    """observed (name, value, ...) list against the reference list; trailing blanks of lines either
    all reported or all dropped"""
    for drop in (False, True):
        cand = [r for r in ref if not (drop and r.trailing)]
        if len(cand) == len(obs) and all(_match(o, r) for o, r in zip(obs, cand)):
            return cand
    return None


def _tokenize(tk, text, limit):
    toks, exc = [], None
    try:
        with time_limit(5.0):
            for t in tk.tokenize(text, SRC):
                toks.append(t)
                if len(toks) > limit:
                    exc = 'overrun'
                    break
    except _Budget:
        exc = 'budget'
    except BaseException as e:      # noqa
        exc = e
    return toks, exc


def _check_lexical_error(res, exc, err, where, ctx):
    """clause lexical_error_line; err = ('illegal', line, col) of the reference scan"""
    if exc is None:
        res.fail('lexical_error_line', 'no-error',
                 f"{where} of {ctx}: no error although line {err[1]} column {err[2]} holds a character no "
                 f"token pattern matches")
        return
    if not isinstance(exc, llparser.LexicalError):
        res.fail('lexical_error_line', 'wrong-exception',
                 f"{where} of {ctx}: {describe_exc(exc) if isinstance(exc, BaseException) else exc} instead of "
                 f"LexicalError for the unmatched character in line {err[1]}")
        return
    try:
        ln, col = coords(exc.src_pos)
    except Garbage as g:
        res.fail('lexical_error_line', 'wrong-line', f"{where} of {ctx}: LexicalError.src_pos: {g}")
        return
    if ln != err[1]:
        res.fail('lexical_error_line', 'wrong-line',
                 f"{where} of {ctx}: LexicalError names line {ln}, the unmatched character is in line {err[1]}")
    elif col != err[2]:
        res.diag("lexical error column is not the 1-based column", f"{ctx}: reported {col}, 1-based column of the unmatched character is {err[2]} "
                 f"({where}; line is right)")


# quick tier: the parsers built with smart_factorization=False parse every text with the span token
# skipped and without the cleanup only; the thorough tier and a replay run the full product
_FULL = True


def check_case(case, whole_product=True):
    res = Result(case)
    cfg, mode, lines = case['cfg'], case['mode'], list(case['lines'])
    if (cfg not in CONFIGS or (mode not in MODES and mode not in TERM_MODES) or
            not all(isinstance(x, str) and '\n' not in x for x in lines)):
        raise ValueError(f"malformed case {case!r}")
    term, sep = '', "\n"
    if mode == 'str':
        text = "\n".join(lines)
        lines = text.split("\n")
    elif mode == 'list':
        text = list(lines)
        if not lines:
            res.in_scope = False            # the quantifier says "one or many lines"
    else:
        container, term, last_open = TERM_MODES[mode]
        if not lines:
            raise ValueError(f"malformed case {case!r}")
        lines = [x + term for x in lines[:-1]] + [lines[-1] + ('' if last_open else term)]
        text = container(lines)
        if term:
            sep = ''                        # the lines carry their separators themselves
    ctx = f"{_show(lines, mode)} [{cfg}]"
    ref, err = ref_scan(lines, cfg, sep)
    res.nontrivial = len(lines) >= 2 or any(r.kind == 'COMMENT' for r in ref)
    if mode == 'list':
        res.hits.add('list-of-lines-input')
    if isinstance(text, tuple):
        res.hits.add('tuple-of-lines-input')
    if term and len(lines) >= 2:
        # items ending with their terminator, as readlines() returns them
        res.hits.add('lines-that-carry-their-terminator')
        res.hits.add('lines-terminated-by-' + ('crlf' if term == '\r\n' else 'lf'))
        if not lines[-1].endswith(term):
            res.hits.add('lines-that-carry-their-terminator,last-line-without')
        if any(r.kind not in ('SPACE', 'COMMENT') and r.start[0] > 1 for r in ref):
            res.hits.add('token-on-line>1-of-lines-that-carry-their-terminator')
        if any(r.alt is not None for r in ref):
            res.hits.add('span-closing-on-later-line-of-lines-that-carry-their-terminator')
        if err is not None and err[0] == 'illegal' and err[1] > 1:
            res.hits.add('lexical-error-on-line>1-of-lines-that-carry-their-terminator')
    for r_prev, r_next in (zip(ref, ref[1:]) if not term else ()):     # there '\r' is in the terminator
        if r_prev.kind == 'SPACE' and any(ch in _LINE_BREAK_LIKE for ch in r_prev.lexeme):
            res.hits.add('blank-that-splitlines-breaks-at-inside-a-line')
            if mode == 'str' and r_next.start[0] == r_prev.start[0]:
                res.hits.add('token-behind-such-a-blank-in-str-input')
    tk, parsers = built(cfg)
    if isinstance(tk, BaseException):
        res.diag("tokenizer cannot be built", f"_Tokenizer for configuration {cfg} cannot be built: {describe_exc(tk)}")
        return res

    # ---------------- raw tokenizer output
    toks, exc = _tokenize(tk, text, 20 + 4 * sum(len(x) + 1 for x in lines))
    if exc in ('overrun', 'budget'):
        res.fail('monotone', 'no-termination',
                 f"tokenize of {ctx} does not finish ({'5 s' if exc == 'budget' else 'unbounded token stream'})")
        return res
    try:
        obs = [(t.name, t.value, coords(t.start_pos), coords(t.end_pos), t) for t in toks]
    except (Garbage, AttributeError) as g:
        res.fail('monotone', 'garbage-position', f"tokenize of {ctx}: {g}")
        return res
    end_obs = None
    if err is not None and err[0] == 'illegal':
        res.hits.add('lexical-error')
        if err[1] > 1:
            res.hits.add('lexical-error-on-line>1')
        _check_lexical_error(res, exc, err, 'tokenize', ctx)
        body = obs
    elif err is not None:
        if not isinstance(exc, llparser.LexicalError):
            res.diag("unclosed span does not raise LexicalError (tokenize)",
                     f"{ctx}: {describe_exc(exc) if exc is not None else 'no error'}")
        body = obs
    else:
        if exc is not None:
            res.fail('lexical_error_line', 'raises-on-legal-text',
                     f"tokenize of {ctx} raises {describe_exc(exc)} although every character is matched by a "
                     f"token pattern")
            return res
        if not obs or obs[-1][0] != END:
            res.diag("token stream does not end with $END$", f"tokenize of {ctx}: token stream does not end with {END}")
            return res
        end_obs = obs[-1]
        body = obs[:-1]
    cand = _align(body, ref)
    full = cand is not None
    if cand is None:
        # blanks are reported differently from both accepted readings: the clauses that do not
        # depend on the blank tokens are still demanded of the other tokens
        sp = CONFIGS[cfg]['names']['SPACE']
        nb_body = [o for o in body if o[0] != sp]
        cand = _align(nb_body, [r for r in ref if r.kind != 'SPACE'])
        if cand is not None:
            res.diag("blank tokens differ from the reference scan",
                     f"{ctx}: {[(o[0], o[1]) for o in body]} vs {[(r.name, r.lexeme) for r in ref]}")
            body = nb_body
    if cand is None:
        res.hits.add('unaligned')
        res.diag("token sequence differs from the reference scan", f"token sequence of {ctx} differs from the reference scan: "
                 f"{[(o[0], o[1]) for o in body]} vs {[(r.name, r.lexeme) for r in ref]}")
        return res

    first_flags = []
    for i, (o, r) in enumerate(zip(body, cand)):
        name, value, st, en, t = o
        first = (i == 0 or cand[i - 1].end[0] < r.start[0])
        first_flags.append(first)
        what = f"token {name} {r.lexeme!r}"
        if r.kind == 'COMMENT' and r.end[0] > r.start[0]:
            res.hits.add('span-closing-on-later-line')
        # line_start
        if first:
            if r.start[1] == 1 and r.start[0] > 1 and r.kind != 'SPACE':
                res.hits.add('first-on-line-token-without-leading-whitespace')
            if st != r.start:
                prev_end = body[i - 1][3] if i else (1, 1)
                ks = 'starts-at-previous-end' if st == prev_end else 'other'
                res.fail('line_start', ks,
                         f"{ctx}: {what}, first token of line {r.start[0]}, starts at {st}, its first character "
                         f"is at {r.start}")
        # adjacent_in_line
        if full and i and cand[i - 1].end[0] == r.start[0]:
            if body[i - 1][3] != st:
                res.fail('adjacent_in_line', 'gap-or-overlap',
                         f"{ctx}: {what} starts at {st} but the previous token of the same line ends at "
                         f"{body[i - 1][3]}")
        # monotone
        if not st <= en:
            res.fail('monotone', 'token-backwards', f"{ctx}: {what} ends at {en} before its start {st}")
        if i and not body[i - 1][3] <= st:
            res.fail('monotone', 'token-backwards',
                     f"{ctx}: {what} starts at {st} before the end {body[i - 1][3]} of the previous token")
        # lexeme
        got, problem = orig_text(name, value, t.start_pos, t.end_pos, text)
        if not _lexeme_ok(res, got, r, ctx):
            if first and st != r.start:
                ks = 'first-token-of-line'
            elif r.kind == 'COMMENT':
                ks = 'span-token'
            else:
                ks = 'other'
            res.fail('lexeme', ks,
                     f"{ctx}: {what} with span {st}-{en}: get_orig_text "
                     f"{'gives ' + repr(got) if problem is None else 'fails: ' + problem}, expected {r.lexeme!r}")
    if end_obs is not None:
        _, _, st, en, _ = end_obs
        last = body[-1][3] if body else None
        if not st <= en or (last is not None and not last <= st):
            res.fail('monotone', 'token-backwards',
                     f"{ctx}: {END} at {st}-{en} lies before the end {last} of the last token")

    # ---------------- trees
    for vname, skipset, parser, grammar, smart in parsers:
        if isinstance(parser, BaseException):
            res.diag("parser cannot be built", f"LLParser ({cfg}/{vname}) cannot be built: {describe_exc(parser)}")
            continue
        for cleanup in (False, True):
            if not whole_product and not smart and (cleanup or vname.startswith('leaf')):
                continue
            try:
                with time_limit(5.0):
                    root, pexc = parser.parse(text, src_name=SRC, do_cleanup=cleanup), None
            except _Budget:
                res.fail('monotone', 'no-termination', f"parse of {ctx} does not finish in 5 s")
                break
            except BaseException as e:      # noqa
                root, pexc = None, e
            where = f"parse({vname}{', cleaned' if cleanup else ''})"
            if err is not None and err[0] == 'illegal':
                _check_lexical_error(res, pexc, err, where, ctx)
                break
            if err is not None:
                if not isinstance(pexc, llparser.LexicalError):
                    res.diag("unclosed span does not raise LexicalError (parse)", f"{ctx}: {where}: "
                             f"{describe_exc(pexc) if pexc is not None else 'no error'}")
                break
            if pexc is not None:
                if isinstance(pexc, llparser.LexicalError):
                    res.fail('lexical_error_line', 'raises-on-legal-text',
                             f"{where} of {ctx} raises {describe_exc(pexc)} although every character is matched")
                else:
                    res.diag("the harness grammar rejects a legal text", f"{where} of {ctx}: {describe_exc(pexc)} (the harness grammar accepts this text)")
                break
            pairs = [(o, r, f) for o, r, f in zip(body, cand, first_flags) if o[0] not in skipset]
            # what the reference scan finds between two tokens the parser sees (reach events only)
            gaps, cur, prev_line = [], set(), None
            for o, r, f in zip(body, cand, first_flags):
                if o[0] in skipset:
                    cur.add('comment' if r.kind == 'COMMENT' else 'blanks')
                    continue
                if prev_line is not None and r.start[0] > prev_line:
                    cur.add('line-break')
                gaps.append(cur)
                cur, prev_line = set(), r.end[0]
            if prev_line is not None and len(lines) > prev_line:
                cur.add('line-break')
            gaps.append(cur)
            try:
                _check_tree(res, root, text, lines, pairs, end_obs, ctx, where, cleanup,
                            grammar, smart, gaps, sep)
            except Garbage as g:
                res.fail('monotone', 'garbage-position', f"{where} of {ctx}: {g}")
    return res


def _check_tree(res, root, text, lines, pairs, end_obs, ctx, where, cleaned, grammar=None, smart=True,
                gaps=None, sep="\n"):
    """cleaned trees: the cleanup squashes chains, a leaf may carry the name of the squashed parent.
    grammar / smart / gaps serve the reach events only."""
    TE = llparser.TElement
    leaves = []        # real leaves in document order
    nodes = []         # (node, index of its first leaf, index behind its last leaf, children)

    def rec(n, depth):
        if not isinstance(n, TE) or depth > 200:
            raise Garbage(f"tree holds {type(n).__name__} where a TElement is expected")
        i0 = len(leaves)
        kids = []
        if n.is_leaf():
            if n.value is not None:
                leaves.append(n)
        else:
            if not isinstance(n.value, list):
                raise Garbage(f"inner node {n.name} has value of type {type(n.value).__name__}")
            for c in n.value:
                rec(c, depth + 1)
                kids.append(c)
        nodes.append((n, i0, len(leaves), kids))

    try:
        rec(root, 0)
    except Garbage as g:
        res.diag("unexpected tree structure", f"{where} of {ctx}: unexpected tree structure: {g}")
        return
    if len(leaves) != len(pairs) or any(
            (not cleaned and lf.name != r.name) or (r.value is not None and lf.value != r.value)
            for lf, (o, r, f) in zip(leaves, pairs)):
        res.diag("tree leaves differ from the reference tokens", f"{where} of {ctx}: leaves {[(x.name, x.value) for x in leaves]} differ from the reference "
                 f"tokens {[(r.name, r.value) for o, r, f in pairs]}")
        return
    spans = {id(n): span_of(n) for n, i0, i1, kids in nodes}
    lspans = [spans[id(lf)] for lf in leaves]
    end_start = end_obs[2]

    def following(i1):
        return lspans[i1][0] if i1 < len(leaves) else end_start

    for k, lf in enumerate(leaves):
        o, r, first = pairs[k]
        if lspans[k] != (o[2], o[3]):
            res.diag("tree leaf span differs from the token span", f"{where} of {ctx}: leaf {lf.name} {r.lexeme!r} has span {lspans[k]}, the token had "
                     f"{(o[2], o[3])}")
        if r.kind == 'COMMENT':
            res.hits.add('span-token-as-tree-leaf')

    below = {id(n): i1 - i0 for n, i0, i1, kids in nodes}     # number of tokens below each node
    for n, i0, i1, kids in nodes:
        st, en = spans[id(n)]
        what = f"node {n.name}"
        # get_orig_text against the reference slice of the reported span (supporting), lexeme for leaves
        try:
            got, problem = n.get_orig_text(text), None
        except _Budget:
            raise
        except BaseException as e:      # noqa
            got, problem = None, describe_exc(e)
        if n.is_leaf() and n.value is not None:
            o, r, first = pairs[i0]
            if not _lexeme_ok(res, got, r, ctx):
                if first and st != r.start:
                    ks = 'first-token-of-line'
                elif r.kind == 'COMMENT':
                    ks = 'span-token'
                else:
                    ks = 'other'
                res.fail('lexeme', ks,
                         f"{where} of {ctx}: leaf {n.name} {r.lexeme!r} with span {st}-{en}: get_orig_text "
                         f"{'gives ' + repr(got) if problem is None else 'fails: ' + problem}, "
                         f"expected {r.lexeme!r}")
        else:
            try:
                want = ref_slice(lines, st, en, sep) if st <= en else None
            except IndexError:
                want = None
            if want is not None and got != want and sep != "\n" and got == ref_slice(lines, st, en):
                res.diag(_DOUBLED, f"{where} of {ctx}: {what} {st}-{en}: get_orig_text gives {got!r}, the "
                         f"region of the given lines is {want!r}")
            elif want is not None and got != want:
                res.diag("get_orig_text differs from the text between the reported positions", f"{where} of {ctx}: {what} {st}-{en}: get_orig_text "
                         f"{'gives ' + repr(got) if problem is None else 'fails: ' + problem}, the text "
                         f"between these positions is {want!r}")
        # monotone
        if not st <= en:
            res.fail('monotone', 'tree-backwards', f"{where} of {ctx}: {what} ends at {en} before its start {st}")
        prev = None
        for c in kids:
            cs, ce = spans[id(c)]
            if not st <= cs:
                res.fail('monotone', 'tree-backwards',
                         f"{where} of {ctx}: child {c.name} {cs}-{ce} starts before its parent {n.name} {st}-{en}")
            if prev is not None and not prev <= cs:
                res.fail('monotone', 'tree-backwards',
                         f"{where} of {ctx}: child {c.name} of {n.name} starts at {cs} before the end {prev} of "
                         f"its left sibling")
            prev = ce
        if i1 == i0:
            # matched nothing
            exp = following(i1)
            if i1 >= len(leaves):
                res.hits.add('empty-node-before-end-of-text')
            elif pairs[i1][2]:
                res.hits.add('empty-node-before-first-token-of-line')
            if not n.is_leaf():
                res.hits.add('inner-node-that-matched-nothing')
            if st != en:
                res.fail('empty_span_at_next_token', 'not-empty',
                         f"{where} of {ctx}: {what} matched nothing but spans {st}-{en}")
            elif st != exp:
                res.fail('empty_span_at_next_token', 'elsewhere',
                         f"{where} of {ctx}: {what} matched nothing and lies at {st}; the following token "
                         f"({pairs[i1][1].lexeme if i1 < len(leaves) else END!r}) starts at {exp}")
        elif not n.is_leaf():
            fs, le = lspans[i0][0], lspans[i1 - 1][1]
            if kids and kids[-1].is_leaf() and kids[-1].value is None:
                res.hits.add('inner-node-with-empty-last-child')
            ntrail = 0
            for c in reversed(kids):
                if below[id(c)] != 0:
                    break
                ntrail += 1
            if ntrail >= 2 and le < following(i1):
                res.hits.add('two-trailing-empty-children-before-skipped-text')
            if ntrail >= 3 and le < following(i1):
                res.hits.add('three-trailing-empty-children-before-skipped-text')
            if kids and kids[0].is_leaf() and kids[0].value is None:
                res.hits.add('inner-node-with-empty-first-child')
            if grammar is not None and not cleaned and n.name in grammar:
                # the alternatives of this symbol share a common prefix (as written in the grammar) and
                # the matched alternative goes on behind it
                names = [c.name for c in kids]
                cp, depth = common_prefix_of(grammar[n.name], names)
                if cp is not None and len(names) > len(cp):
                    if cp[0] in grammar:
                        kind = 'starting-with-a-non-terminal'
                    elif len(cp) >= 2:
                        kind = 'of-two-terminals'
                    else:
                        kind = 'of-one-terminal' + ('' if smart else ',plain-factorization')
                    res.hits.add(f'common-prefix-{kind}:node-goes-on-behind-it')
                    if ntrail >= 1 and le < following(i1):
                        res.hits.add(f'common-prefix-{kind}:remainder-ends-with-empty-child-before-skipped-text')
                        for g in (gaps[i1] if gaps is not None and i1 < len(gaps) else ()):
                            res.hits.add(f'common-prefix-node-ending-with-empty-child-before-{g}')
                        if depth >= 2:
                            res.hits.add('nested-common-prefixes:remainder-ends-with-empty-child-before-'
                                         'skipped-text' + ('' if smart else ',plain-factorization'))
                        if i1 >= len(leaves):
                            res.hits.add('common-prefix-node-ending-with-empty-child-before-end-of-text')
            toks_txt = " ".join(repr(pairs[k][1].lexeme) for k in range(i0, i1))
            if st != fs:
                res.fail('inner_span', 'start',
                         f"{where} of {ctx}: {what} over tokens {toks_txt} starts at {st}, its first token "
                         f"starts at {fs}")
            if en != le:
                ks = 'ends-at-following-token' if (en == following(i1) and le < en) else 'other'
                res.fail('inner_span', ks,
                         f"{where} of {ctx}: {what} over tokens {toks_txt} spans {st}-{en}, its last token ends "
                         f"at {le}" + (" (the node ends where the following token starts)"
                                       if ks == 'ends-at-following-token' else ""))


# --------------------------------------------------------------------------------------
# driver

REACH = ['first-on-line-token-without-leading-whitespace', 'span-closing-on-later-line',
         'lexical-error-on-line>1', 'list-of-lines-input', 'empty-node-before-end-of-text',
         'empty-node-before-first-token-of-line', 'inner-node-that-matched-nothing',
         'inner-node-with-empty-last-child', 'inner-node-with-empty-first-child',
         'span-token-as-tree-leaf', 'two-trailing-empty-children-before-skipped-text',
         'three-trailing-empty-children-before-skipped-text',
         'blank-that-splitlines-breaks-at-inside-a-line', 'token-behind-such-a-blank-in-str-input',
         # text given as a sequence of lines whose items still end with their line terminator
         'tuple-of-lines-input', 'lines-that-carry-their-terminator', 'lines-terminated-by-lf',
         'lines-terminated-by-crlf', 'lines-that-carry-their-terminator,last-line-without',
         'token-on-line>1-of-lines-that-carry-their-terminator',
         'span-closing-on-later-line-of-lines-that-carry-their-terminator',
         'lexical-error-on-line>1-of-lines-that-carry-their-terminator',
         # alternatives with a common prefix; the matched one goes on behind the prefix and ends with a
         # symbol that matched nothing; skipped text stands between its last token and the next token
         'common-prefix-starting-with-a-non-terminal:remainder-ends-with-empty-child-before-skipped-text',
         'common-prefix-of-two-terminals:remainder-ends-with-empty-child-before-skipped-text',
         'common-prefix-of-one-terminal:remainder-ends-with-empty-child-before-skipped-text',
         'common-prefix-of-one-terminal,plain-factorization:remainder-ends-with-empty-child-before-'
         'skipped-text',
         'nested-common-prefixes:remainder-ends-with-empty-child-before-skipped-text',
         'nested-common-prefixes:remainder-ends-with-empty-child-before-skipped-text,plain-factorization',
         'common-prefix-node-ending-with-empty-child-before-blanks',
         'common-prefix-node-ending-with-empty-child-before-line-break',
         'common-prefix-node-ending-with-empty-child-before-comment',
         'common-prefix-node-ending-with-empty-child-before-end-of-text']


def _size(case):
    return len(json.dumps(case, sort_keys=True, default=repr, ensure_ascii=True))


def _work(chunk):
    """-> (per case (job, nontrivial), hits, fails {(clause, ksuf): (size, text, job)}, diags)"""
    cases, hits, fails, diags = [], {}, {}, {}
    for job in chunk:
        case = mk_case(*job)
        try:
            r = check_case(case, _FULL)
        except Exception as e:      # noqa  -- an exception of the harness itself
            import traceback
            return ('harness-error', f"{case!r}: {traceback.format_exc(limit=4)}")
        cases.append((job, r.nontrivial))
        for h in r.hits:
            hits[h] = hits.get(h, 0) + 1
        sz = None
        for clause, ksuf, text in r.fails:
            sz = sz if sz is not None else _size(case)
            cur = fails.get((clause, ksuf))
            if cur is None or sz < cur[0]:
                fails[(clause, ksuf)] = (sz, text, job)
        for k, d in r.diags:
            if k not in diags:
                diags[k] = [0, d]
            diags[k][0] += 1
    return (cases, hits, fails, diags)


def run(b):
    global _FULL
    _FULL = (b.tier != 'quick')
    jobs = list(enumerate_jobs(b.tier))
    for cfg in CFG_ORDER:
        built(cfg)                      # before the fork: shared by the workers
    chunks = [jobs[i:i + 400] for i in range(0, len(jobs), 400)]
    ctx = multiprocessing.get_context('fork')
    with ctx.Pool(min(16, max(1, multiprocessing.cpu_count()))) as pool:
        results = pool.map(_work, chunks, chunksize=1)
    all_diags = {}
    for r in results:
        if r[0] == 'harness-error':
            b.error(f"exception inside the harness: {r[1]}")
            continue
        cases, hits, fails, diags = r
        for job, nontrivial in cases:
            b.case(mk_case(*job), nontrivial=nontrivial)
        for h, n in hits.items():
            b.hit(h, n)
        for (clause, ksuf), (sz, text, job) in sorted(fails.items()):
            b.fail(f"C04.{clause}", f"C04.{clause}:{ksuf}", text, mk_case(*job))
        for k, (n, d) in diags.items():
            if k not in all_diags:
                all_diags[k] = [0, d]
            all_diags[k][0] += n
    for k, (n, d) in sorted(all_diags.items()):
        b.diag(f"{k} [{n} time(s)], e.g. {d}")
    b.notes['space'] = space_size(b.tier)
    if b.evaluations != space_size(b.tier) and not b.errors:
        b.error(f"explored {b.evaluations} cases, the space has {space_size(b.tier)}")
    b.require_reach(REACH)


def replay_case(case):
    r = check_case(case)
    return (not r.fails), ([f"C04.{c}:{k}: {t}" for c, k, t in r.fails] or
                           [f"all clauses hold for {case!r}"])
