"""C16: replay of a refuted lock-invariant obligation as a forced two-thread schedule on the real code.

The obligation names a source line of ak/conn_http.py with an access to the request counter outside the
critical section.  Thread A performs a request and is suspended (sys.settrace, opcode granularity) after k
bytecode steps of that line; thread B then performs a complete request through a connection derived from the
same root; A resumes.  If for some k the X-Request-ID values seen by a stub opener contain a duplicate or a gap,
the violation is reproduced with that schedule."""
import sys
import threading

from harness import c16 as smoke


def _trial(lineno, k, timeout=3.0):
    from ak import conn_http
    captured = []
    reached = threading.Event()
    resume = threading.Event()
    state = {'steps': 0, 'paused': False, 'on_line': False}
    fname = conn_http.__file__

    def tracer(frame, event, arg):
        if frame.f_code.co_filename != fname:
            return None
        frame.f_trace_opcodes = True

        def local(frame, event, arg):
            if state['paused']:
                return local
            if event == 'line':
                state['on_line'] = (frame.f_lineno == lineno)
                if not state['on_line'] and state['steps'] > 0 and not state['paused']:
                    # left the line before k steps were counted: pause here (after the whole line)
                    state['paused'] = True
                    reached.set()
                    resume.wait(timeout)
            elif event == 'opcode' and state['on_line'] and frame.f_lineno == lineno:
                state['steps'] += 1
                if state['steps'] == k:
                    state['paused'] = True
                    reached.set()
                    resume.wait(timeout)
            return local
        return local

    with smoke.stub_opener(captured):
        root = conn_http.HttpConn('http://h.test:8080')
        derived = conn_http.HttpConn(root)
        err = []

        def run_a():
            sys.settrace(tracer)
            try:
                root.get('/a')
            except Exception as e:      # noqa
                err.append(repr(e))
            finally:
                sys.settrace(None)

        def run_b():
            try:
                derived.get('/b')
            except Exception as e:      # noqa
                err.append(repr(e))

        ta = threading.Thread(target=run_a)
        ta.start()
        hit = reached.wait(timeout)
        tb = threading.Thread(target=run_b)
        tb.start()
        tb.join(timeout)
        b_blocked = tb.is_alive()
        resume.set()
        ta.join(timeout)
        tb.join(timeout)
    ids = [smoke.header(r, 'X-Request-ID') for r in captured]
    nums = []
    for i in ids:
        m = smoke.ID_RE.match(i or '')
        nums.append(int(m.group('num')) if m else None)
    return {'k': k, 'line_reached': hit, 'b_blocked_by_lock': b_blocked, 'ids': ids, 'numbers': nums, 'errors': err}


def replay_unprotected_access(lineno, max_k=40):
    """-> (reproduced, observed)"""
    tried = []
    for k in range(1, max_k + 1):
        r = _trial(lineno, k)
        tried.append(r)
        if not r['line_reached']:
            break
        nums = r['numbers']
        if len(r['ids']) == 2 and None not in nums:
            if len(set(r['ids'])) < 2 or sorted(nums) != [0, 1]:
                return True, {'schedule': f"thread A suspended after {k} bytecode step(s) of ak/conn_http.py:{lineno}, "
                                          f"thread B performs a whole request on a derived connection, A resumes",
                              'ids': r['ids'], 'numbers': nums}
    return False, {'trials': len(tried), 'last': tried[-1] if tried else None}


def replay_case(case):
    ok, obs = replay_unprotected_access(case['lineno'])
    return (not ok), obs
