"""C06 bounded driver: the history report attributes every matching commit to the right build per
branch.

Oracle (written from the property statement, by plain reachability over the commit DAG; nothing of
ak.ghist is consulted to compute it):

    branches in spec order b_1 < ... < b_m  (numeric-aware name: release/<major>.<minor> by (major, minor)
    as integers, a name that is a prefix of another first, master last);  R_k = commits reachable from head h_k (h_k included);  P_k = R_1 u ... u R_{k-1};
    builds(b_k) = { c in R_k \\ P_k : c carries a build tag }  u  { h_k  if h_k not in P_k };
    M = commits whose message contains the search text.

Top-level clauses (names as in DESIGN.md section 6):
    listed_once                     c in M n R_k is listed under at most one build of b_k
    earliest                        if c in M n R_k is listed under build B of b_k then B in builds(b_k),
                                    B contains c, no other build of b_k that is a strict ancestor of B
                                    contains c (ancestry-minimal; parallel tagged sub-branches give
                                    several acceptable answers); the head is labelled 'not built' iff
                                    it carries no build tag
    exactly_once_if_build_exists    c in M n R_k and some build of b_k contains c  =>  listed
    never_not_merged_if_reachable   c in R_k  =>  c not under 'not merged' of b_k
    not_merged_exact                every c in M n (P_k \\ R_k) is listed exactly once under 'not merged' of
                                    b_k (and under no build of b_k); every commit under 'not merged' that is
                                    not in R_k belongs to M n P_k
    only_matching                   every listed commit's message contains the search text
    branch_order                    the reported branches, read from last to first, are a sub-sequence of
                                    b_1 ... b_m (the report prints master first)

Observation: ReposCollection.make_reports_data(text) -> RGraph.branches[*].get_rbuilds_list()[*]:
rbuild.rcommit.commit (the build commit), rbuild.build_num (fake 'not built' / 'not merged' numbers),
rbuild.get_printable_rcommits() (the commits the report prints under the build).  A sample of cases is
also printed through GHistReport and the text compared with the data (supporting clause).

Input space beyond DAG x heads x tags x matching set:
  * the search text is taken as it is (families small-3c-2b-blank-text, verbatim-text): texts with leading /
    trailing whitespace whose stripped form is a prefix of other ids, texts with pattern characters, in
    another case, with inner blanks; the oracle is  text in message  and nothing else;
  * histories older than the 30-day window (family old-history): commit times spread over 31-45 days with
    every head within 29 days of the newest commit, so that no branch is obsolete whichever commit the
    cut-off is measured from.  Histories on which the package's documented rule ('older than latest
    report-related commit') and its code (earliest report-related build) disagree about a branch being
    obsolete are outside the property's quantifier and are not generated (every case is checked for this:
    facts['in_domain']);
  * branch names one of which is a proper prefix of another ('release/10' and 'release/10.1', 'release/rel-2'
    and 'release/rel-2-1', continued by one or several numbers or by a word), in every order of declaration
    (families small-prefix-names-*, prefix-names).  The spec order is cmp_branch_names (the name cut at the
    separators, numbers by value, a proper prefix first, master last); only sets of names on which it agrees
    with the natural sort of the raw names are generated (facts['names_in_domain']).
"""
import contextlib
import functools
import io
import itertools
import logging
import multiprocessing
import random
import signal
import sys

from harness import ghist_mock as gm

CALL_BUDGET_S = 10
WINDOW = 30 * 86400         # the cut-off period the property's quantifier speaks of
SAFE_WINDOW = 29 * 86400    # the generators keep every branch head this close to the newest commit

CLAUSES = ('listed_once', 'earliest', 'exactly_once_if_build_exists', 'never_not_merged_if_reachable',
           'not_merged_exact', 'only_matching', 'branch_order')


# ------------------------------------------------------------------------------------------------
# spec
# ------------------------------------------------------------------------------------------------

NAME_SEPARATORS = '/._-'


def name_parts(name):
    """'release/rel-10.250' -> ['release', 'rel', 10, 250]: the name cut at the separators / . _ -,
    parts made of digits only read as numbers"""
    parts, cur = [], ''
    for ch in name + '/':
        if ch in NAME_SEPARATORS:
            if cur:
                parts.append(int(cur) if cur.isdigit() else cur)
            cur = ''
        else:
            cur += ch
    return parts


def name_chunks(name):
    """'release/rel-10.250' -> ['release/rel-', 10, '.', 250]: maximal runs of digits read as numbers,
    everything between them kept as it is (the 'natural sort' reading of numeric-aware)"""
    import re
    return [int(x) if x.isdigit() else x for x in re.findall(r'\d+|\D+', name)]


def _cmp_items(xs, ys):
    """lexicographic comparison of two item lists, numbers by value, words as strings, a list that is
    a proper prefix of the other first.  None where a number meets a word: 'numeric-aware' does not
    say which goes first"""
    for x, y in zip(xs, ys):
        xi, yi = isinstance(x, int), isinstance(y, int)
        if xi != yi:
            return None
        if x != y:
            return -1 if x < y else 1
    return (len(xs) > len(ys)) - (len(xs) < len(ys))


def cmp_branch_names(a, b):
    """spec order of two branch names: master last; release branches by numeric-aware name (cut at the
    separators; a name whose parts are a proper prefix of the other's parts goes first).
    None = not determined by the property (a number against a word)"""
    if a == 'master' or b == 'master':
        return (a == 'master') - (b == 'master')
    return _cmp_items(name_parts(a), name_parts(b))


def names_in_domain(names):
    """the set of branch names is one on which every numeric-aware ordering agrees: for every pair the
    comparison by separated parts and the comparison by digit runs ('natural sort' of the raw name) are
    both determined, strict and equal.  (Excluded: a number against a word in the same position,
    names differing only in separators or leading zeros, different separators in the same position.)"""
    for a, b in itertools.combinations(names, 2):
        if a == 'master' or b == 'master':
            if a == b:
                return False
            continue
        if not (a.startswith('release/') and b.startswith('release/')):
            return False
        c1 = _cmp_items(name_parts(a), name_parts(b))
        c2 = _cmp_items(name_chunks(a), name_chunks(b))
        if c1 is None or c2 is None or c1 == 0 or c1 != c2:
            return False
    return all(n == 'master' or n.startswith('release/') for n in names)


def _cmp_or_raise(a, b):
    c = cmp_branch_names(a, b)
    if c is None:
        raise ValueError(f"branch names {a!r} and {b!r}: their order is not determined by 'numeric-aware'")
    return c


# spec order as a sort key: release/<major>.<minor> names come out by (major, minor) as integers,
# 'release/10' before 'release/10.1' before 'release/10.1.2', master last
branch_sort_key = functools.cmp_to_key(_cmp_or_raise)


class Spec:
    """reachability facts of one history"""

    def __init__(self, hist):
        self.hist = hist
        self.commits = {d['id']: d for d in hist['commits']}
        self.parents = {i: list(d.get('parents', [])) for i, d in self.commits.items()}
        self._anc = {}
        self.order = sorted((b for b, _ in hist['branches']), key=branch_sort_key)
        self.head = dict((b, h) for b, h in hist['branches'])
        self.R = {}
        self.P = {}
        self.builds = {}
        seen = set()
        for b in self.order:
            h = self.head[b]
            r = self.anc_or_self(h)
            self.R[b] = r
            self.P[b] = set(seen)
            bl = {c for c in r - seen if gm.is_build_commit(self.commits[c])}
            if h not in seen:
                bl.add(h)
            self.builds[b] = bl
            seen |= r

    def anc_or_self(self, c):
        """commits reachable from c through parent links, c included"""
        got = self._anc.get(c)
        if got is None:
            got = {c}
            stack = [c]
            while stack:
                x = stack.pop()
                for p in self.parents[x]:
                    if p not in got:
                        got.add(p)
                        stack.append(p)
            self._anc[c] = got
        return got

    def contains(self, build, c):
        return c in self.anc_or_self(build)

    def matching(self, text):
        return {i for i, d in self.commits.items() if text in d.get('msg', '')}


def check(hist, text, obs):
    """evaluate all clauses of the statement on one observation.
    obs = [{'branch': name, 'builds': [{'kind': 'build'|'not_merged', 'commit': id|None,
                                         'not_built': bool, 'listed': [ids]}]}]  in report order.
    returns (fails: [(clause, key-suffix, text)], diags: [text], facts: dict)"""
    sp = Spec(hist)
    M = sp.matching(text)
    fails, diags = [], []
    names = [o['branch'] for o in obs]
    # branch_order
    if len(set(names)) != len(names) or any(n not in sp.head for n in names):
        fails.append(('branch_order', 'unknown-or-duplicate', f"reported branches {names}, repository has {sp.order}"))
    else:
        pos = [sp.order.index(n) for n in reversed(names)]
        if pos != sorted(pos):
            fails.append(('branch_order', 'order', f"branches reported (last to first) {names[::-1]}, "
                                                   f"spec order {sp.order}"))
    by_name = {}
    for o in obs:
        by_name.setdefault(o['branch'], o)
    for b in sp.order:
        o = by_name.get(b, {'builds': []})
        R, P, builds, h = sp.R[b], sp.P[b], sp.builds[b], sp.head[b]
        klass = 'head-in-lower-branch' if h in P else 'head-own'
        under = {}        # commit -> [build commits listing it]
        nm = []           # commits listed under 'not merged'
        for rb in o['builds']:
            for c in rb['listed']:
                if c not in sp.commits or text not in sp.commits[c].get('msg', ''):
                    fails.append(('only_matching', 'listed-not-matching',
                                  f"{b}: commit {c} is listed but its message does not contain {text!r}"))
            if rb['kind'] == 'not_merged':
                nm.extend(rb['listed'])
                continue
            B = rb['commit']
            for c in rb['listed']:
                under.setdefault(c, []).append(B)
            if B == h and B in builds:
                tagged = gm.is_build_commit(sp.commits[h])
                if rb['not_built'] == tagged:
                    fails.append(('earliest', 'head-label',
                                  f"{b}: head {h} {'carries' if tagged else 'has no'} build tag but is shown as "
                                  f"{'not built' if rb['not_built'] else 'a numbered build'}"))
            elif rb['not_built']:
                fails.append(('earliest', 'head-label', f"{b}: commit {B} (not the head {h}) shown as 'not built'"))
        for c in sorted(M & R):
            where = under.get(c, [])
            if len(where) > 1:
                fails.append(('listed_once', klass, f"{b}: matching commit {c} listed under {len(where)} builds {where}"))
            for B in where:
                if B not in builds:
                    fails.append(('earliest', 'not-a-build-of-branch:' + klass,
                                  f"{b}: commit {c} listed under commit {B}, which is not a build of {b} "
                                  f"(builds: {sorted(builds)})"))
                elif not sp.contains(B, c):
                    fails.append(('earliest', 'build-does-not-contain',
                                  f"{b}: commit {c} listed under build {B} which does not contain it"))
                else:
                    earlier = [B2 for B2 in builds if B2 != B and sp.contains(B, B2) and sp.contains(B2, c)]
                    if earlier:
                        fails.append(('earliest', 'later-build',
                                      f"{b}: commit {c} listed under build {B} although the earlier build(s) "
                                      f"{sorted(earlier)} of the branch already contain it"))
            if not where and any(sp.contains(B, c) for B in builds):
                fails.append(('exactly_once_if_build_exists', klass,
                              f"{b}: matching commit {c} is contained in build(s) "
                              f"{sorted(B for B in builds if sp.contains(B, c))} of the branch but listed under none"))
        for c in sorted(set(nm)):
            if c in R:
                fails.append(('never_not_merged_if_reachable', klass,
                              f"{b}: commit {c} is reachable from the head {h} but listed under 'not merged'"))
            elif c not in (M & P):
                fails.append(('not_merged_exact', 'extra',
                              f"{b}: commit {c} under 'not merged' is not a matching commit of a lower-sorted branch"))
        for c in sorted(M & (P - R)):
            n = nm.count(c)
            if n != 1:
                fails.append(('not_merged_exact', 'missing' if n == 0 else 'repeated',
                              f"{b}: matching commit {c} (in a lower-sorted branch, not reachable from head {h}) "
                              f"listed {n} times under 'not merged'"))
            if c in under:
                fails.append(('not_merged_exact', 'also-under-build',
                              f"{b}: commit {c} is not reachable from head {h} but listed under build(s) {under[c]}"))
        for c in sorted(set(under) - R - P):
            diags.append(f"{b}: commit {c} listed under a build although reachable neither from the head nor "
                         f"from a lower-sorted branch")
    facts = {
        'branches': len(sp.order),
        'builds': sum(len(v) for v in sp.builds.values()),
        'matching_reachable': len(M & set().union(*sp.R.values())) if sp.R else 0,
        'head_in_lower': any(sp.head[b] in sp.P[b] for b in sp.order),
        'not_merged_expected': any(M & (sp.P[b] - sp.R[b]) for b in sp.order),
        'tagged_merge_of_built': _tagged_merge_of_built(sp),
        'roots': sum(1 for c in set().union(*sp.R.values()) if not sp.parents[c]) if sp.R else 0,
    }
    facts.update(_text_and_time_facts(sp, text, M))
    facts.update(_name_facts(sp, hist, M))
    return fails, diags, facts


def _name_facts(sp, hist, M):
    """pairs of release branches (a, b) in which the parts of a's name are a proper prefix of the parts
    of b's ('release/10' and 'release/10.1'): by the statement a is the lower-sorted one"""
    declared = [b for b, _ in hist['branches']]
    f = {'names_in_domain': names_in_domain(declared),
         'prefix_num_short_first': False, 'prefix_num_long_first': False, 'prefix_word': False,
         'prefix_num_both_sides_unmerged': False, 'prefix_num_deep': False}
    rel = [b for b in sp.order if b != 'master']
    for a, b in itertools.permutations(rel, 2):
        pa, pb = name_parts(a), name_parts(b)
        if len(pa) >= len(pb) or pb[:len(pa)] != pa:
            continue
        if not isinstance(pb[len(pa)], int):
            f['prefix_word'] = True
            continue
        if declared.index(a) < declared.index(b):
            f['prefix_num_short_first'] = True
        else:
            f['prefix_num_long_first'] = True
        if len(pb) - len(pa) >= 2:
            f['prefix_num_deep'] = True
        # the order of the two decides what is 'not merged' where: each branch has a matching commit
        # that is not reachable from the other head
        if M & (sp.R[a] - sp.R[b]) and M & (sp.R[b] - sp.R[a]):
            f['prefix_num_both_sides_unmerged'] = True
    return f


def _reads_as(text, msg):
    """the (wrong) normalisations of the search text under which msg would be selected although it
    does not contain the text: 'stripped' (surrounding whitespace removed), 'blanks' (runs of
    whitespace collapsed on both sides), 'case' (case-insensitive), 'pattern' (text read as a regular
    expression or a shell pattern).  Used only to say which cases exercise 'the search text is taken
    as it is'; the verdict on a commit is always  text in message."""
    import fnmatch
    import re
    if text in msg:
        return set()
    got = set()
    st = text.strip()
    if st != text and st and st in msg:
        got.add('stripped')
    if re.sub(r'\s+', ' ', text) in re.sub(r'\s+', ' ', msg):
        got.add('blanks')
    if text.lower() in msg.lower():
        got.add('case')
    try:
        if text and re.search(text, msg):
            got.add('pattern')
    except re.error:
        pass
    if any(ch in text for ch in '*?[') and fnmatch.fnmatchcase(msg, '*' + text + '*'):
        got.add('pattern')
    return got


def _text_and_time_facts(sp, text, M):
    reach_all = set().union(*sp.R.values()) if sp.R else set()
    near = set()
    for c in reach_all - M:
        near |= _reads_as(text, sp.commits[c].get('msg', ''))
    t = {c: sp.commits[c].get('t', 0) for c in sp.commits}
    tmax = max(t.values()) if t else 0
    tmin = min(t.values()) if t else 0
    old = False        # a report-related commit of a lower-sorted branch > 30 days older than a head
    for b in sp.order:
        th = t[sp.head[b]]
        for c in sp.P[b]:
            if (c in M or gm.is_build_commit(sp.commits[c])) and th - t[c] > WINDOW:
                old = True
    return {
        'near_stripped': 'stripped' in near,
        'near_other': bool(near & {'case', 'pattern', 'blanks'}),
        'old_history': old,
        # the quantifier's restriction, independent of which report-related commit the cut-off is
        # measured from: no head is more than 29 days older than ANY commit of the repository
        'in_domain': all(tmax - t[h] <= SAFE_WINDOW for h in sp.head.values()),
        'span_days': (tmax - tmin) / 86400.0,
    }


def _tagged_merge_of_built(sp):
    """a build of some branch that is a merge commit whose parents lead to two different, mutually
    unrelated builds of the same branch"""
    for b in sp.order:
        bl = sp.builds[b]
        for B in bl:
            if len(sp.parents[B]) < 2 or not gm.is_build_commit(sp.commits[B]):
                continue
            below = [x for x in bl if x != B and sp.contains(B, x)]
            for x, y in itertools.combinations(below, 2):
                if not sp.contains(x, y) and not sp.contains(y, x):
                    return True
    return False


# ------------------------------------------------------------------------------------------------
# running the real code
# ------------------------------------------------------------------------------------------------

class Budget(BaseException):
    pass


@contextlib.contextmanager
def guarded(seconds=CALL_BUDGET_S):
    """silence + wall-clock budget for one call of the code under test"""
    def _alarm(signum, frame):
        raise Budget()
    old_out, old_err = sys.stdout, sys.stderr
    sys.stdout, sys.stderr = io.StringIO(), io.StringIO()
    logging.disable(logging.CRITICAL)
    old = signal.signal(signal.SIGALRM, _alarm)
    signal.setitimer(signal.ITIMER_REAL, seconds)
    try:
        yield
    finally:
        signal.setitimer(signal.ITIMER_REAL, 0)
        signal.signal(signal.SIGALRM, old)
        logging.disable(logging.NOTSET)
        sys.stdout, sys.stderr = old_out, old_err


def observe_rgraph(rgraph):
    """RGraph -> observation (report order)"""
    obs = []
    for rbranch in rgraph.branches:
        builds = []
        for rb in rbranch.get_rbuilds_list():
            listed = [rc.commit.intid for rc in rb.get_printable_rcommits()]
            if rb.rcommit is None:
                kind = 'not_merged' if rb.build_num.is_fake_not_merged() else 'unknown-fake'
                builds.append({'kind': kind, 'commit': None, 'not_built': False, 'listed': listed,
                               'num': str(rb.build_num)})
            else:
                builds.append({'kind': 'not_merged' if rb.build_num.is_fake_not_merged() else 'build',
                               'commit': rb.rcommit.commit.intid,
                               'not_built': bool(rb.build_num.is_fake_not_built()),
                               'listed': listed, 'num': str(rb.build_num)})
        obs.append({'branch': str(rbranch.branch_name), 'builds': builds})
    return obs


def run_report(hist, text, printed=False):
    """-> (obs, printed_text, error)"""
    from ak import ghist
    try:
        with guarded():
            prj = gm.project(hist.get('name', 'r'), hist)
            coll = ghist.ReposCollection({prj.repo_id: prj})
            data = coll.make_reports_data(text)
            (rid, rgraph), = data
            obs = observe_rgraph(rgraph)
            txt = None
            if printed:
                rep = ghist.GHistReport(data, ghist.ReportFormatter())
                txt = str(rep.ch_text(no_color=True))
        return obs, txt, None
    except Budget:
        return None, None, f"no result within {CALL_BUDGET_S} s"
    except Exception as e:      # noqa: the code under test may raise anything
        return None, None, f"{type(e).__name__}: {e}"


def printed_agrees(hist, obs, txt):
    """supporting clause: the printed report shows the same commits under the same builds"""
    hexes = {gm.MCommit(hist.get('name', 'r'), d).hexsha[:11]: d['id'] for d in hist['commits']}
    seq = []
    for line in txt.split('\n'):
        s = line.strip()
        if not s or s.startswith('===='):
            continue
        w = s.split()[0]
        if not line.startswith(' '):
            if w in hexes:
                seq.append(('c', hexes[w]))
            elif s.endswith(':'):
                seq.append(('r', s[:-1].split()[-1]))
        elif line.startswith('  ') and not line.startswith('   '):      # build title line
            if s.startswith('- not merged -'):
                seq.append(('b', 'not merged'))
            elif s.startswith('- not built -'):
                seq.append(('b', 'not built'))
            else:
                seq.append(('b', w))
    want = []
    for o in obs:
        want.append(('r', o['branch']))
        for rb in o['builds']:
            want.append(('b', 'not merged' if rb['kind'] == 'not_merged' else
                         ('not built' if rb['not_built'] else rb['num'])))
            want.extend(('c', c) for c in rb['listed'])
    return seq == want, seq, want


def evaluate(hist, text, printed=False):
    """-> (fails, diags, facts, obs)"""
    obs, txt, err = run_report(hist, text, printed)
    if err is not None:
        sp_fails, _, facts = check(hist, text, [])
        kind = 'budget' if err.startswith('no result') else 'raises-' + err.split(':')[0]
        return [('exactly_once_if_build_exists', kind,
                 f"make_reports_data({text!r}) gives no report: {err}")], [], facts, None
    fails, diags, facts = check(hist, text, obs)
    if printed and txt is not None:
        ok, seq, want = printed_agrees(hist, obs, txt)
        if not ok:
            diags.append(f"printed report {seq} differs from report data {want}")
    return fails, diags, facts, obs


# ------------------------------------------------------------------------------------------------
# input space
# ------------------------------------------------------------------------------------------------

TEXTS = ['BUG-1', 'BUG-12']
MESSAGES_MATCH = ['BUG-1 fix', 'part of BUG-12', 'BUG-12', 'cleanup\n\nrefs BUG-1', 'BUG-1']
MESSAGES_OTHER = ['refactoring', 'BUG-2 other', 'merge', 'bug-1 lower case', 'BUG 1']
RELEASE_NAMES = ['release/9.5', 'release/10.2', 'release/10.10', 'release/2.30']
DAY = 86400


def gen_random(seed, index):
    """one seeded history: DAG <= 12 commits, p(merge)=.25, 1-2 roots, 1-3 release branches + master,
    heads anywhere, build tags on 0-4 commits (plus foreign tags), 1-3 matching messages"""
    rnd = random.Random(seed * 1_000_003 + index)
    n = rnd.randint(3, 12)
    roots = 1 if rnd.random() < .7 else 2
    commits = []
    span = rnd.choice([3600, DAY, 10 * DAY, 29 * DAY])
    times = sorted(rnd.randrange(span) for _ in range(n))
    if rnd.random() < .15:
        rnd.shuffle(times)               # clock skew: still inside the window
    n_match = rnd.randint(1, 3)
    match_ids = set(rnd.sample(range(1, n + 1), min(n_match, n)))
    n_tags = rnd.randint(0, 4)
    tag_ids = set(rnd.sample(range(1, n + 1), min(n_tags, n)))
    for i in range(1, n + 1):
        if i <= roots:
            parents = []
        elif rnd.random() < .25 and i > 2:
            parents = sorted(rnd.sample(range(1, i), 2), reverse=rnd.random() < .5)
        else:
            # mostly continue one of the recent commits (long lines with side branches)
            parents = [i - 1] if rnd.random() < .6 else [rnd.randrange(1, i)]
        d = {'id': i, 'parents': parents, 't': times[i - 1],
             'msg': rnd.choice(MESSAGES_MATCH) if i in match_ids else rnd.choice(MESSAGES_OTHER)}
        tags = []
        if i in tag_ids:
            tags.append(gm.release_tag(100 + i, 10, rnd.choice([1, 2])))
            if rnd.random() < .1:
                tags.append(gm.release_tag(200 + i, 10, 3))
        if rnd.random() < .1:
            tags.append(rnd.choice(['v1.0-%d' % i, 'build_%d_release_10_1_failed' % i, 'nightly_%d' % i]))
        if tags:
            d['tags'] = tags
        commits.append(d)
    nrel = rnd.randint(1, 3)
    names = rnd.sample(RELEASE_NAMES, nrel) + ['master']
    branches = []
    mode = rnd.random()
    for k, nm in enumerate(names):
        if mode < .25 and branches and rnd.random() < .5:
            head = rnd.choice(branches)[1]                 # coinciding heads
        elif mode < .5 and rnd.random() < .5:
            head = rnd.randint(max(1, n - 3), n)           # heads near the tip
        else:
            head = rnd.randint(1, n)
        branches.append([nm, head])
    rnd.shuffle(branches)
    return {'name': 'r', 'commits': commits, 'branches': branches}


def small_dags(n):
    """all parent assignments over commits 1..n: parents are 0, 1 or 2 smaller ids"""
    choices = []
    for i in range(1, n + 1):
        opts = [[]] + [[p] for p in range(1, i)] + [list(c) for c in itertools.combinations(range(1, i), 2)]
        choices.append(opts)
    return itertools.product(*choices)


def enum_small_blocks(n, branch_names, all_reachable=False):
    """exhaustive family, in blocks: every DAG over n commits x every head placement of the given
    branches (one block each) x every set of tagged commits x every non-empty set of matching
    commits; search text 'BUG-1'.  all_reachable: only the (DAG, heads) pairs in which every commit
    is reachable from some head (the others repeat a smaller history plus invisible commits)"""
    ids = list(range(1, n + 1))

    def block(dag, heads):
        for tagmask in range(1 << n):
            for matchmask in range(1, 1 << n):
                commits = []
                for i in ids:
                    d = {'id': i, 'parents': list(dag[i - 1]), 't': 1000 * i,
                         'msg': 'BUG-1' if matchmask >> (i - 1) & 1 else 'x'}
                    if tagmask >> (i - 1) & 1:
                        d['tags'] = [gm.release_tag(i, 1, 0)]
                    commits.append(d)
                yield {'name': 'r', 'commits': commits,
                       'branches': [[b, h] for b, h in zip(branch_names, heads)]}, 'BUG-1'
    for dag in small_dags(n):
        for heads in itertools.product(ids, repeat=len(branch_names)):
            if all_reachable:
                seen, stack = set(heads), list(heads)
                while stack:
                    for p in dag[stack.pop() - 1]:
                        if p not in seen:
                            seen.add(p)
                            stack.append(p)
                if len(seen) < n:
                    continue
            yield (lambda dag=dag, heads=heads: block(dag, heads))


# ---- the search text is taken as it is ---------------------------------------------------------
# 'contains the search text' is plain sub-string containment of the text exactly as given: no
# stripping of surrounding blanks, no collapsing of blanks, no case folding, no pattern syntax.

WS_LEAD = ['', '', ' ', '  ', '\t', '\n']
WS_TRAIL = [' ', ' ', '  ', '\t', '\n', '']
CORES = ['BUG-1', 'AB-7', '#3', 'fix 1']
# (search text, messages that contain it, messages that contain it only when the text is normalised)
LITERAL_TEXTS = [
    ('BUG.1', ['BUG.1 fix', 'see BUG.1'], ['BUG-1 fix', 'BUG 1', 'BUGX1 y']),
    ('BUG-1*', ['BUG-1* all of them', 'x BUG-1*'], ['BUG-1', 'BUG-12 fix', 'BUG-']),
    ('BUG-?', ['which BUG-?'], ['BUG-1', 'BUG-7 x']),
    ('[BUG-1]', ['[BUG-1] fix', 'fix [BUG-1]'], ['BUG-1 fix', 'B', '1']),
    ('BUG-1$', ['costs BUG-1$ a day'], ['BUG-1', 'fix BUG-1']),
    ('^BUG-1', ['not ^BUG-1'], ['BUG-1 fix', 'x\nBUG-1']),
    ('BUG-1|BUG-2', ['BUG-1|BUG-2 both'], ['BUG-1 fix', 'BUG-2 other']),
    ('BUG-\\d', ['BUG-\\d is a pattern'], ['BUG-1', 'BUG-7 x']),
    ('(BUG-1)', ['done (BUG-1)'], ['BUG-1 fix']),
    ('bug-1', ['bug-1 lower case', 'see bug-1'], ['BUG-1 fix', 'Bug-1']),
    ('BUG-1', ['BUG-1 fix', 'refs BUG-1'], ['bug-1 lower case', 'Bug-1 x']),
    ('Bug-1', ['Bug-1'], ['BUG-1 fix', 'bug-1 lower case']),
    ('BUG-1 fix', ['BUG-1 fix', 'the BUG-1 fix again'], ['BUG-1  fix', 'BUG-1\tfix', 'BUG-1\nfix', 'BUG-1fix']),
]
VERBATIM_OFFSET = 10_000_000
OLD_OFFSET = 20_000_000


def gen_verbatim(seed, index):
    """one seeded (history, text): the DAG / tags / heads of gen_random, the messages rewritten around a
    search text that is (3 of 4) an id with leading and/or trailing whitespace or (1 of 4) an id with
    pattern characters / in another case / with an inner blank.  1-3 commits contain the text, 1-3
    others contain only a normalised form of it (the id followed by another digit - so that the
    stripped text is a prefix of another id -, the id at the end of the message, the id followed by a
    different whitespace character, ...)"""
    hist = gen_random(seed, VERBATIM_OFFSET + index)
    rnd = random.Random(f"{seed}/verbatim/{index}")
    if index % 4 != 3:
        core = rnd.choice(CORES)
        while True:
            lead, trail = rnd.choice(WS_LEAD), rnd.choice(WS_TRAIL)
            if lead or trail:
                break
        text = lead + core + trail
        match = [text, text + 'fix', 'see' + text + 'now', 'cleanup\n\nrefs' + text + 'end', 'x ' + text + ' y',
                 text + text]
        other_ws = [w for w in (' ', '\t', '\n', '  ') if not (trail and w.startswith(trail[0]))]
        near = [core, core + '2', core + '2 fix', 'part of ' + core + '7', 'fix ' + core, core + ': fix',
                'cleanup\n\nrefs ' + core, '(' + core + ')', core + rnd.choice(other_ws or ['.']) + 'fix',
                'x' + core + (trail or ' ') + 'y', (lead or ' ') + core + 'y']
    else:
        text, match, near = rnd.choice(LITERAL_TEXTS)
    n = len(hist['commits'])
    ids = list(range(1, n + 1))
    rnd.shuffle(ids)
    n_match = rnd.randint(1, 3)
    n_near = rnd.randint(1, 3)
    for d in hist['commits']:
        k = ids.index(d['id'])
        if k < n_match:
            d['msg'] = rnd.choice(match)
        elif k < n_match + n_near:
            d['msg'] = rnd.choice(near)
        else:
            d['msg'] = rnd.choice(MESSAGES_OTHER)
    return hist, text


def enum_small_blank_blocks(n, branch_names):
    """exhaustive family for a search text with a trailing blank: every DAG over n commits x every head
    placement x every set of tagged commits x every assignment of one of three messages to each commit
    ('x'; 'BUG-1 fix', which contains the text 'BUG-1 '; 'BUG-12', which contains only the stripped
    text), at least one commit not 'x'"""
    ids = list(range(1, n + 1))
    msgs = ['x', 'BUG-1 fix', 'BUG-12']

    def block(dag, heads):
        for tagmask in range(1 << n):
            for assign in itertools.product(range(3), repeat=n):
                if not any(assign):
                    continue
                commits = []
                for i in ids:
                    d = {'id': i, 'parents': list(dag[i - 1]), 't': 1000 * i, 'msg': msgs[assign[i - 1]]}
                    if tagmask >> (i - 1) & 1:
                        d['tags'] = [gm.release_tag(i, 1, 0)]
                    commits.append(d)
                yield {'name': 'r', 'commits': commits,
                       'branches': [[b, h] for b, h in zip(branch_names, heads)]}, 'BUG-1 '
    for dag in small_dags(n):
        for heads in itertools.product(ids, repeat=len(branch_names)):
            yield (lambda dag=dag, heads=heads: block(dag, heads))


# ---- histories older than the window -------------------------------------------------------------

def gen_old_history(seed, index):
    """one seeded (history, text): the DAG / tags / messages of gen_random with commit times spread over
    31-45 days (increasing with the commit number, 15 % shuffled), and every branch head among the
    commits of the last 29 days: whichever report-related commit the 30-day cut-off is measured
    from, no branch is obsolete"""
    hist = gen_random(seed, OLD_OFFSET + index)
    rnd = random.Random(f"{seed}/old/{index}")
    n = len(hist['commits'])
    span = rnd.choice([31, 33, 36, 40, 45]) * DAY
    times = sorted(rnd.randrange(span) for _ in range(n))
    times[0] = rnd.randrange(DAY // 2)
    times[-1] = span - 1 - rnd.randrange(DAY // 2)
    times.sort()
    if rnd.random() < .15:
        rnd.shuffle(times)
    for d in hist['commits']:
        d['t'] = times[d['id'] - 1]
    tmax = max(times)
    recent = [d['id'] for d in hist['commits'] if tmax - d['t'] <= SAFE_WINDOW]
    for br in hist['branches']:
        t_head = hist['commits'][br[1] - 1]['t']
        if tmax - t_head > SAFE_WINDOW:
            br[1] = rnd.choice(recent)
    return hist, TEXTS[index % len(TEXTS)]


# ---- branch names one of which is a proper prefix of another ---------------------------------------
# 'numeric-aware name' orders 'release/10' before 'release/10.1' before 'release/10.1.2' (a name that is
# a prefix of another sorts first) whatever comes next - a number or a word - and in whatever order the
# refs are declared.

PREFIX_OFFSET = 30_000_000
# exhaustive families: (family suffix, names in declaration order)
PREFIX_NAME_LISTS_QUICK = [
    ('2c-10.1,10,master', 2, ['release/10.1', 'release/10', 'master']),
    ('2c-10,10.1,master', 2, ['release/10', 'release/10.1', 'master']),
    ('2c-master,10.1,10', 2, ['master', 'release/10.1', 'release/10']),
    ('2c-10,master,10.1', 2, ['release/10', 'master', 'release/10.1']),
    ('2c-10.1,master,10', 2, ['release/10.1', 'master', 'release/10']),
    ('2c-master,10,10.1', 2, ['master', 'release/10', 'release/10.1']),
    ('3c-10.1,10', 3, ['release/10.1', 'release/10']),
    ('3c-10,10.1', 3, ['release/10', 'release/10.1']),
    ('3c-rel-2-1,rel-2', 3, ['release/rel-2-1', 'release/rel-2']),
    ('3c-10.250,10.250.0.1', 3, ['release/10.250', 'release/10.250.0.1']),
    ('3c-9_1,9,master', 3, ['release/9_1', 'release/9', 'master']),
    ('3c-master,2,2.10', 3, ['master', 'release/2', 'release/2.10']),
]
PREFIX_NAME_LISTS_THOROUGH = [
    ('3c-10,master,10.1', 3, ['release/10', 'master', 'release/10.1']),
    ('3c-10.1,master,10', 3, ['release/10.1', 'master', 'release/10']),
    ('3c-10-hotfix,10', 3, ['release/10-hotfix', 'release/10']),
    ('4c-10.1,10', 4, ['release/10.1', 'release/10']),
    ('4c-10,10.1', 4, ['release/10', 'release/10.1']),
]


def prefix_names(rnd, nrel):
    """nrel release branch names over one stem and one separator, among them a name and a numeric
    continuation of it: number tuples t, t+(k,), t+(k, l), siblings differing in the last number (9 against
    10: numeric, not lexicographic), a prefix of t, t with a word appended; only sets on which every
    numeric-aware order agrees (names_in_domain)"""
    while True:
        sep = rnd.choice(['.', '.', '-', '_', '/'])
        stem = rnd.choice(['', '', '', 'rel-', 'r_', 'lts/'])
        t = tuple(rnd.choice([1, 2, 9, 10, 250]) for _ in range(rnd.choice([1, 1, 2])))
        k = rnd.choice([0, 1, 2, 10])
        ext = t + (k,)
        pool = [t + (k, rnd.choice([0, 1, 3])), t + (rnd.choice([3, 9, 11]),), t[:-1] + (t[-1] + 1,),
                t[:-1] + (9 if t[-1] == 10 else 10,), t[:-1] + (t[-1] + 1, 'hotfix'), ext + ('rc',),
                t + (k + 1, 1)]
        if len(t) > 1:
            pool.append(t[:-1])
        chosen = [t, ext] + rnd.sample(pool, nrel - 2)
        names = ['release/' + stem + sep.join(str(x) for x in c) for c in chosen]
        if len(set(names)) == nrel and names_in_domain(names):
            return names


def gen_prefix_names(seed, index):
    """one seeded (history, text): the DAG / tags / messages / times of gen_random, the branches replaced by
    2-3 release branches named by prefix_names (+ master in 4 of 5), declared in a shuffled order.  In
    half of the cases the heads of the name and of its continuation are put on two commits neither of
    which is reachable from the other, and each of the two gets a matching message"""
    hist = gen_random(seed, PREFIX_OFFSET + index)
    rnd = random.Random(f"{seed}/prefix-names/{index}")
    text = TEXTS[index % len(TEXTS)]
    n = len(hist['commits'])
    nrel = rnd.choice([2, 2, 3])
    names = prefix_names(rnd, nrel)
    old_heads = [h for _, h in hist['branches']]
    heads = [rnd.choice(old_heads) if rnd.random() < .5 else rnd.randint(1, n) for _ in names]
    if rnd.random() < .5:
        parents = {d['id']: d['parents'] for d in hist['commits']}

        def anc(c):
            got, stack = {c}, [c]
            while stack:
                for p in parents[stack.pop()]:
                    if p not in got:
                        got.add(p)
                        stack.append(p)
            return got
        pairs = [(x, y) for x in range(1, n + 1) for y in range(1, n + 1)
                 if x != y and x not in anc(y) and y not in anc(x)]
        if pairs:
            heads[0], heads[1] = rnd.choice(pairs)
            for h in heads[:2]:
                if rnd.random() < .8:
                    hist['commits'][h - 1]['msg'] = rnd.choice(
                        [m for m in MESSAGES_MATCH if text in m])
    branches = [[nm, h] for nm, h in zip(names, heads)]
    if rnd.random() < .8:
        branches.append(['master', rnd.choice(old_heads + [n])])
    rnd.shuffle(branches)
    hist['branches'] = branches
    return hist, text


RANDOM_BLOCK = 64


def n_prefix_names(tier):
    return 2048 if tier == 'quick' else 20480


def n_random(tier):
    return 4096 if tier == 'quick' else 40960


def n_verbatim(tier):
    return 2048 if tier == 'quick' else 20480


def n_old(tier):
    return 1024 if tier == 'quick' else 10240


def random_case(seed, i):
    hist = gen_random(seed, i // len(TEXTS))
    return hist, TEXTS[i % len(TEXTS)]


def families(tier, seed):
    """[(family name, factory of blocks)]; a block is a callable giving an iterator of (hist, text).
    Blocks are the unit of work distribution: block i goes to worker i mod nproc."""
    from harness import c06_suite_scenarios as sc
    fams = [('suite', lambda: iter([lambda: iter(sc.SUITE_SINGLE_CASES)]))]

    def small(n, names):
        return lambda: enum_small_blocks(n, names, all_reachable=(n >= 4))
    for n in (1, 2):
        fams.append((f'small-{n}c-2b', small(n, ['release/1.0', 'master'])))
        fams.append((f'small-{n}c-3b', small(n, ['release/1.0', 'release/1.1', 'master'])))
    fams.append(('small-3c-2b', small(3, ['release/1.0', 'master'])))
    fams.append(('small-3c-3b', small(3, ['release/1.0', 'release/1.1', 'master'])))
    fams.append(('small-4c-2b', small(4, ['release/1.0', 'master'])))
    fams.append(('small-4c-2rel', small(4, ['release/9.0', 'release/10.0'])))
    if tier == 'thorough':
        fams.append(('small-4c-3b', small(4, ['release/1.0', 'release/1.1', 'master'])))

    def rnd_blocks():
        for s in range(0, n_random(tier), RANDOM_BLOCK):
            yield (lambda s=s: (random_case(seed, i) for i in range(s, s + RANDOM_BLOCK)))
    fams.append(('random', rnd_blocks))

    fams.append(('small-3c-2b-blank-text', lambda: enum_small_blank_blocks(3, ['release/1.0', 'master'])))
    if tier == 'thorough':
        fams.append(('small-3c-3b-blank-text',
                     lambda: enum_small_blank_blocks(3, ['release/1.0', 'release/1.1', 'master'])))

    def seeded_blocks(gen, count):
        def blocks():
            for s in range(0, count, RANDOM_BLOCK):
                yield (lambda s=s: (gen(seed, i) for i in range(s, s + RANDOM_BLOCK)))
        return blocks
    fams.append(('verbatim-text', seeded_blocks(gen_verbatim, n_verbatim(tier))))
    fams.append(('old-history', seeded_blocks(gen_old_history, n_old(tier))))

    lists = PREFIX_NAME_LISTS_QUICK + (PREFIX_NAME_LISTS_THOROUGH if tier == 'thorough' else [])
    for suffix, n, names in lists:
        fams.append(('small-prefix-names-' + suffix, small(n, names)))
    fams.append(('prefix-names', seeded_blocks(gen_prefix_names, n_prefix_names(tier))))
    return fams


# ------------------------------------------------------------------------------------------------
# driver
# ------------------------------------------------------------------------------------------------

REACH = ['head inside another branch', 'heads coincide', 'tagged merge of two built sub-branches',
         "non-empty 'not merged'", 'several roots',
         'search text with leading/trailing whitespace, a reachable commit contains only the stripped text',
         'a reachable commit contains the search text only case-insensitively / as a pattern / with blanks collapsed',
         'report-related commit more than 30 days older than the head of a higher-sorted branch',
         'a release branch name is a proper prefix of another that continues with a number, declared before it',
         'a release branch name is a proper prefix of another that continues with a number, declared after it',
         'a release branch name is a proper prefix of another that continues with a number, each of the two '
         'branches has a matching commit not reachable from the other head',
         'a release branch name is a proper prefix of another that continues with two or more numbers',
         'a release branch name is a proper prefix of another that continues with a word']


def feats_of(hist, facts):
    f = []
    if facts['head_in_lower']:
        f.append('head inside another branch')
        heads = [h for _, h in hist['branches']]
        if len(set(heads)) < len(heads):
            f.append('heads coincide')
    if facts['tagged_merge_of_built']:
        f.append('tagged merge of two built sub-branches')
    if facts['not_merged_expected']:
        f.append("non-empty 'not merged'")
    if facts['roots'] >= 2:
        f.append('several roots')
    if facts['near_stripped']:
        f.append(REACH[5])
    if facts['near_other']:
        f.append(REACH[6])
    if facts['old_history']:
        f.append(REACH[7])
    for k, fact in enumerate(('prefix_num_short_first', 'prefix_num_long_first', 'prefix_num_both_sides_unmerged',
                              'prefix_num_deep', 'prefix_word')):
        if facts[fact]:
            f.append(REACH[8 + k])
    if not facts['in_domain']:
        f.append('OUTSIDE-DOMAIN')
    if not facts['names_in_domain']:
        f.append('OUTSIDE-DOMAIN-NAMES')
    return f


def nontrivial(facts):
    return facts['branches'] >= 2 and facts['builds'] >= 1 and facts['matching_reachable'] >= 1


def _work(args):
    """worker: evaluates the blocks  start, start+step, ...  of every family; returns plain lists"""
    tier, seed, start, step = args
    out = []
    n = 0
    for fam, blocks in families(tier, seed):
        for bi, block in enumerate(blocks()):
            if bi % step != start:
                continue
            for ci, (hist, text) in enumerate(block()):
                n += 1
                fails, diags, facts, _ = evaluate(hist, text, printed=(n % 97 == 0))
                out.append((fam, bi, ci, nontrivial(facts), feats_of(hist, facts),
                            [(c, k, t) for c, k, t in fails], diags[:3]))
    return out


def run(b):
    for msg in validate_against_suite():
        b.error("oracle self-validation against tests/test_ghist.py scenarios failed: " + msg)
    if b.errors:
        return
    nproc = 16
    ctx = multiprocessing.get_context('fork')
    jobs = [(b.tier, b.seed, s, nproc) for s in range(nproc)]
    with ctx.Pool(nproc) as pool:
        results = pool.map(_work, jobs, chunksize=1)
    res = {}
    for part in results:
        for r in part:
            res[(r[0], r[1], r[2])] = r
    b.notes['families'] = {}
    for fam, blocks in families(b.tier, b.seed):
        cnt = 0
        for bi, block in enumerate(blocks()):
            for ci, (hist, text) in enumerate(block()):
                cnt += 1
                r = res.pop((fam, bi, ci), None)
                if r is None:
                    b.error(f"case {fam}#{bi}.{ci} was not evaluated")
                    continue
                _, _, _, nontriv, feats, fails, diags = r
                case = {'history': hist, 'text': text}
                b.case(case, nontrivial=nontriv, sample=(fam == 'random'))
                if 'OUTSIDE-DOMAIN' in feats:
                    b.error(f"case {fam}#{bi}.{ci}: a branch head is more than 29 days older than the newest "
                            f"commit - outside the quantifier of the property")
                    continue
                if 'OUTSIDE-DOMAIN-NAMES' in feats:
                    b.error(f"case {fam}#{bi}.{ci}: the branch names {[n for n, _ in hist['branches']]} are not "
                            f"ordered the same way by every numeric-aware order - outside the property")
                    continue
                for f in feats:
                    b.hit(f)
                for clause, ksuf, txt in fails:
                    b.fail(f"C06.{clause}", f"C06.{clause}:{ksuf}", txt, case)
                for d in diags:
                    b.diag(d)
        b.notes['families'][fam] = cnt
    if res:
        b.error(f"{len(res)} evaluated cases do not belong to the enumerated space")
    b.require_reach(REACH)


def replay_case(case):
    fails, diags, facts, obs = evaluate(case['history'], case['text'], printed=False)
    return (not fails), {'violations': [f"{c} [{k}]: {t}" for c, k, t in fails], 'report': obs}


# ------------------------------------------------------------------------------------------------
# self-validation of the oracle against the hand-built scenarios of tests/test_ghist.py
# ------------------------------------------------------------------------------------------------

def validate_against_suite():
    """the oracle must (a) accept the expectations written in tests/test_ghist.py, transcribed as
    observations, and (b) accept what the unchanged code reports on the same histories (checked
    only as far as the suite pins the result down: the listing must equal the suite's)"""
    from harness import c06_suite_scenarios as sc
    problems = []
    for name, hist, text, expected in sc.single_repo_expectations():
        fails, _, _ = check(hist, text, expected)
        if fails:
            problems.append(f"{name}/{text}: oracle rejects the suite's expectation: {fails[0][2]}")
        # the oracle must also *determine* the suite's expectation where it is unambiguous:
        # any observation that moves one listed commit to another build must be rejected
        for mutated in sc.mutations(expected):
            mf, _, _ = check(hist, text, mutated)
            if not mf:
                problems.append(f"{name}/{text}: oracle accepts a listing that differs from the suite's")
                break
    return problems
