"""C11 bounded driver: PrettyPrinter output of JSON-like data reads back as the same data.

Top-level clauses (from the property statement), enforced at run time on the real
`ak.ppobj.PrettyPrinter` for every explored value v and both modes:

  json_roundtrip       json.loads(PrettyPrinter(fmt_json=True)(v, no_color=True).plain_text()) equals v
                       (type-aware equality: 1, 1.0 and True are three different values); v has string
                       dict keys only
  python_roundtrip     ast.literal_eval(PrettyPrinter()(v, no_color=True).plain_text()) equals v
  sorted_keys          in the text the entries of every dict appear in sorted key order (read with an
                       order-preserving parse; demanded for dicts whose keys are mutually comparable:
                       all strings or all ints)
  elements_preserved   what the two stdlib parsers cannot see: no dict entry is printed twice
                       (json.loads / literal_eval silently keep the last one).  Dropped, duplicated and
                       reordered list elements / dict entries are failures of the round-trip clauses
                       (classes element-lost-or-duplicated / reordered; the other classes are unparseable,
                       value-differs, simple-value [a leaf printed on its own already fails], raises,
                       budget-overrun)
  lines_equal_whole    the lines produced by iterating the result, joined with '\\n', are the whole text - under
                       every way of consuming the iterator: each line converted to text as soon as it is yielded
                       (class differs), all lines collected first (list(result)) and converted only after the
                       whole iteration has finished, and two iterators of one result advanced alternately, their
                       lines converted at the end (class held-lines-differ: a line that was handed out must not
                       change when the generator advances)

Colour dimension: the clauses above are demanded for every documented way of asking for output without
colours - a colour specification (palette form, colors_conf form, no_color form), see COLOR SPECIFICATIONS below.
There the text that must read back is in the first place the output as it is printed, str(result) (classes
escape-characters:<default-palette|palette-class|palette-object> / str-output), and plain_text() as everywhere.

The oracle is the two stdlib parsers + the input value; the printer is never used to compute an
expectation.  `ref_*` below is a reference *length* model of the one-line rendering used only to steer
the sweep towards the thresholds (one-line: offset + len < 200; per-line wrap: 150) - no clause uses it.
Reach events are observed on the output (line counts), never derived from the constants.
"""
import ast
import contextlib
import io
import itertools
import json
import math
import multiprocessing
import random
import signal
import struct
import sys

from ak.ppobj import PrettyPrinter
from ak.color import ColorsConfig, ConfColor

MODES = ('json', 'python')
BUDGET_S = 5.0             # per rendered value; an overrun is reported as a violation
MAX_OVERRUNS = 8           # after that many overruns (all workers together) the rest of the space is skipped
_OVERRUNS = None           # multiprocessing.Value shared with the forked workers
T_ONELINE = 200            # read from ak/ppobj.py (steering only)
T_WRAP = 150               # read from ak/ppobj.py (steering only)
OFFSETS = (0, 2, 4, 6)


# --------------------------------------------------------------------------- COLOR SPECIFICATIONS
# The documented ways of passing colours to the printer (PrettyPrinter.__call__: palette = "PPPalette-derived
# class or an object of such class", no_color, colors_conf) and of making the colours empty (no_color=True of the
# call; Palette(..., no_color=True): "a palette object which produces text without any coloring effects";
# ColorsConfig(..., no_color=True): "ignores all other config settings and creates 'no-color' config").
# A colour specification is (palette form, colors_conf form, no_color form); the forms are names, the objects are
# built afresh for every case (so that a replay sees what the run saw).

PALETTE_FORMS = ('omitted', 'None', 'class', 'subclass', 'object', 'subclass-object', 'object-of-custom-conf',
                 'synced-object', 'nocolor-object', 'object-of-nocolor-conf')
PALETTE_OBJECTS = ('object', 'subclass-object', 'object-of-custom-conf', 'synced-object', 'nocolor-object',
                   'object-of-nocolor-conf')
PALETTE_COLORLESS = ('nocolor-object', 'object-of-nocolor-conf')
CONF_FORMS = ('omitted', 'None', 'fresh', 'custom', 'nocolor', 'custom-nocolor')
CONF_COLORLESS = ('nocolor', 'custom-nocolor')
NO_COLOR_FORMS = ('True', 'omitted', 'False', 'None')
CUSTOM_CONF = {"NAME": "BLUE/YELLOW:underline", "NUMBER": "RED:bold", "KEYWORD": "CYAN:blink", "TEXT": "MAGENTA"}


def _mk_subclass():
    """a user's palette class derived from the printer's one: own syntaxes with defaults, an overridden and an
    additional formatter"""
    base = PrettyPrinter.PPPalette
    return type(base)('C11SubPalette', (base,), {
        'SYNTAX_DEFAULTS': {"VERIF.C11.NUMBER": "RED/YELLOW:bold,underline", "VERIF.C11.NAME": "NAME:no_bold"},
        'number': ConfColor("VERIF.C11.NUMBER"),
        'name': ConfColor("VERIF.C11.NAME"),
        'extra': ConfColor("VERIF.C11.EXTRA"),
    })


def _mk_conf(form):
    if form == 'fresh':
        return ColorsConfig()
    if form == 'custom':
        return ColorsConfig(dict(CUSTOM_CONF))
    if form == 'nocolor':
        return ColorsConfig(no_color=True)
    if form == 'custom-nocolor':
        return ColorsConfig(dict(CUSTOM_CONF), no_color=True)
    raise ValueError(form)


def color_kwargs(cspec):
    """keyword arguments of the printer call for a colour specification"""
    if cspec is None:
        return {'no_color': True}
    pform, cform, nform = cspec
    kw = {}
    base = PrettyPrinter.PPPalette
    if pform == 'None':
        kw['palette'] = None
    elif pform == 'class':
        kw['palette'] = base
    elif pform == 'subclass':
        kw['palette'] = _mk_subclass()
    elif pform == 'object':
        kw['palette'] = base()
    elif pform == 'subclass-object':
        kw['palette'] = _mk_subclass()()
    elif pform == 'object-of-custom-conf':
        kw['palette'] = base(_mk_conf('custom'))
    elif pform == 'synced-object':
        kw['palette'] = _mk_subclass()(synced=True)
    elif pform == 'nocolor-object':
        kw['palette'] = base(no_color=True)
    elif pform == 'object-of-nocolor-conf':
        kw['palette'] = _mk_subclass()(_mk_conf('nocolor'))
    elif pform != 'omitted':
        raise ValueError(cspec)
    if cform == 'None':
        kw['colors_conf'] = None
    elif cform != 'omitted':
        kw['colors_conf'] = _mk_conf(cform)
    if nform != 'omitted':
        kw['no_color'] = {'True': True, 'False': False, 'None': None}[nform]
    return kw


def colorless_by(cspec):
    """which parts of the specification ask for no colours (from the documentation quoted above)"""
    pform, cform, nform = cspec
    by = []
    if nform == 'True':
        by.append('no_color=True')
    if pform in PALETTE_COLORLESS:
        by.append('no-colour palette object')
    if cform in CONF_COLORLESS:
        by.append('no-colour config')
    return by


def valid_cspec(cspec):
    """inside the quantifier: the call is documented (a ready palette object excludes colors_conf) and asks for
    output without colours in at least one way"""
    pform, cform, nform = cspec
    if pform in PALETTE_OBJECTS and cform not in ('omitted', 'None'):
        return False
    return bool(colorless_by(cspec))


def all_cspecs():
    return [c for c in itertools.product(PALETTE_FORMS, CONF_FORMS, NO_COLOR_FORMS) if valid_cspec(c)]


def palette_kind(cspec):
    if cspec is None or cspec[0] in ('omitted', 'None'):
        return 'default-palette'
    return 'palette-object' if cspec[0] in PALETTE_OBJECTS else 'palette-class'


def describe_cspec(cspec):
    if cspec is None:
        return 'no_color=True'
    pform, cform, nform = cspec
    return f"palette: {pform}, colors_conf: {cform}, no_color: {nform}"


# --------------------------------------------------------------------------- observation

class _Budget(BaseException):
    pass


@contextlib.contextmanager
def _budget(seconds):
    def handler(signum, frame):
        raise _Budget()
    old = signal.signal(signal.SIGALRM, handler)
    signal.setitimer(signal.ITIMER_REAL, seconds)
    try:
        yield
    finally:
        signal.setitimer(signal.ITIMER_REAL, 0)
        signal.signal(signal.SIGALRM, old)


@contextlib.contextmanager
def _quiet():
    old_err, old_out = sys.stderr, sys.stdout
    sys.stderr = io.StringIO()
    sys.stdout = io.StringIO()
    try:
        yield
    finally:
        sys.stderr, sys.stdout = old_err, old_out


def observe(v, mode, cspec=None):
    """the three observations of one printing: whole text, lines, str() of the result"""
    return observe_all(v, mode, cspec)[:3]


def _interleave(it_a, it_b):
    """advance two iterators alternately, keeping every yielded item; -> (items of a, items of b)"""
    got_a, got_b = [], []
    live = [(it_a, got_a), (it_b, got_b)]
    while live:
        for pair in list(live):
            try:
                pair[1].append(next(pair[0]))
            except StopIteration:
                live.remove(pair)
    return got_a, got_b


def observe_all(v, mode, cspec=None):
    """cspec: colour specification (None = the plain no_color=True).  -> whole text, lines converted at the moment they are yielded, str() of the result, and `held`:
    {discipline: line texts} for the disciplines that keep the yielded line objects and convert them to text
    only after the iteration has finished"""
    with _quiet(), _budget(BUDGET_S):
        printer = PrettyPrinter(fmt_json=(mode == 'json'))
        kwargs = color_kwargs(cspec)      # one palette / config object per case, used by both printings
        res = printer(v, **kwargs)
        text = res.plain_text()
        lines = [ln.plain_text() for ln in res]
        colored = str(res)
        held = {}
        # a fresh result, never asked for its whole text: collect, convert later
        kept = list(printer(v, **kwargs))
        held['list(result), lines converted afterwards'] = [ln.plain_text() for ln in kept]
        held['str: list(result), str(line) afterwards vs str(result)'] = [str(ln) for ln in kept]
        # two iterators of the result that already produced the whole text, advanced alternately
        kept_a, kept_b = _interleave(iter(res), iter(res))
        held['first of two alternately advanced iterators'] = [ln.plain_text() for ln in kept_a]
        held['second of two alternately advanced iterators'] = [ln.plain_text() for ln in kept_b]
    return text, lines, colored, held


# --------------------------------------------------------------------------- oracle

def teq(a, b):
    """type-aware equality of JSON-like values (1 != True != 1.0; floats by ==)"""
    if type(a) is not type(b):
        return False
    if isinstance(a, list):
        return len(a) == len(b) and all(teq(x, y) for x, y in zip(a, b))
    if isinstance(a, dict):
        if len(a) != len(b):
            return False
        kb = {(type(k), k): val for k, val in b.items()}
        for k, val in a.items():
            kk = (type(k), k)
            if kk not in kb or not teq(val, kb[kk]):
                return False
        return True
    return a == b


def tkey(x):
    """type-aware canonical string (classification and key identity only)"""
    if isinstance(x, dict):
        return '{' + ','.join(sorted(tkey(k) + ':' + tkey(val) for k, val in x.items())) + '}'
    if isinstance(x, (list, _Pairs)):
        return '[' + ','.join(tkey(e) for e in x) + ']'
    return type(x).__name__ + ':' + repr(x)


def classify(o, p):
    """class of the first difference between the original o and the parsed-back p"""
    if type(o) is not type(p):
        return 'value-differs'
    if isinstance(o, list):
        if len(o) != len(p):
            return 'element-lost-or-duplicated'
        if sorted(tkey(e) for e in o) == sorted(tkey(e) for e in p):
            return 'reordered'
        for a, b in zip(o, p):
            if not teq(a, b):
                return classify(a, b)
    if isinstance(o, dict):
        if {tkey(k) for k in o} != {tkey(k) for k in p}:
            return 'element-lost-or-duplicated'
        pk = {tkey(k): val for k, val in p.items()}
        for k, val in o.items():
            if not teq(val, pk[tkey(k)]):
                return classify(val, pk[tkey(k)])
    return 'value-differs'


class _Pairs(list):
    """a dict display read in text order: list of (key, value)"""


def _conv(node):
    if isinstance(node, ast.Constant):
        return node.value
    if isinstance(node, ast.UnaryOp) and isinstance(node.op, (ast.USub, ast.UAdd)) \
            and isinstance(node.operand, ast.Constant) and type(node.operand.value) in (int, float):
        return -node.operand.value if isinstance(node.op, ast.USub) else node.operand.value
    if isinstance(node, ast.List):
        return [_conv(e) for e in node.elts]
    if isinstance(node, ast.Dict):
        if any(k is None for k in node.keys):
            raise ValueError("dict unpacking in a literal")
        return _Pairs((_conv(k), _conv(val)) for k, val in zip(node.keys, node.values))
    raise ValueError(f"node {type(node).__name__} is not a JSON-like literal")


def parse_ordered(text, mode):
    if mode == 'json':
        return json.loads(text, object_pairs_hook=_Pairs)
    return _conv(ast.parse(text, mode='eval').body)


def homogeneous_keys(d):
    return all(type(k) is str for k in d) or all(type(k) is int for k in d)


def walk_ordered(o, p, out, path='$'):
    """o: original value; p: order-preserving parse of the text (already known to be equal as a value).
    Appends (clause, class, where)."""
    if isinstance(o, dict):
        if not isinstance(p, _Pairs):
            return
        okeys = [tkey(k) for k in o]
        pkeys = [tkey(k) for k, _ in p]
        if len(set(pkeys)) != len(pkeys):
            out.append(('elements_preserved', 'duplicate-dict-entry', path))
        elif set(pkeys) == set(okeys) and homogeneous_keys(o):
            want = [tkey(k) for k in sorted(o)]
            if pkeys != want:
                out.append(('sorted_keys', 'not-sorted', path))
        pd = {tkey(k): val for k, val in p}
        for k, val in o.items():
            if tkey(k) in pd:
                walk_ordered(val, pd[tkey(k)], out, f"{path}[{k!r}]")
    elif isinstance(o, list):
        if isinstance(p, _Pairs) or not isinstance(p, list) or len(p) != len(o):
            return
        for i, (a, b) in enumerate(zip(o, p)):
            walk_ordered(a, b, out, f"{path}[{i}]")


def short(s, n=160):
    s = s if isinstance(s, str) else repr(s)
    return s if len(s) <= n else s[:n // 2] + f" ...<{len(s) - n} more>... " + s[-n // 2:]


def _leaves(v, out):
    if isinstance(v, dict) and v:
        for x in v.values():
            _leaves(x, out)
    elif isinstance(v, list) and v:
        for x in v:
            _leaves(x, out)
    else:
        kind = repr(v) if (v is None or isinstance(v, (bool, list, dict))) else type(v).__name__
        out.setdefault(kind, v)


_SCALAR_CACHE = {}


def scalar_defect(v, mode):
    """failure classification only: does some simple leaf of v (one representative per kind), printed
    on its own, already fail to read back?  Then the defect is in simple-value rendering, not in layout."""
    if not isinstance(v, (list, dict)) or not v:
        return True
    reps = {}
    _leaves(v, reps)
    for x in reps.values():
        ck = (mode, tkey(x))
        if ck not in _SCALAR_CACHE:
            try:
                text = observe(x, mode)[0]
                back = json.loads(text) if mode == 'json' else ast.literal_eval(text)
                _SCALAR_CACHE[ck] = teq(back, x)
            except KeyboardInterrupt:
                raise
            except BaseException:      # noqa
                _SCALAR_CACHE[ck] = False
            if len(_SCALAR_CACHE) > 20000:
                _SCALAR_CACHE.clear()
        if not _SCALAR_CACHE.get(ck, True):
            return True
    return False


def check_value(v, mode, cspec=None):
    """all clauses on one (value, mode, colour specification).
    -> (fails [(obligation, key, text)], diags [text], info)"""
    fails, diags = [], []
    ob_rt = f"C11.{mode}_roundtrip"
    what = f"{mode} mode, value {short(repr(v))}"
    if cspec is not None:
        what = f"{mode} mode, colours given as [{describe_cspec(cspec)}], value {short(repr(v))}"
    try:
        text, lines, colored, held = observe_all(v, mode, cspec)
    except _Budget:
        return [(ob_rt, f"{ob_rt}:budget-overrun",
                 f"printing does not finish within {BUDGET_S} s ({what})")], diags, None
    except KeyboardInterrupt:
        raise
    except BaseException as e:      # noqa  (code under test may raise anything)
        return [(ob_rt, f"{ob_rt}:raises",
                 f"printing raises {type(e).__name__}: {short(str(e), 120)} ({what})")], diags, None
    if not isinstance(text, str):
        return [(ob_rt, f"{ob_rt}:unparseable:oneline",
                 f"plain_text() returns {type(text).__name__}, not str ({what})")], diags, None
    layout = 'multiline' if '\n' in text else 'oneline'
    info = {'text': text, 'nlines': text.count('\n') + 1, 'layout': layout, 'printed': colored}

    # lines_equal_whole
    if not all(isinstance(ln, str) for ln in lines):
        fails.append(('C11.lines_equal_whole', 'C11.lines_equal_whole:differs',
                      f"line iteration yields non-text items ({what})"))
    elif '\n'.join(lines) != text or any('\n' in ln for ln in lines):
        fails.append(('C11.lines_equal_whole', 'C11.lines_equal_whole:differs',
                      f"lines joined with newline differ from the whole text: {len(lines)} lines, "
                      f"joined {short(repr(chr(10).join(lines)), 120)} vs whole {short(repr(text), 120)} ({what})"))
    # ... and the lines that were kept while the generator went on, converted after the iteration finished
    for how, hl in held.items():
        whole = text
        if how.startswith('str:'):
            # str() of the kept lines against str() of the whole result (str vs plain_text is supporting, above)
            if not isinstance(colored, str):
                continue
            whole = colored
        if not all(isinstance(ln, str) for ln in hl):
            fails.append(('C11.lines_equal_whole', 'C11.lines_equal_whole:held-lines-differ',
                          f"{how}: non-text items ({what})"))
            break
        if '\n'.join(hl) != whole or any('\n' in ln for ln in hl):
            bad = [i for i, (a, b) in enumerate(zip(hl, whole.split('\n'))) if a != b]
            fails.append(('C11.lines_equal_whole', 'C11.lines_equal_whole:held-lines-differ',
                          f"{how}: the kept lines joined with newline differ from the whole text: {len(hl)} lines "
                          f"(whole text: {whole.count(chr(10)) + 1}), first differing line "
                          f"{bad[0] if bad else min(len(hl), whole.count(chr(10)) + 1)}: "
                          f"joined {short(repr(chr(10).join(hl)), 120)} vs whole {short(repr(whole), 120)} ({what})"))
            break
    if isinstance(lines, list) and all(isinstance(ln, str) for ln in lines):
        info['held_multiline'] = len(lines) >= 2 and all(len(hl) >= 2 for hl in held.values())
        # a line that is nothing but an opening bracket, handed out before later lines are produced
        info['held_bracket_line'] = info['held_multiline'] and any(ln.strip() in ('{', '[') for ln in lines[:-1])
    if colored != text:
        diags.append(f"C11.no_color.str_equals_plain_text: str(result) differs from plain_text() with "
                     f"no_color=True ({what})")
        # the output as it is printed is str(result): it is the text that has to read back
        parser = 'json.loads' if mode == 'json' else 'ast.literal_eval'
        problem = None
        try:
            back = json.loads(colored) if mode == 'json' else ast.literal_eval(colored)
            if not teq(back, v):
                problem = f"reads back as a different value: {short(repr(back))}"
        except (ValueError, SyntaxError, RecursionError, MemoryError, TypeError) as e:
            problem = f"is rejected by {parser} ({type(e).__name__}: {short(str(e), 100)})"
        if problem is not None:
            esc = isinstance(colored, str) and '\x1b' in colored
            cls = f"escape-characters:{palette_kind(cspec)}" if esc else 'str-output'
            fails.append((ob_rt, f"{ob_rt}:{cls}",
                          f"the output as printed, str(result), {problem}"
                          f"{'; it contains terminal escape sequences although no colours were asked for' if esc else ''}"
                          f"; str(result) = {short(repr(colored))} ({what})"))

    # round trip
    try:
        parsed = json.loads(text) if mode == 'json' else ast.literal_eval(text)
    except (ValueError, SyntaxError, RecursionError, MemoryError, TypeError) as e:
        parser = 'json.loads' if mode == 'json' else 'ast.literal_eval'
        cls = 'simple-value' if scalar_defect(v, mode) else f"unparseable:{layout}"
        fails.append((ob_rt, f"{ob_rt}:{cls}",
                      f"{parser} rejects the output ({type(e).__name__}: {short(str(e), 100)}); "
                      f"output {short(repr(text))} ({what})"))
        return fails, diags, info
    if not teq(parsed, v):
        cls = classify(v, parsed)
        kcls = 'simple-value' if (cls == 'value-differs' and scalar_defect(v, mode)) else f"{cls}:{layout}"
        fails.append((ob_rt, f"{ob_rt}:{kcls}",
                      f"output reads back as a different value ({cls}): {short(repr(parsed))}; "
                      f"output {short(repr(text))} ({what})"))
        return fails, diags, info

    # what the value-level comparison cannot see: entry order and repeated entries in the text
    try:
        ordered = parse_ordered(text, mode)
    except Exception as e:      # noqa
        diags.append(f"C11.ordered_parse: order-preserving parse failed although the stdlib parser "
                     f"accepted the text ({type(e).__name__}: {e}) ({what})")
        return fails, diags, info
    out = []
    walk_ordered(v, ordered, out)
    seen = set()
    for clause, cls, where in out:
        if (clause, cls) in seen:
            continue
        seen.add((clause, cls))
        if clause == 'sorted_keys':
            txt = f"dict at {where} is not printed in sorted key order; output {short(repr(text))} ({what})"
        else:
            txt = f"dict at {where} has an entry printed twice; output {short(repr(text))} ({what})"
        fails.append((f"C11.{clause}", f"C11.{clause}:{cls}:{layout}", txt))
    return fails, diags, info


# --------------------------------------------------------------------------- reference length model
# (steering only)

def ref_scalar(x, mode):
    if isinstance(x, str):
        return '"' + x + '"'
    if x is True:
        return 'true' if mode == 'json' else 'True'
    if x is False:
        return 'false' if mode == 'json' else 'False'
    if x is None:
        return 'null' if mode == 'json' else 'None'
    if isinstance(x, (int, float)):
        return repr(x)
    if x == []:
        return '[]'
    if x == {}:
        return '{}'
    raise ValueError(x)


LETTERS = 'abcdefghijklmnopqrstuvwxyz'


def mk_int(w, i):
    """positive int with exactly w digits, encoding i"""
    if w == 1:
        return (i % 9) + 1
    return int('1' + str(i % 10 ** (w - 1)).zfill(w - 1))


def mk_str(w, i):
    """string whose rendering (with its two quotes) is w wide, encoding i"""
    s, j = '', i
    while len(s) < w - 2:
        s += LETTERS[j % 26]
        j //= 26
    return s


MIX = ["ab", 7, 2.5, True, None, [], {}, -3, "", 1e+16, False, -0.5, "x y", 12345678901234567890, 0.0, "null"]


def elem(ekind, ew, i):
    if ekind == 'int':
        return mk_int(ew, i)
    if ekind == 'str':
        return mk_str(ew, i)
    return MIX[i % len(MIX)]


def dict_key(kind, i):
    if kind == 'dictint':
        return 100 + i
    return 'k' + LETTERS[(i // 26) % 26] + LETTERS[i % 26]


def build_flat(kind, ekind, ew, L, mode):
    """flat container (kind: list | dict | dictint) of simple values whose one-line rendering is
    exactly L wide by the reference model; element 0 is the filler that absorbs the remainder, so that
    consecutive L shift the phase of every later element by one column.  None if L is too small."""
    def over(i):
        return 2 if kind == 'list' else len(ref_scalar(dict_key(kind, i), mode)) + 4
    filler_int = (ekind == 'int')
    minfill = 1 if filler_int else 2
    items, total, i = [], 0, 1
    while True:
        e = elem(ekind, ew, i)
        w = len(ref_scalar(e, mode)) + over(i)
        if total + w + minfill + over(0) > L:
            break
        items.append(e)
        total += w
        i += 1
    fw = L - total - over(0)
    if fw < minfill:
        return None
    filler = mk_int(fw, 0) if filler_int else mk_str(fw, 0)
    values = [filler] + items
    if kind == 'list':
        return values
    n = len(values)
    order = sorted(range(n), key=lambda j: ((j * 37 + 11) % 127, j))     # scrambled insertion order
    return {dict_key(kind, j): values[j] for j in order}


def wrap(target, path, sib):
    """put target at nesting offset 2*len(path); path letters: d = dict value, l = list element"""
    for lvl in reversed(path):
        if lvl == 'd':
            target = {"sz": "z", "m": target, "sa": 1} if sib else {"m": target}
        else:
            target = [0, target, "t"] if sib else [target]
    return target


def all_wrappers():
    out = [('', False)]
    for depth in (1, 2, 3):
        for p in itertools.product('dl', repeat=depth):
            out.append((''.join(p), False))
            out.append((''.join(p), True))
    return out


def chain_wrappers():
    return [('', False)] + [(c * d, False) for d in (1, 2, 3) for c in 'dl']


def flat_combos(mode):
    """(kind, ekind, ew)"""
    out = []
    kinds = ['list', 'dict'] + (['dictint'] if mode == 'python' else [])
    for kind in kinds:
        for ew in (1, 3, 7, 30):
            out.append((kind, 'int', ew))
        for ew in (3, 7, 30):
            out.append((kind, 'str', ew))
        out.append((kind, 'mix', 0))
    return out


# --------------------------------------------------------------------------- random values

ALPHA = [chr(c) for c in range(32, 127) if chr(c) not in '"\'\\']
EXTRA = ['é', 'ß', 'Ж', '中', '😀']
TRICKY = ["null", "true", "True", "None", "false", "[", "]", "{", "}", ",", ":", ", ", ": ", " ", "  ", "#",
          "//", "1", "-1", "1.0", "[]", "{}", "a,b", "k: v", "NaN", "[1, 2]", "{a: 1}", "%s", "{0}", " "]
FLOATS = [0.0, -0.0, 1.0, -1.5, 0.1, 1e16, 1e-7, 1.7976931348623157e308, 5e-324, 2.2250738585072014e-308,
          123456789.12345679, 1e22, 1e21, 9007199254740992.0, -1e-5, 3.141592653589793, 1e100]
INTS = [0, 1, -1, 7, 10, 42, -99, 255, 2 ** 31, 2 ** 63, -2 ** 63 - 1, 10 ** 25, -10 ** 18]


def rnd_str(rng):
    r = rng.random()
    if r < 0.12:
        return rng.choice(TRICKY)
    n = rng.choice([0, 1, 1, 2, 3, 3, 5, 8, 12])
    if r > 0.96:
        n = rng.randint(20, 220)
    pool = ALPHA + EXTRA * 3 if rng.random() < 0.2 else ALPHA
    return ''.join(rng.choice(pool) for _ in range(n))


def rnd_float(rng):
    r = rng.random()
    if r < 0.4:
        return rng.choice(FLOATS)
    if r < 0.7:
        return round(rng.uniform(-1000, 1000), rng.choice([0, 1, 2, 6]))
    while True:
        x = struct.unpack('>d', rng.getrandbits(64).to_bytes(8, 'big'))[0]
        if math.isfinite(x):
            return x


def rnd_int(rng):
    if rng.random() < 0.4:
        return rng.choice(INTS)
    return rng.randint(-10 ** rng.choice([1, 2, 3, 6, 12]), 10 ** rng.choice([1, 2, 3, 6, 12]))


def rnd_scalar(rng, kind=None):
    kind = kind or rng.choice(['str', 'str', 'int', 'int', 'float', 'bool', 'none', 'empty'])
    if kind == 'str':
        return rnd_str(rng)
    if kind == 'int':
        return rnd_int(rng)
    if kind == 'float':
        return rnd_float(rng)
    if kind == 'bool':
        return rng.random() < 0.5
    if kind == 'none':
        return None
    return [] if rng.random() < 0.5 else {}


def rnd_keys(rng, n, mode):
    r = rng.random()
    style = 'str' if (mode == 'json' or r < 0.7) else ('int' if r < 0.9 else 'mixed')
    keys, seen = [], set()
    guard = 0
    while len(keys) < n:
        guard += 1
        as_int = style == 'int' or (style == 'mixed' and rng.random() < 0.5)
        if as_int:
            k = rng.randint(-50, 10 * n + 50)
        elif guard > 4 * n + 20:
            k = f"k{guard}"
        else:
            ln = rng.choice([0, 1, 1, 2, 3, 4, 6, 10])
            pool = ALPHA + EXTRA if rng.random() < 0.15 else ALPHA
            k = ''.join(rng.choice(pool) for _ in range(ln))
        ident = (type(k), k)
        if ident not in seen:
            seen.add(ident)
            keys.append(k)
    return keys


SIZES_FLAT = [0, 1, 2, 3, 4, 6, 10, 16, 25, 40, 60, 90, 130]
SIZES_NESTED = [1, 1, 2, 2, 3, 4, 6]


def rnd_value(rng, depth, mode, st, top=False):
    """depth = container levels still allowed"""
    st['nodes'] += 1
    if depth == 0 or st['nodes'] > st['cap'] or (not top and rng.random() < 0.3) or (top and rng.random() < 0.06):
        return rnd_scalar(rng)
    is_list = rng.random() < 0.5
    flat = depth == 1 or rng.random() < 0.45
    if flat:
        one_kind = rng.choice(['str', 'int', 'float', 'bool', 'none']) if rng.random() < 0.4 else None
        tuned = rng.random() < 0.35
        target = rng.randint(140, 215) if tuned else None
        n = 400 if tuned else rng.choice(SIZES_FLAT)
        vals, total = [], 0
        for _ in range(n):
            x = rnd_scalar(rng, one_kind)
            vals.append(x)
            total += len(ref_scalar(x, mode)) + (2 if is_list else 8)
            if target is not None and total >= target:
                break
        st['nodes'] += len(vals)
    else:
        n = rng.choice(SIZES_NESTED)
        vals = [rnd_value(rng, depth - 1, mode, st) for _ in range(n)]
    if is_list:
        return vals
    keys = rnd_keys(rng, len(vals), mode)
    return dict(zip(keys, vals))


def random_value(seed, idx, mode):
    rng = random.Random(f"C11:{seed}:{idx}:{mode}")
    depth = rng.choice([1, 2, 2, 3, 3, 4, 4])
    return rnd_value(rng, depth, mode, {'nodes': 0, 'cap': 500}, top=True)


# --------------------------------------------------------------------------- tiny exhaustive scope

TINY_POOL = [0, -1, "a", "", True, False, None, 1.5, [], {}]


def tiny_values():
    vals = list(TINY_POOL)
    inner = []
    for n in (1, 2):
        for t in itertools.product(TINY_POOL, repeat=n):
            inner.append(list(t))
    for a in TINY_POOL:
        inner.append({"a": a})
        for b in TINY_POOL:
            inner.append({"b": b, "a": a})
    vals += inner
    # one more level around a subset
    for x in inner[::7]:
        vals += [[x], [x, 1], {"k": x}, {"z": 0, "k": x}, [x, x]]
    return vals


# --------------------------------------------------------------------------- specs -> values

def value_from_spec(spec, mode):
    tag = spec[0]
    if tag == 'flat':
        _, kind, ekind, ew, L, path, sib = spec
        t = build_flat(kind, ekind, ew, L, mode)
        return None if t is None else wrap(t, path, sib)
    if tag == 'elephant':
        _, wide, pos, ew, n, ekind, path = spec
        vals = [elem(ekind, ew, i + 1) for i in range(n)]
        big = mk_str(wide, 0) if ekind == 'str' else mk_int(wide, 0)
        at = {'first': 0, 'mid': n // 2, 'last': n}[pos]
        vals.insert(at, big)
        return wrap(vals, path, False)
    if tag == 'multi':
        _, outer, ekind, ew, L, path, sib = spec
        parts = [build_flat('list', ekind, ew, L - 1, mode), build_flat('dict', ekind, ew, L, mode),
                 build_flat('list', ekind, ew, L + 1, mode), build_flat('dict', ekind, ew, L + 2, mode)]
        if any(p is None for p in parts):
            return None
        if outer == 'list':
            return wrap(parts, path, sib)
        return wrap({"d": parts[3], "b": parts[1], "a": parts[0], "c": parts[2]}, path, sib)
    if tag == 'tiny':
        return tiny_values()[spec[1]]
    if tag == 'random':
        return random_value(spec[1], spec[2], mode)
    raise ValueError(f"unknown spec {spec!r}")


def contains_nonstring_key(v):
    if isinstance(v, dict):
        return any(type(k) is not str for k in v) or any(contains_nonstring_key(x) for x in v.values())
    if isinstance(v, list):
        return any(contains_nonstring_key(x) for x in v)
    return False


# --------------------------------------------------------------------------- tasks (run in workers)

def _eval(spec, mode, res, keep_info=False, cspec=None):
    if _OVERRUNS is not None and _OVERRUNS.value >= MAX_OVERRUNS:
        res['skipped'] = res.get('skipped', 0) + 1
        return None
    v = value_from_spec(spec, mode)
    if v is None:
        return None
    if mode == 'json' and contains_nonstring_key(v):
        raise AssertionError(f"harness: non-string key generated for JSON mode, spec {spec!r}")
    fails, diags, info = check_value(v, mode, cspec)
    case = {'mode': mode, 'spec': list(spec)}
    if cspec is not None:
        case['colors'] = list(cspec)
    res['cases'].append((case, bool(info and info['layout'] == 'multiline')))
    for ob, key, text in fails:
        if key.endswith(':budget-overrun') and _OVERRUNS is not None:
            with _OVERRUNS.get_lock():
                _OVERRUNS.value += 1
        fc = dict(case)
        fc['value'] = repr(v)
        res['fails'].append((ob, key, text, fc))
    for d in diags:
        if d not in res['diags'] and len(res['diags']) < 20:
            res['diags'].append(d)
    if info is not None:
        if info.get('held_multiline'):
            res['events'][EV_HELD] = res['events'].get(EV_HELD, 0) + 1
        if info.get('held_bracket_line'):
            res['events'][EV_HELD_BRACKET] = res['events'].get(EV_HELD_BRACKET, 0) + 1
    return info


def run_task(task):
    """one family; returns plain data"""
    res = {'cases': [], 'fails': [], 'diags': [], 'events': {}}

    def hit(ev):
        res['events'][ev] = res['events'].get(ev, 0) + 1

    tag = task[0]
    if tag == 'flatfam':
        _, mode, kind, ekind, ew, path, sib, Ls = task
        off = 2 * len(path)
        tkind = 'list' if kind == 'list' else 'dict'
        # line count of the same wrapper around a target that is certainly one line (event detection only)
        base = None
        small = value_from_spec(('flat', kind, ekind if ekind != 'mix' else 'int', 1, 12, path, sib), mode)
        try:
            base = observe(small, mode)[0].count('\n') + 1
        except BaseException as e:      # noqa  (reported through the clauses of the real cases)
            if isinstance(e, KeyboardInterrupt):
                raise
        seen = {}

        def explore(L):
            if L in seen or L < 8:
                return
            info = _eval(('flat', kind, ekind, ew, L, path, sib), mode, res)
            if info is None:
                seen[L] = None
                return
            status = None if base is None else (info['nlines'] == base)
            seen[L] = (status, info['nlines'])

        for L in Ls:
            explore(L)
        # adaptive refinement: wherever the one-line status changes between two explored lengths that are
        # not adjacent, bisect to the flip and explore every length within 6 of it, so that the flip is
        # crossed at adjacent lengths (T-6 .. T+6) whatever the value of the constant is
        known = sorted(L for L in seen if seen[L] is not None and seen[L][0] is not None)
        for la, lb in zip(known, known[1:]):
            if lb - la > 1 and seen[la][0] != seen[lb][0]:
                while lb - la > 1:
                    mid = (la + lb) // 2
                    explore(mid)
                    if seen.get(mid) is None or seen[mid][0] is None:
                        break
                    if seen[mid][0] == seen[la][0]:
                        la = mid
                    else:
                        lb = mid
                for L in range(la - 6, lb + 7):
                    explore(L)
        known = sorted(L for L in seen if seen[L] is not None and seen[L][0] is not None)
        for la, lb in zip(known, known[1:]):
            if lb - la == 1 and seen[la][0] != seen[lb][0]:
                hit(f"flip:{tkind}@off{off}")
                hit('one-line<->multi-line flip')
        if kind == 'list' and base is not None:
            for L in known:
                n = len(build_flat(kind, ekind, ew, L, mode))
                added = seen[L][1] - base
                if n >= 3 and 3 <= added <= n:
                    hit(f"wrap:list@off{off}")
                    hit('per-line wrap')
                    if added >= 4:
                        hit('wrap over >= 3 lines')
    elif tag == 'speclist':
        _, mode, specs = task
        for spec in specs:
            info = _eval(tuple(spec), mode, res)
            if info is not None and info['layout'] == 'multiline':
                hit(f"multi-line:{spec[0]}")
    elif tag == 'random':
        _, mode, seed, start, count = task
        for idx in range(start, start + count):
            info = _eval(('random', seed, idx), mode, res)
            if info is not None and info['layout'] == 'multiline':
                hit('multi-line:random')
    elif tag == 'colors':
        _, mode, pairs = task
        for spec, cspec in pairs:
            cspec = tuple(cspec)
            info = _eval(tuple(spec), mode, res, cspec=cspec)
            if info is None:
                continue
            # reach: the forms that took part in a printing that produced a text
            hit(f"colors:palette={cspec[0]}")
            hit(f"colors:colors_conf={cspec[1]}")
            hit(f"colors:no_color={cspec[2]}")
            if info['layout'] == 'multiline':
                hit('multi-line:colors')
            by = colorless_by(cspec)
            if by == ['no_color=True']:
                # everything but the no_color argument is coloured - really?  The same arguments without no_color
                # (event detection only; a fresh set of objects)
                try:
                    with _quiet(), _budget(BUDGET_S):
                        kw = color_kwargs((cspec[0], cspec[1], 'omitted'))
                        same_value = value_from_spec(tuple(spec), mode)
                        vivid = '\x1b' in str(PrettyPrinter(fmt_json=(mode == 'json'))(same_value, **kw))
                except BaseException as e:      # noqa  (event detection only)
                    if isinstance(e, KeyboardInterrupt):
                        raise
                    vivid = False
                if vivid:
                    kind = palette_kind(cspec)
                    hit(f"colors: no_color=True overrides a coloured {kind}"
                        f"{' / config' if cspec[1] in ('fresh', 'custom') else ''}"
                        f" (the same arguments without no_color give escape sequences)")
            else:
                hit('colors: no colours asked for by ' + ' + '.join(by))
    else:
        raise ValueError(task)
    return res


# values printed under the colour specifications: every kind of leaf (keys, strings, numbers, constants, empty
# containers), one-line and multi-line, wrapped lists, nesting
def color_value_specs(mode, seed, thorough):
    """-> (core specs: printed under every colour specification, more specs: each under a rotating subset)"""
    n_tiny = len(tiny_values())
    core = [('tiny', i) for i in (0, 2, 4, 7, 9)]                      # 0, "a", True, 1.5, {}
    core += [('tiny', i) for i in range(10, n_tiny, 67)]
    core += [('flat', 'dict', 'mix', 0, 120, '', False), ('flat', 'list', 'mix', 0, 230, 'd', True),
             ('flat', 'list', 'int', 3, 340, 'l', False), ('flat', 'dict', 'str', 7, 210, 'dl', True),
             ('multi', 'dict', 'mix', 0, 196, 'd', True)]
    if mode == 'python':
        core.append(('flat', 'dictint', 'mix', 0, 215, 'l', True))
    more = [('tiny', i) for i in range(3, n_tiny, 13 if not thorough else 5)]
    for kind in ('list', 'dict'):
        for ekind, ew in (('mix', 0), ('int', 1), ('str', 7)):
            for L in ((190, 210, 340) if not thorough else (60, 150, 190, 197, 198, 199, 200, 210, 340, 520)):
                for path, sib in (('', False), ('dl', True)) if not thorough else all_wrappers()[::3]:
                    more.append(('flat', kind, ekind, ew, L, path, sib))
    more += [('multi', 'list', 'mix', 0, 194, 'l', False), ('elephant', 152, 'mid', 1, 40, 'int', 'd')]
    more += [('random', seed, i) for i in range(24 if not thorough else 200)]
    return core, more


def color_tasks(mode, seed, thorough):
    cspecs = all_cspecs()
    core, more = color_value_specs(mode, seed, thorough)
    pairs = [(spec, c) for spec in core for c in cspecs]
    if thorough:
        pairs += [(spec, c) for spec in more for c in cspecs]
    else:
        # every further value under 7 specifications, rotating through all of them (stride coprime to the number)
        n = len(cspecs)
        stride = next(k for k in range(n // 7 + 1, 2 * n) if math.gcd(k, n) == 1)
        for i, spec in enumerate(more):
            pairs += [(spec, cspecs[(i + j * stride) % n]) for j in range(7)]
    per = 150
    return [('colors', mode, pairs[k:k + per]) for k in range(0, len(pairs), per)]


def make_tasks(tier, seed):
    tasks = []
    thorough = tier == 'thorough'
    for mode in MODES:
        combos = flat_combos(mode)
        if thorough:
            # chain wrappers: every rendered length 8..520; the other wrappers: every length 150..260 (both
            # thresholds +-50 at every offset), 330..370 (all phases of the wrapped-line boundary) and every
            # 7th length elsewhere; plus the adaptive refinement of the worker
            dense = sorted(set(range(8, 521, 7)) | set(range(150, 261)) | set(range(330, 371)) | {900})
            for kind, ekind, ew in combos:
                for path, sib in all_wrappers():
                    chain = (path, sib) in chain_wrappers()
                    tasks.append(('flatfam', mode, kind, ekind, ew, path, sib,
                                  list(range(8, 521)) + [900] if chain else dense))
        else:
            for kind, ekind, ew in combos:
                for path, sib in all_wrappers():
                    # chain wrappers: every 11th length; the others: 3 bracketing lengths.  The worker then
                    # bisects to the observed one-line <-> multi-line flip and explores every length within
                    # 6 of it, wherever the constant is
                    chain = (path, sib) in chain_wrappers()
                    Ls = list(range(8, 430, 11)) if chain else [8, 120, 429]
                    if kind == 'list' and (chain or (ekind, ew) in (('int', 1), ('str', 7), ('int', 30), ('mix', 0))):
                        # wrapped lists: every phase of the line boundary against the per-line threshold
                        step = (ew + 2) if ekind != 'mix' else 8
                        Ls = sorted(set(Ls + list(range(330, 330 + step + 7)) + [900]))
                    tasks.append(('flatfam', mode, kind, ekind, ew, path, sib, Ls))
        # one element wider than a line, among small ones
        specs = []
        wides = list(range(T_WRAP - 6, T_WRAP + 7)) + [T_ONELINE - 2, T_ONELINE + 10, 400]
        for path, _ in chain_wrappers():
            for wide in (wides if thorough else wides[2:11] + [T_ONELINE + 10]):
                for pos in ('first', 'mid', 'last'):
                    for ekind, ew in (('int', 1), ('str', 7)):
                        for n in ((0, 1, 2, 40) if thorough else (1, 40)):
                            specs.append(('elephant', wide, pos, ew, n, ekind, path))
        tasks.append(('speclist', mode, specs))
        # several near-threshold containers side by side
        specs = []
        for path, sib in (all_wrappers() if thorough else chain_wrappers()):
            off = 2 * len(path) + 2
            for outer in ('list', 'dict'):
                for ekind, ew in (('int', 1), ('str', 7), ('mix', 0)):
                    for L in range(T_ONELINE - off - 6, T_ONELINE - off + 7):
                        specs.append(('multi', outer, ekind, ew, L, path, sib))
        tasks.append(('speclist', mode, specs))
        # the documented ways of passing colours / of asking for no colours
        tasks += color_tasks(mode, seed, thorough)
        # tiny exhaustive scope
        tasks.append(('speclist', mode, [('tiny', i) for i in range(len(tiny_values()))]))
        # seeded random values, depth <= 4
        total = 30000 if thorough else 4000
        per = 500
        for start in range(0, total, per):
            tasks.append(('random', mode, seed, start, per))
    return tasks


EV_HELD = 'held-lines: multi-line output, lines kept and converted after the iteration finished'
EV_HELD_BRACKET = 'held-lines: a kept line is an opening bracket alone'

REQUIRED_REACH = (['one-line<->multi-line flip', 'per-line wrap', 'wrap over >= 3 lines']
                  + [f"flip:{k}@off{o}" for k in ('list', 'dict') for o in OFFSETS]
                  + [f"wrap:list@off{o}" for o in OFFSETS]
                  + ['multi-line:random', 'multi-line:elephant', 'multi-line:multi']
                  + [EV_HELD, EV_HELD_BRACKET]
                  + [f"colors:palette={f}" for f in PALETTE_FORMS]
                  + [f"colors:colors_conf={f}" for f in CONF_FORMS]
                  + [f"colors:no_color={f}" for f in NO_COLOR_FORMS]
                  + ['multi-line:colors',
                     'colors: no_color=True overrides a coloured palette-object'
                     ' (the same arguments without no_color give escape sequences)',
                     'colors: no_color=True overrides a coloured palette-class'
                     ' (the same arguments without no_color give escape sequences)',
                     'colors: no_color=True overrides a coloured palette-class / config'
                     ' (the same arguments without no_color give escape sequences)',
                     'colors: no_color=True overrides a coloured default-palette'
                     ' (the same arguments without no_color give escape sequences)',
                     'colors: no_color=True overrides a coloured default-palette / config'
                     ' (the same arguments without no_color give escape sequences)',
                     'colors: no colours asked for by no-colour palette object',
                     'colors: no colours asked for by no-colour config',
                     'colors: no colours asked for by no_color=True + no-colour palette object',
                     'colors: no colours asked for by no_color=True + no-colour config'])


def run(b):
    tasks = make_tasks(b.tier, b.seed)
    # big tasks first keeps the pool busy; results are consumed in task order (deterministic)
    ctx = multiprocessing.get_context('fork')
    nproc = max(1, min(16, multiprocessing.cpu_count()))
    global _OVERRUNS
    _OVERRUNS = ctx.Value('i', 0)
    skipped = 0
    with ctx.Pool(nproc) as pool:
        for res in pool.imap(run_task, tasks, chunksize=1):
            skipped += res.get('skipped', 0)
            for case, nontrivial in res['cases']:
                b.case(case, nontrivial=nontrivial)
            for ev, n in res['events'].items():
                b.hit(ev, n)
            for ob, key, text, case in res['fails']:
                b.fail(ob, key, text, case)
            for d in res['diags']:
                b.diag(d)
    b.notes['tasks'] = len(tasks)
    if skipped:
        b.error(f"{skipped} cases were not explored: printing overran its {BUDGET_S} s budget {MAX_OVERRUNS} times "
                f"(reported as violations) and the rest of the space was skipped")
    b.require_reach(REQUIRED_REACH)


def replay_case(case):
    mode = case['mode']
    if 'value' in case:
        v = ast.literal_eval(case['value'])
    else:
        v = value_from_spec(tuple(case['spec']), mode)
    cspec = tuple(case['colors']) if case.get('colors') else None
    if cspec is not None and not (len(cspec) == 3 and cspec[0] in PALETTE_FORMS and cspec[1] in CONF_FORMS
                                  and cspec[2] in NO_COLOR_FORMS and valid_cspec(cspec)):
        raise ValueError(f"not a colour specification of the explored space: {cspec!r}")
    fails, diags, info = check_value(v, mode, cspec)
    return (not fails), {'failed': [f"{ob}: {text}" for ob, _, text in fails],
                         'output': short(info['text'], 2000) if info else None,
                         'printed_differs_from_plain_text': (short(repr(info['printed']), 2000)
                                                             if info and info['printed'] != info['text'] else None)}
