"""C19 bounded driver: every acyclic parent declaration over <= N commands, with real argparse.

Contract enforced at run time (top-level clauses, from the property statement):
  init.no_exception      ArgParser(commands=...) succeeds for every declaration whose parents are
                         earlier names
  dependents.closure     X in dependents(P)  <=>  P in anc[X]   (anc = transitive parents)
  option.inherited       option added to parser X is accepted by command c  <=>  X == c or X in anc[c]
  option.global          options added to the ArgParser and --color / --no-color / -v accepted by all
  default_command        argv not starting with a *command* name is parsed as the default command
                         (names are compared exactly: a first argument which differs from a command
                         name or from the name of an internal option set only by letter case is NOT a
                         command name; it is data of the default command, and the options accepted after
                         it are those the default command inherits)
"""
import contextlib
import io
import itertools
import os
import sys

from ak import cli_tools

# the third assignment has names with upper-case letters, two of them equal up to letter case
NAMESETS = [['a', 'b', 'c', 'd', 'e'], ['zeta', 'y', 'mm', 'k2', 'b'], ['Run', 'lS', 'ls', 'GO', 'b']]

K_CASE_CMD = 'first-argument-differs-from-a-command-name-only-by-case'
K_CASE_INT = 'first-argument-differs-from-an-internal-name-only-by-case'


def anc_of(decl):
    anc = {}
    for name, parents, internal in decl:
        s = set(parents)
        for p in parents:
            s |= anc[p]
        anc[name] = s
    return anc


def build(decl):
    commands = []
    for name, parents, internal in decl:
        nm = ('!' if internal else '') + name
        if parents:
            nm += ':' + ','.join(parents)
        commands.append((nm, f"help {name}"))
    return cli_tools.ArgParser(commands=commands, prog='prog')


@contextlib.contextmanager
def quiet():
    old_err, old_out = sys.stderr, sys.stdout
    sys.stderr = io.StringIO()
    sys.stdout = io.StringIO()
    try:
        yield
    finally:
        sys.stderr, sys.stdout = old_err, old_out


def try_parse(parser, argv):
    with quiet():
        try:
            return parser.parse_args(list(argv)), None
        except SystemExit as e:
            return None, f"SystemExit({e.code})"
        except Exception as e:      # noqa
            return None, f"{type(e).__name__}: {e}"


def check_decl(decl):
    """evaluate every clause on one declaration; returns list of (clause, key-suffix, text)"""
    out = []
    anc = anc_of(decl)
    names = [d[0] for d in decl]
    cmds = [d[0] for d in decl if not d[2]]
    try:
        with quiet():
            parser = build(decl)
    except BaseException as e:      # noqa
        return [('init.no_exception', type(e).__name__,
                 f"ArgParser(commands={decl_str(decl)}) raises {type(e).__name__}")], None
    # dependents = descendants
    for p in names:
        deps = set(parser.command_parsers[p]._dependent_parsers)
        want = {x for x in names if p in anc[x]}
        if deps != want:
            out.append(('dependents.closure', 'mismatch',
                        f"dependents({p}) = {sorted(deps)}, descendants = {sorted(want)} for {decl_str(decl)}"))
    # one option per parser, one global
    try:
        with quiet():
            for x in names:
                parser.get_cmd_parser(x).add_argument(f'--opt-{x}', action='store_true')
            parser.add_argument('--glob', action='store_true')
            parser.get_cmd_parser(cmds[0]).add_argument('items', nargs='*') if False else None
    except BaseException as e:      # noqa
        out.append(('option.inherited', 'add_argument-' + type(e).__name__,
                    f"add_argument raises {type(e).__name__}: {e} for {decl_str(decl)}"))
        return out, parser
    for c in cmds:
        for x in names:
            ns, err = try_parse(parser, [c, f'--opt-{x}'])
            should = (x == c) or (x in anc[c])
            if should and ns is None:
                out.append(('option.inherited', 'rejected',
                            f"command {c} rejects --opt-{x} of its ancestor ({err}) for {decl_str(decl)}"))
            elif should and not getattr(ns, f'opt_{x}', False):
                out.append(('option.inherited', 'not-set', f"{c} --opt-{x}: value not set"))
            elif not should and ns is not None:
                out.append(('option.inherited', 'accepted-foreign',
                            f"command {c} accepts --opt-{x} although {x} is not an ancestor, {decl_str(decl)}"))
        for argv in ([c, '--glob'], [c, '--color'], [c, '--color=never'], [c, '--no-color'], [c, '-v'],
                     [c, '-vv', '--glob']):
            ns, err = try_parse(parser, argv)
            if ns is None:
                out.append(('option.global', 'rejected', f"{argv} rejected ({err}) for {decl_str(decl)}"))
            elif ns.command != c:
                out.append(('option.global', 'wrong-command', f"{argv} parsed as {ns.command}"))
    # default command: argv not starting with a command name
    default = cmds[0]
    for argv in ([], [f'--opt-{default}'], ['--glob'], ['-v']):
        ns, err = try_parse(parser, argv)
        if ns is None or ns.command != default:
            out.append(('default_command', 'not-default',
                        f"argv {argv} not parsed as default command {default} ({err}) for {decl_str(decl)}"))
    return out, parser


def check_default_with_positional(decl):
    """first argument that is not a command name (in particular the name of an internal '!' option
    set) goes to the default command"""
    out = []
    names = [d[0] for d in decl]
    cmds = [d[0] for d in decl if not d[2]]
    try:
        with quiet():
            parser = build(decl)
            parser.get_cmd_parser(cmds[0]).add_argument('items', nargs='*')
    except BaseException:      # noqa  (reported by check_decl)
        return out
    words = [d[0] for d in decl if d[2]] + ['word']
    for w in words:
        ns, err = try_parse(parser, [w])
        if ns is None or ns.command != cmds[0] or ns.items != [w]:
            kind = 'internal-name' if w != 'word' else 'plain-word'
            out.append(('default_command', kind,
                        f"argv [{w!r}] ({kind}, not a command) not parsed as default command {cmds[0]} "
                        f"with items=[{w!r}] ({err or vars(ns)}) for {decl_str(decl)}"))
    # the decision rests on the FIRST argument only: a later argument spelled like a command
    # (or like an internal option set) is data of the default command
    try:
        with quiet():
            parser.get_cmd_parser(cmds[0]).add_argument('--val')
    except BaseException:      # noqa
        return out
    for w in [d[0] for d in decl] + ['word']:
        for argv, want_val, want_items in (([ '--val', w], w, []), (['-v', w], None, [w]),
                                            (['--val', 'x', w, '-v'], 'x', [w])):
            ns, err = try_parse(parser, argv)
            if ns is None or ns.command != cmds[0] or ns.val != want_val or ns.items != want_items:
                kind = 'later-arg-internal-name' if any(d[0] == w and d[2] for d in decl) else \
                    ('later-arg-command-name' if w != 'word' else 'later-arg-plain-word')
                out.append(('default_command', kind,
                            f"argv {argv} (first argument is not a command name) not parsed as default command "
                            f"{cmds[0]} with val={want_val!r}, items={want_items} ({err or vars(ns)}) "
                            f"for {decl_str(decl)}"))
    return out


def case_variants(name):
    """spellings which differ from `name` only by letter case (deterministic order)"""
    alt = ''.join(ch.upper() if i % 2 else ch.lower() for i, ch in enumerate(name))
    out = []
    for w in (name.upper(), name.lower(), name.capitalize(), name.swapcase(), alt):
        if w != name and w.lower() == name.lower() and w not in out:
            out.append(w)
    return out


def check_first_arg_case_variant(decl, events=None):
    """Names are compared exactly.  A first argument which differs from a declared name (of a command
    or of an internal '!' option set) only by letter case is not a command name, hence the vector is
    parsed as the default command: the word is its positional, and an option following it is accepted
    iff the DEFAULT command owns or inherits it (not iff the similarly spelled command does)."""
    out = []
    anc = anc_of(decl)
    names = [d[0] for d in decl]
    cmds = [d[0] for d in decl if not d[2]]
    default = cmds[0]
    try:
        with quiet():
            parser = build(decl)
            for x in names:
                parser.get_cmd_parser(x).add_argument(f'--opt-{x}', action='store_true')
            parser.get_cmd_parser(default).add_argument('items', nargs='*')
    except BaseException:      # noqa  (reported by check_decl)
        return out

    def owns(c, x):
        return x == c or x in anc[c]

    for nm, _parents, internal in decl:
        for wi, w in enumerate(case_variants(nm)):
            if w in names:
                # exactly the name of another command (not a case of this clause) or of an internal
                # option set (class 'internal-name' of check_default_with_positional)
                continue
            ksuf = K_CASE_INT if internal else K_CASE_CMD
            if events is not None:
                events.add('first-arg-case-variant-of-internal-name' if internal
                           else 'first-arg-case-variant-of-command-name')
                if not internal and any(owns(nm, x) != owns(default, x) for x in names):
                    events.add('first-arg-case-variant-of-command-with-other-option-set')
            ns, err = try_parse(parser, [w])
            if ns is None or ns.command != default or ns.items != [w]:
                out.append(('default_command', ksuf,
                            f"argv [{w!r}] (differs from the declared name {nm!r} only by letter case, so it is "
                            f"not a command name) not parsed as default command {default} with items=[{w!r}] "
                            f"({err or vars(ns)}) for {decl_str(decl)}"))
            for x in (names if wi < 2 else []):     # options: after the first two spellings only (cost)
                argv = [w, f'--opt-{x}']
                ns, err = try_parse(parser, argv)
                if owns(default, x):
                    if ns is None or ns.command != default or ns.items != [w] \
                            or not getattr(ns, f'opt_{x}', False):
                        out.append(('default_command', ksuf,
                                    f"argv {argv} ({w!r} differs from the declared name {nm!r} only by letter "
                                    f"case, so it is not a command name; --opt-{x} is owned or inherited by the "
                                    f"default command {default}) not parsed as {default} with items=[{w!r}] and "
                                    f"opt_{x} set ({err or vars(ns)}) for {decl_str(decl)}"))
                elif ns is not None:
                    out.append(('default_command', ksuf,
                                f"argv {argv} ({w!r} differs from the declared name {nm!r} only by letter case, "
                                f"so the vector belongs to the default command {default}) accepted although "
                                f"{default} neither owns nor inherits --opt-{x} ({vars(ns)}) for {decl_str(decl)}"))
    return out


def decl_str(decl):
    return '[' + ', '.join(('!' if i else '') + n + (':' + ','.join(p) if p else '') for n, p, i in decl) + ']'


def shape(decl):
    anc = anc_of(decl)
    feats = set()
    for name, parents, internal in decl:
        if len(parents) >= 2:
            feats.add('multi-parent')
            # diamond: some ancestor reachable through two different parents (or parent + its ancestor)
            seen = []
            for p in parents:
                seen.append({p} | anc[p])
            for i in range(len(seen)):
                for j in range(i + 1, len(seen)):
                    if seen[i] & seen[j]:
                        feats.add('diamond')
        if any(len(anc[p]) >= 1 for p in parents):
            feats.add('chain3')
        if any(d[2] for d in decl if d[0] in parents):
            feats.add('internal-parent')
    return feats


def enumerate_decls(n, names):
    for k in range(1, n + 1):
        for parent_choice in itertools.product(*[
                [c for r in range(i + 1) for c in itertools.combinations(names[:i], r)] for i in range(k)]):
            for internal in itertools.product([False, True], repeat=k):
                if all(internal):
                    continue
                yield [(names[i], list(parent_choice[i]), internal[i]) for i in range(k)]


def run(b):
    n = 4 if b.tier == 'quick' else 5
    for ni, names in enumerate(NAMESETS):
        for decl in enumerate_decls((n, min(n, 4), n - 1)[ni], names):
            feats = shape(decl)
            for f in feats:
                b.hit(f)
            case = {'decl': decl}
            b.case(case, nontrivial=('multi-parent' in feats))
            res, _ = check_decl(decl)
            events = set()
            res = list(res) + check_default_with_positional(decl) + check_first_arg_case_variant(decl, events)
            for ev in sorted(events):
                b.hit(ev)
            for clause, ksuf, text in res:
                cls = 'diamond' if 'diamond' in feats else ('multi-parent' if 'multi-parent' in feats else 'tree')
                key = f"C19.{clause}:{ksuf}:{cls}" if clause in ('init.no_exception', 'dependents.closure') \
                    else f"C19.{clause}:{ksuf}"
                b.fail(f"C19.{clause}", key, text, case)
    b.require_reach(['diamond', 'chain3', 'internal-parent',
                     'first-arg-case-variant-of-command-name', 'first-arg-case-variant-of-internal-name',
                     'first-arg-case-variant-of-command-with-other-option-set'])


def replay_case(case):
    decl = [(n, list(p), bool(i)) for n, p, i in case['decl']]
    res, _ = check_decl(decl)
    res = list(res) + check_default_with_positional(decl) + check_first_arg_case_variant(decl)
    return (not res), [r[2] for r in res]
